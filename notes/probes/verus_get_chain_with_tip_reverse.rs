use vstd::prelude::*;
verus! {
#[derive(PartialEq, Eq, Clone, Copy, Structural)]
struct BlockHash(u64);
trait ChainBlock {
    spec fn shash(&self) -> BlockHash;
    fn block_hash(&self) -> (r: &BlockHash) ensures *r == self.shash();
}
struct BlockTree<Block> { root: Block, children: Vec<BlockTree<Block>> }

impl<Block: ChainBlock> BlockTree<Block> {
    spec fn contains(&self, h: BlockHash) -> bool decreases self {
        self.root.shash() == h || exists|i: int| 0 <= i < self.children@.len() && (#[trigger] self.children@[i]).contains(h)
    }
    #[verifier::external_body]
    fn get_child_blocks(&self) -> (r: Vec<&Block>)
       ensures r@.len() == self.children@.len(), forall|i: int| 0 <= i < r@.len() ==> *r@[i] == self.children@[i].root
    { unimplemented!() }

    fn get_chain_with_tip_reverse<'a>(
        &'a self,
        tip: &BlockHash,
    ) -> (res: Option<(Vec<&'a Block>, Vec<&'a Block>)>)
        ensures res.is_some() <==> self.contains(*tip),
           res matches Some(p) ==> p.0@.len() >= 1 && (*p.0@[0]).shash() == *tip && *p.0@[p.0@.len() - 1] == self.root,
        decreases self
    {
        if self.root.block_hash() == tip {
            return Some((vec![&self.root], self.get_child_blocks()));
        }

        for child in it: self.children.iter() 
           invariant forall|i: int| 0 <= i < it.index@ ==> !(#[trigger] self.children@[i]).contains(*tip),
              self.root.shash() != *tip,
        {
            if let Some((mut chain, tip_successors)) = child.get_chain_with_tip_reverse(tip) {
                chain.push(&self.root);
                return Some((chain, tip_successors));
            }
        }

        None
    }
}
}
fn main() {}
