use vstd::prelude::*;
use std::collections::BTreeSet;
verus! {
struct State { api: u8, n: u32 }
uninterp spec fn global_state() -> State;
#[verifier::external_body]
fn vp_state() -> (r: &'static State) ensures *r == global_state() { unimplemented!() }
#[verifier::external_body]
fn vp_refuse() -> ! { panic!() }

fn verify_api_access()
   ensures global_state().api != 0
{
    { let state: &State = vp_state();
        if state.api == 0 {
            vp_refuse();
        }
    };
}

// closure call
fn apply<F: FnOnce(u32) -> u32>(x: u32, f: F) -> (r: u32)
   requires f.requires((x,))
   ensures f.ensures((x,), r)
{ f(x) }

// nested vec push
fn helper(v: &mut Vec<Vec<u32>>, h: usize, x: u32)
   requires h < old(v).len()
   ensures final(v).len() == old(v).len(), final(v)[h as int]@ == old(v)[h as int]@.push(x)
{
    v[h].push(x);
}

// btreeset
fn uniq(xs: &[u64]) -> (r: bool)
   ensures r == (forall|i: int, j: int| 0 <= i < j < xs.len() ==> xs[i] != xs[j])
{
    let mut s: BTreeSet<u64> = BTreeSet::new();
    for x in it: xs.iter()
       invariant forall|k: u64| s@.contains(k) <==> exists|i: int| 0 <= i < it.index@ && xs[i] == k,
          forall|i: int, j: int| 0 <= i < j < it.index@ ==> xs[i] != xs[j],
    {
        let unique = s.insert(*x);
        if !unique { return false; }
    }
    true
}
}
fn main() {}
