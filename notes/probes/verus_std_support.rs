use vstd::prelude::*;
verus! {
fn a(x: u32) -> (r: bool) ensures r == (x % 2016 == 0) { x.is_multiple_of(2016) }
fn b(x: u32) -> (r: u32) ensures r == x { if x == 7 { panic!("boom {}", x); } x }
fn c(x: Option<u32>) -> u32 { match x { Some(v) => v, None => unreachable!("no {:?}", x) } }
fn d(x: u32, y: u32) -> u32 { x.saturating_sub(y) }
fn e(x: u64) -> (r: Option<u64>) { x.checked_add(3) }
fn f(v: &mut Vec<u8>, w: &mut Vec<u8>) { v.append(w); }
fn g(v: &mut Vec<u8>) -> u8 requires old(v).len() > 3 { v.remove(0) }
fn h(v: &mut Vec<u8>) -> u8 requires old(v).len() > 3 { v.swap_remove(0) }
}
fn main() {}
