
use vstd::prelude::*;
verus! {
pub mod bitcoin {
  use vstd::prelude::*;
  #[derive(Clone, Copy, PartialEq, Eq)]
  pub enum Network { Bitcoin, Testnet, Testnet4, Signet, Regtest }
  #[derive(Clone, Copy, PartialEq, Eq)]
  pub struct BlockHash(pub u64);
  #[derive(Clone, Copy, PartialEq, Eq)]
  pub struct CompactTarget(pub u32);
  #[derive(Clone, Copy, PartialEq, Eq, PartialOrd, Ord)]
  pub struct Target(pub u64);
  pub mod block {
    use vstd::prelude::*;
    use super::*;
    #[derive(Clone, Copy, PartialEq, Eq)]
    pub struct Header { pub version: i32, pub prev_blockhash: BlockHash, pub time: u32, pub bits: CompactTarget, pub nonce: u32 }
    pub enum ValidationError { BadProofOfWork, BadTarget, Other }
    impl Header {
      #[verifier::external_body]
      pub fn target(&self) -> Target { unimplemented!() }
      #[verifier::external_body]
      pub fn block_hash(&self) -> BlockHash { unimplemented!() }
      #[verifier::external_body]
      pub fn validate_pow(&self, t: Target) -> Result<BlockHash, ValidationError> { unimplemented!() }
    }
  }
  impl Target {
    #[verifier::external_body]
    pub fn from_compact(c: CompactTarget) -> Target { unimplemented!() }
  }
  impl CompactTarget {
    #[verifier::external_body]
    pub fn from_next_work_required(last: CompactTarget, timespan: u64, network: Network) -> CompactTarget { unimplemented!() }
  }
}
use bitcoin::{block::Header, BlockHash, CompactTarget, Network, Target};
pub assume_specification<T: std::cmp::Ord> [<[T]>::sort_unstable] (v: &mut [T]);
pub type BlockHeight = u32;
pub const DIFFICULTY_ADJUSTMENT_INTERVAL: BlockHeight = 6 * 24 * 14;
pub const TEN_MINUTES: u32 = 60 * 10;
#[verifier::external_body]
pub fn max_target(network: &Network) -> Target { unimplemented!() }
#[verifier::external_body]
pub fn no_pow_retargeting(network: &Network) -> bool { unimplemented!() }
#[verifier::external_body]
pub fn pow_limit_bits(network: &Network) -> CompactTarget { unimplemented!() }

#[derive(Clone, Copy)]
pub struct Duration { pub secs: u64 }
impl Duration {
  pub fn from_secs(s: u64) -> Duration { Duration{secs: s} }
  pub fn as_secs(&self) -> u64 { self.secs }
}
const ONE_HOUR: Duration = Duration{secs: 3_600};

pub enum ValidateHeaderError {
    HeaderIsOld,
    HeaderIsTooFarInFuture { block_time: u64, max_allowed_time: u64 },
    InvalidPoWForHeaderTarget,
    InvalidPoWForComputedTarget,
    TargetDifficultyAboveMax,
    PrevHeaderNotFound,
}
pub trait HeaderStore {
    fn get_with_block_hash(&self, hash: &BlockHash) -> Option<Header>;
    fn get_with_height(&self, height: u32) -> Option<Header>;
    fn height(&self) -> u32;
    fn get_initial_hash(&self) -> BlockHash;
}
pub struct HeaderValidator<T> { store: T, network: Network }
impl<T: HeaderStore> HeaderValidator<T> {
    pub fn validate_header(
        &self,
        header: &Header,
        current_time: Duration,
    ) -> Result<(), ValidateHeaderError> {

        let prev_height = self.store.height();
        let prev_header = match self.store.get_with_block_hash(&header.prev_blockhash) {
            Some(result) => result,
            None => {
                return Err(ValidateHeaderError::PrevHeaderNotFound);
            }
        };

        self.is_timestamp_valid(header, current_time)?;

        let header_target = header.target();
        if header_target > max_target(&self.network) {
            return Err(ValidateHeaderError::TargetDifficultyAboveMax);
        }

        if header.validate_pow(header_target).is_err() {
            return Err(ValidateHeaderError::InvalidPoWForHeaderTarget);
        }

        let target = self.get_next_target(&prev_header, prev_height, header.time);
        if let Err(err) = header.validate_pow(target) {
            match err {
                bitcoin::block::ValidationError::BadProofOfWork => (),
                bitcoin::block::ValidationError::BadTarget => (),
                _ => {}
            };
            return Err(ValidateHeaderError::InvalidPoWForComputedTarget);
        }
        Ok(())
    }

    /// Validates if a header's timestamp is valid.
    /// Bitcoin Protocol Rules wiki https://en.bitcoin.it/wiki/Protocol_rules says,
    /// "Reject if timestamp is the median time of the last 11 blocks or before"
    /// "Block timestamp must not be more than two hours in the future"
    fn is_timestamp_valid(
        &self,
        header: &Header,
        current_time: Duration,
    ) -> Result<(), ValidateHeaderError> {
        timestamp_is_at_most_2h_in_future(Duration::from_secs(header.time as u64), current_time)?;
        let mut times = vec![];
        let mut current_header: Header = *header;
        let initial_hash = self.store.get_initial_hash();
        for _ in 0..11 {
            if let Some(prev_header) = self
                .store
                .get_with_block_hash(&current_header.prev_blockhash)
            {
                times.push(prev_header.time);
                if current_header.prev_blockhash == initial_hash {
                    break;
                }
                current_header = prev_header;
            }
        }

        times.sort_unstable();
        let median = times[times.len() / 2];
        if header.time <= median {
            return Err(ValidateHeaderError::HeaderIsOld);
        }

        Ok(())
    }

    fn get_next_target(
        &self,
        prev_header: &Header,
        prev_height: BlockHeight,
        timestamp: u32,
    ) -> Target {
        match self.network {
            Network::Testnet | Network::Testnet4 | Network::Regtest => {
                if !(prev_height + 1).is_multiple_of(DIFFICULTY_ADJUSTMENT_INTERVAL) {
                    // This if statements is reached only for Regtest and Testnet networks
                    // Here is the quote from "https://en.bitcoin.it/wiki/Testnet"
                    // "If no block has been found in 20 minutes, the difficulty automatically
                    // resets back to the minimum for a single block, after which it
                    // returns to its previous value."
                    if timestamp > prev_header.time + TEN_MINUTES * 2 {
                        // If no block has been found in 20 minutes, then use the maximum difficulty
                        // target
                        max_target(&self.network)
                    } else {
                        // If the block has been found within 20 minutes, then use the previous
                        // difficulty target that is not equal to the maximum difficulty target
                        Target::from_compact(
                            self.find_next_difficulty_in_chain(prev_header, prev_height),
                        )
                    }
                } else {
                    Target::from_compact(self.compute_next_difficulty(prev_header, prev_height))
                }
            }
            Network::Bitcoin | Network::Signet => {
                Target::from_compact(self.compute_next_difficulty(prev_header, prev_height))
            }
        }
    }

    /// This method is only valid when used for testnet and regtest networks.
    /// As per "https://en.bitcoin.it/wiki/Testnet",
    /// "If no block has been found in 20 minutes, the difficulty automatically
    /// resets back to the minimum for a single block, after which it
    /// returns to its previous value." This function is used to compute the
    /// difficulty target in case the block has been found within 20
    /// minutes.
    #[verifier::exec_allows_no_decreases_clause]
    fn find_next_difficulty_in_chain(
        &self,
        prev_header: &Header,
        prev_height: BlockHeight,
    ) -> CompactTarget {
        // This is the maximum difficulty target for the network
        let pow_limit_bits = pow_limit_bits(&self.network);
        match self.network {
            Network::Testnet | Network::Testnet4 | Network::Regtest => {
                let mut current_header = *prev_header;
                let mut current_height = prev_height;
                let mut current_hash = current_header.block_hash();
                let initial_header_hash = self.store.get_initial_hash();

                // Keep traversing the blockchain backwards from the recent block to initial
                // header hash.
                loop {
                    // Check if non-limit PoW found or it's time to adjust difficulty.
                    if current_header.bits != pow_limit_bits
                        || current_height.is_multiple_of(DIFFICULTY_ADJUSTMENT_INTERVAL)
                    {
                        return current_header.bits;
                    }

                    // Stop if we reach the initial header.
                    if current_hash == initial_header_hash {
                        break;
                    }

                    // Traverse to the previous header.
                    let prev_blockhash = current_header.prev_blockhash;
                    current_header = self
                        .store
                        .get_with_block_hash(&prev_blockhash)
                        .expect("previous header should be in the header store");
                    // Update the current height and hash.
                    current_height -= 1;
                    current_hash = prev_blockhash;
                }
                pow_limit_bits
            }
            Network::Bitcoin | Network::Signet => pow_limit_bits,
        }
    }

    /// This function returns the difficulty target to be used for the current
    /// header given the previous header
    fn compute_next_difficulty(
        &self,
        prev_header: &Header,
        prev_height: BlockHeight,
    ) -> CompactTarget {
        // Difficulty is adjusted only once in every interval of 2 weeks (2016 blocks)
        // If an interval boundary is not reached, then previous difficulty target is
        // returned Regtest network doesn't adjust PoW difficulty levels. For
        // regtest, simply return the previous difficulty target.

        let height = prev_height + 1;
        if !height.is_multiple_of(DIFFICULTY_ADJUSTMENT_INTERVAL)
            || no_pow_retargeting(&self.network)
        {
            return prev_header.bits;
        }
        // Computing the `last_adjustment_header`.
        // `last_adjustment_header` is the last header with height multiple of 2016
        let last_adjustment_height = height.saturating_sub(DIFFICULTY_ADJUSTMENT_INTERVAL);
        let last_adjustment_header = self
            .store
            .get_with_height(last_adjustment_height)
            .expect("Last adjustment header must exist");

        // Block Storm Fix
        // The mitigation consists of no longer applying the adjustment factor
        // to the last block of the previous difficulty period. Instead,
        // the first block of the difficulty period is used as the base.
        // See https://github.com/bitcoin/bips/blob/master/bip-0094.mediawiki#block-storm-fix
        let last = match self.network {
            Network::Testnet4 => last_adjustment_header.bits,
            _ => prev_header.bits,
        };

        // Computing the time interval between the last adjustment header time and
        // current time. The expected value timespan is 2 weeks assuming
        // the expected block time is 10 mins. But most of the time, the
        // timespan will deviate slightly from 2 weeks. Our goal is to
        // readjust the difficulty target so that the expected time taken for the next
        // 2016 blocks is again 2 weeks.
        // IMPORTANT: The bitcoin protocol allows for a roughly 3-hour window around
        // timestamp (1 hour in the past, 2 hours in the future) meaning that
        // the timespan can be negative on testnet networks.
        let last_adjustment_time = last_adjustment_header.time;
        let timespan = prev_header.time.saturating_sub(last_adjustment_time) as u64;

        CompactTarget::from_next_work_required(last, timespan, self.network)
    }
}

#[verifier::external_body]
fn timestamp_is_at_most_2h_in_future(block_time: Duration, current_time: Duration) -> Result<(), ValidateHeaderError> { unimplemented!() }
}
fn main(){}
