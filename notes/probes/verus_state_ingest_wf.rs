
use vstd::prelude::*;
verus! {
pub type Height = u32;
pub fn vp_assert(b: bool) requires b {}

#[derive(PartialEq, Eq, Clone, Copy, Debug)]
pub struct BlockHash(pub u64);
pub struct Block { pub hash: BlockHash }
impl Block { 
  pub fn block_hash(&self) -> (r: &BlockHash) ensures *r == self.hash { &self.hash }
}
pub struct CachedBlock { pub hash: BlockHash }
impl CachedBlock {
  #[verifier::external_body]
  pub fn block(&self) -> (r: Block) ensures r.hash == self.hash { unimplemented!() }
  pub fn block_hash(&self) -> (r: &BlockHash) ensures *r == self.hash { &self.hash }
}
pub enum Slicing<T, U> { Paused(T), Done(U) }
pub struct BlockIngestionStats { pub x: u64 }
pub struct IngestingBlock { pub block: Block }
pub struct UtxoSet { pub next_height: Height, pub ingesting_block: Option<IngestingBlock> }
impl UtxoSet {
  pub fn next_height(&self) -> (r: Height) ensures r == self.next_height { self.next_height }
  #[verifier::external_body]
  pub fn ingest_block_continue(&mut self) -> (r: Option<Slicing<(), (BlockHash, BlockIngestionStats)>>) 
     ensures
       old(self).ingesting_block.is_none() ==> r.is_none() && *final(self) == *old(self),
       old(self).ingesting_block.is_some() ==> r.is_some(),
       r matches Some(Slicing::Paused(_)) ==> final(self).next_height == old(self).next_height && final(self).ingesting_block.is_some(),
       r matches Some(Slicing::Done(d)) ==> final(self).next_height == old(self).next_height + 1 && final(self).ingesting_block.is_none()
           && d.0 == old(self).ingesting_block.unwrap().block.hash,
  { unimplemented!() }
  #[verifier::external_body]
  pub fn ingest_block(&mut self, block: Block) -> (r: Slicing<(), (BlockHash, BlockIngestionStats)>)
     requires old(self).ingesting_block.is_none(), old(self).next_height < u32::MAX
     ensures
       r matches Slicing::Paused(_) ==> final(self).next_height == old(self).next_height && final(self).ingesting_block.is_some(),
       r matches Slicing::Done(d) ==> final(self).next_height == old(self).next_height + 1 && final(self).ingesting_block.is_none() && d.0 == block.hash,
  { unimplemented!() }
}
pub struct BlockHeaderStore { pub heights: Ghost<Set<int>> }
impl BlockHeaderStore {
  #[verifier::external_body]
  pub fn insert_block(&mut self, block: &Block, height: Height) 
    ensures final(self).heights@ == old(self).heights@.insert(height as int)
  { unimplemented!() }
}
pub struct Metrics { pub block_ingestion_stats: BlockIngestionStats }
pub struct UnstableBlocks { pub root: CachedBlock, pub stable_child: Option<BlockHash> }
pub mod unstable_blocks {
  use vstd::prelude::*;
  use super::*;
  #[verifier::external_body]
  pub fn peek(blocks: &UnstableBlocks) -> (r: Option<&CachedBlock>) 
     ensures r.is_some() == blocks.stable_child.is_some(), r.is_some() ==> *r.unwrap() == blocks.root
  { unimplemented!() }
  #[verifier::external_body]
  pub fn pop(blocks: &mut UnstableBlocks, stable_height: Height) -> (r: Option<Block>) 
     ensures r.is_some() == old(blocks).stable_child.is_some(), r.is_some() ==> r.unwrap().hash == old(blocks).root.hash
  { unimplemented!() }
}
pub struct State { pub utxos: UtxoSet, pub unstable_blocks: UnstableBlocks, pub stable_block_headers: BlockHeaderStore, pub metrics: Metrics }
impl State {
  pub fn stable_height(&self) -> (r: Height) ensures r == self.utxos.next_height { self.utxos.next_height() }
  pub open spec fn wf(&self) -> bool {
     forall|h: int| #[trigger] self.stable_block_headers.heights@.contains(h) <==> 0 <= h < self.utxos.next_height
  }
}
#[verifier::exec_allows_no_decreases_clause]
pub fn ingest_stable_blocks_into_utxoset(state: &mut State) -> (r: Slicing<(), bool>)
    requires old(state).wf(), old(state).utxos.next_height < 1000,
    ensures final(state).wf(),
{
    fn pop_block(state: &mut State, ingested_block_hash: BlockHash) {
        let stable_height = state.stable_height();
        // Pop the stable block.
        let popped_block = unstable_blocks::pop(&mut state.unstable_blocks, stable_height);

        // Sanity check that we just popped the same block that was ingested.
        vp_assert(popped_block.unwrap().block_hash() == &ingested_block_hash);
    }

    // Tracks whether this call performed any stable-block ingestion work. Note that a
    // `Slicing::Paused` slice returns early rather than setting this flag: a paused slice
    // has already spent a full ingestion budget, so the heartbeat must not also
    // fetch/process this round.
    let mut did_work = false;

    // Finish ingesting the stable block that's partially ingested, if that exists.
    match state.utxos.ingest_block_continue() {
        None => {} // No block to continue ingesting.
        Some(Slicing::Paused(())) => return Slicing::Paused(()),
        Some(Slicing::Done((ingested_block_hash, stats))) => {
            state.metrics.block_ingestion_stats = stats;
            pop_block(state, ingested_block_hash);
            did_work = true;
        }
    }

    // Check if there are any stable blocks and ingest those into the UTXO set.
    while let Some(new_stable_block) = unstable_blocks::peek(&state.unstable_blocks) 
        invariant state.wf(), state.utxos.ingesting_block.is_none(), state.utxos.next_height < 2000,
    {
        let block = new_stable_block.block();
        // Store the block's header.
        state
            .stable_block_headers
            .insert_block(&block, state.utxos.next_height());

        match state.utxos.ingest_block(block) {
            Slicing::Paused(()) => return Slicing::Paused(()),
            Slicing::Done((ingested_block_hash, stats)) => {
                state.metrics.block_ingestion_stats = stats;
                pop_block(state, ingested_block_hash);
                did_work = true;
            }
        }
    }

    Slicing::Done(did_work)
}


}
fn main(){}
