#![feature(allocator_api)]
use vstd::prelude::*;
use std::collections::BTreeMap;
use vstd::std_specs::cmp::{PartialEqSpec, OrdSpec, PartialOrdSpec};
use core::cmp::Ordering;
verus! {
type Height = u32;
type MillisatoshiPerByte = u64;
// ---- stand-ins -------------------------------------------------------------------------------------------------
#[derive(PartialEq, Eq, PartialOrd, Ord, Clone, Copy, Structural, Debug)]
pub struct BlockHash(pub u64);
#[derive(PartialEq, Eq, PartialOrd, Ord, Clone, Copy, Structural, Debug)]
pub struct Txid(pub u64);
#[derive(PartialEq, Eq, PartialOrd, Ord, Structural, Debug)]
pub struct OutPoint { pub txid: Txid, pub vout: u32 }
impl Clone for OutPoint { fn clone(&self) -> (r: Self) ensures r == *self { OutPoint { txid: self.txid, vout: self.vout } } }
pub struct TxOut { pub value: u64, pub script_pubkey: Vec<u8> }
impl Clone for TxOut { #[verifier::external_body] fn clone(&self) -> (r: Self) ensures r == *self { unimplemented!() } }
#[derive(PartialEq, Eq, PartialOrd, Ord, Clone, Copy, Structural, Debug)]
pub struct Address { pub id: u64 }
#[derive(PartialEq, Eq, Clone, Copy, Structural)]
pub enum Network { Mainnet, Testnet, Regtest }
pub struct Script { pub id: u64 }
pub struct AddrError { pub c: u8 }
pub uninterp spec fn address_of_script(bytes: Seq<u8>, n: Network) -> Option<Address>;
impl Script { pub uninterp spec fn bytes(&self) -> Seq<u8>; }
mod bitcoin { pub(crate) struct ScriptNs; }
impl Address {
    #[verifier::external_body]
    fn from_script(s: &Script, n: Network) -> (r: Result<Address, AddrError>)
        ensures r is Ok <==> address_of_script(s.bytes(), n) is Some, r matches Ok(a) ==> Some(a) == address_of_script(s.bytes(), n)
    { unimplemented!() }
}
#[verifier::external_body]
fn vp_script_from_bytes(b: &Vec<u8>) -> (r: &Script) ensures r.bytes() == b@ { unimplemented!() }
#[derive(PartialEq, Eq, Clone, Copy, Structural)]
pub struct BitcoinOutPoint { pub txid: u64, pub vout: u32 }
impl BitcoinOutPoint {
    pub open spec fn is_null_spec(&self) -> bool { self.txid == 0 && self.vout == u32::MAX }
    #[verifier::external_body]
    fn is_null(&self) -> (r: bool) ensures r == self.is_null_spec() { unimplemented!() }
}
pub open spec fn op_of(b: BitcoinOutPoint) -> OutPoint { OutPoint { txid: Txid(b.txid), vout: b.vout } }
impl From<&BitcoinOutPoint> for OutPoint {
    #[verifier::external_body]
    fn from(b: &BitcoinOutPoint) -> (r: OutPoint) ensures r == op_of(*b) { unimplemented!() }
}
impl vstd::std_specs::convert::FromSpecImpl<&BitcoinOutPoint> for OutPoint {
    open spec fn obeys_from_spec() -> bool { true }
    open spec fn from_spec(b: &BitcoinOutPoint) -> OutPoint { op_of(*b) }
}
pub struct TxIn { pub previous_output: BitcoinOutPoint }
pub struct Amount { pub sat: u64 }
impl Amount { fn to_sat(&self) -> (r: u64) ensures r == self.sat { self.sat } }
pub struct BitcoinTxOut { pub value: Amount, pub script_pubkey: Script }
pub uninterp spec fn txout_of(o: BitcoinTxOut) -> TxOut;
impl From<&BitcoinTxOut> for TxOut {
    #[verifier::external_body]
    fn from(b: &BitcoinTxOut) -> (r: TxOut) ensures r == txout_of(*b), r.value == b.value.sat { unimplemented!() }
}
impl vstd::std_specs::convert::FromSpecImpl<&BitcoinTxOut> for TxOut {
    open spec fn obeys_from_spec() -> bool { true }
    open spec fn from_spec(b: &BitcoinTxOut) -> TxOut { txout_of(*b) }
}
pub struct Transaction { pub ins: Vec<TxIn>, pub outs: Vec<BitcoinTxOut>, pub id: Txid, pub cb: bool, pub vs: usize }
impl Transaction {
    fn input(&self) -> (r: &[TxIn]) ensures r@ == self.ins@ { self.ins.as_slice() }
    fn output(&self) -> (r: &[BitcoinTxOut]) ensures r@ == self.outs@ { self.outs.as_slice() }
    fn is_coinbase(&self) -> (r: bool) ensures r == self.cb { self.cb }
    fn txid(&self) -> (r: Txid) ensures r == self.id { self.id }
    fn vsize(&self) -> (r: usize) ensures r == self.vs { self.vs }
}
pub struct Block { pub txs: Vec<Transaction>, pub hash: BlockHash }
impl Block {
    fn txdata(&self) -> (r: &[Transaction]) ensures r@ == self.txs@ { self.txs.as_slice() }
    fn block_hash(&self) -> (r: &BlockHash) ensures *r == self.hash { &self.hash }
}
pub struct UtxoSet { pub network: Network, pub id: u64 }
pub uninterp spec fn stable_utxo_spec(u: &UtxoSet, o: OutPoint) -> Option<(TxOut, Height)>;
impl UtxoSet {
    #[verifier::external_body]
    fn get_utxo(&self, outpoint: &OutPoint) -> (r: Option<(TxOut, Height)>) ensures r == stable_utxo_spec(self, *outpoint) { unimplemented!() }
    fn network(&self) -> (r: Network) ensures r == self.network { self.network }
}
pub struct BlockMetrics { pub fee_rates: Vec<MillisatoshiPerByte>, pub utxo_delta: i64 }
pub uninterp spec fn fee_rate_spec(fee: u64, vsize: usize) -> Option<u64>;
#[verifier::external_body]
fn fee_rate_per_vbyte(fee_satoshi: u64, vsize: usize) -> (r: Option<MillisatoshiPerByte>) ensures r == fee_rate_spec(fee_satoshi, vsize) { unimplemented!() }

#[verifier::external_body]
proof fn axiom_opc_keys() ensures opc_keys_ok() {}
pub open spec fn opc_keys_ok() -> bool {
    &&& vstd::laws_cmp::obeys_cmp::<BlockHash>() &&& vstd::laws_cmp::obeys_cmp::<OutPoint>() &&& vstd::laws_cmp::obeys_cmp::<Address>()
}
// [trusted:assumed-spec] Entry::or_insert: R21 `m.entry(k).or_insert(d)` => `vp_entry_or_insert(&mut m, k, d)`
#[verifier::external_body]
fn vp_entry_or_insert<'a, K: Ord, V>(m: &'a mut BTreeMap<K, V>, k: K, d: V) -> (r: &'a mut V)
    ensures
        *r == (if old(m)@.contains_key(k) { old(m)@[k] } else { d }),
        final(m)@ == old(m)@.insert(k, *final(r)),
{ m.entry(k).or_insert(d) }
// [trusted:assumed-spec] BTreeMap::pop_first: removes and returns the entry with the least key (R25: `for (k, v) in m` by value => `while let Some((k, v)) = m.pop_first()`)
pub assume_specification<K: Ord, V, A: std::alloc::Allocator + Clone>[std::collections::BTreeMap::<K, V, A>::pop_first](m: &mut BTreeMap<K, V, A>) -> (r: Option<(K, V)>)
    ensures
        vstd::laws_cmp::obeys_cmp::<K>() ==> {
            &&& r is None <==> old(m)@.dom() =~= Set::<K>::empty()
            &&& r is None ==> final(m)@ == old(m)@
            &&& r matches Some(p) ==> old(m)@.contains_key(p.0) && old(m)@[p.0] == p.1 && final(m)@ == old(m)@.remove(p.0)
        };
// ---- specs (C20) ---------------------------------------------------------------------------------------------------
// how often the first n inputs reference outpoint o (null inputs — the coinbase marker — reference nothing)
pub open spec fn refs_ins(ins: Seq<TxIn>, n: int, o: OutPoint) -> int
    decreases n
{
    if n <= 0 { 0 } else { refs_ins(ins, n - 1, o) + (if !ins[n - 1].previous_output.is_null_spec() && op_of(ins[n - 1].previous_output) == o { 1int } else { 0int }) }
}
// whether o is one of the first n outputs of tx
pub open spec fn refs_outs(tx: Transaction, n: int, o: OutPoint) -> int {
    if o.txid == tx.id && (o.vout as int) < n { 1 } else { 0 }
}
pub open spec fn refs_tx(tx: Transaction, o: OutPoint) -> int { refs_ins(tx.ins@, tx.ins@.len() as int, o) + refs_outs(tx, tx.outs@.len() as int, o) }
// how often the first n transactions of a block reference o (as a spent input or as a created output)
pub open spec fn refs_txs(txs: Seq<Transaction>, n: int, o: OutPoint) -> int
    decreases n
{
    if n <= 0 { 0 } else { refs_txs(txs, n - 1, o) + refs_tx(txs[n - 1], o) }
}
pub open spec fn refs_block(b: Block, o: OutPoint) -> int { refs_txs(b.txs@, b.txs@.len() as int, o) }
pub open spec fn cnt(m: Map<OutPoint, TxOutInfo>, o: OutPoint) -> int { if m.contains_key(o) { m[o].count as int } else { 0 } }
pub proof fn lemma_refs_ins_nonneg(ins: Seq<TxIn>, n: int, o: OutPoint)
    ensures refs_ins(ins, n, o) >= 0, n >= 1 ==> refs_ins(ins, n, o) >= refs_ins(ins, n - 1, o),
    decreases n
{ if n > 0 { lemma_refs_ins_nonneg(ins, n - 1, o); } }
pub proof fn lemma_refs_ins_mono(ins: Seq<TxIn>, a: int, b: int, o: OutPoint)
    requires a <= b,
    ensures refs_ins(ins, a, o) <= refs_ins(ins, b, o),
    decreases b - a
{ if a < b { lemma_refs_ins_mono(ins, a, b - 1, o); lemma_refs_ins_nonneg(ins, b, o); } }
pub proof fn lemma_refs_txs_mono(txs: Seq<Transaction>, a: int, b: int, o: OutPoint)
    requires a <= b,
    ensures 0 <= refs_txs(txs, a, o) <= refs_txs(txs, b, o),
    decreases b
{
    if b <= 0 { } else if a < b {
        lemma_refs_txs_mono(txs, a, b - 1, o);
        lemma_refs_ins_nonneg(txs[b - 1].ins@, txs[b - 1].ins@.len() as int, o);
    } else { if a > 0 { lemma_refs_txs_mono(txs, a - 1, a - 1, o); lemma_refs_ins_nonneg(txs[a - 1].ins@, txs[a - 1].ins@.len() as int, o); } }
}


// the count collected so far for o never exceeds what the whole block references
pub proof fn lemma_bound(block: &Block, t: int, n: int, o: OutPoint)
    requires 0 <= t < block.txs@.len(), 0 <= n <= block.txs@[t].ins@.len(),
    ensures refs_txs(block.txs@, t, o) + refs_ins(block.txs@[t].ins@, n, o) <= refs_block(*block, o),
{
    lemma_refs_ins_mono(block.txs@[t].ins@, n, block.txs@[t].ins@.len() as int, o);
    lemma_refs_txs_mono(block.txs@, t + 1, block.txs@.len() as int, o);
}
pub proof fn lemma_bound_out(block: &Block, t: int, n: int, o: OutPoint)
    requires 0 <= t < block.txs@.len(), 0 <= n <= block.txs@[t].outs@.len(),
    ensures refs_txs(block.txs@, t, o) + refs_ins(block.txs@[t].ins@, block.txs@[t].ins@.len() as int, o) + refs_outs(block.txs@[t], n, o) <= refs_block(*block, o),
{
    lemma_refs_txs_mono(block.txs@, t + 1, block.txs@.len() as int, o);
}
#[verifier::external_body]
fn vp_output_sum(outs: &[BitcoinTxOut]) -> (r: u64) { unimplemented!() }
pub struct TxOutNotFound(pub OutPoint);
pub struct TxOutInfo { pub txout: TxOut, pub height: Height, pub count: u32 }
pub struct OutPointsCache {
    pub tx_outs: BTreeMap<OutPoint, TxOutInfo>,
    pub added_outpoints: BTreeMap<BlockHash, BTreeMap<Address, Vec<OutPoint>>>,
    pub removed_outpoints: BTreeMap<BlockHash, BTreeMap<Address, Vec<OutPoint>>>,
}
impl OutPointsCache {
    // no entry without a reference
    pub open spec fn wf(&self) -> bool { forall|o: OutPoint| #[trigger] self.tx_outs@.contains_key(o) ==> self.tx_outs@[o].count >= 1 }
    fn get_tx_out(&self, outpoint: &OutPoint) -> (r: Option<(&TxOut, Height)>)
        ensures r is Some <==> self.tx_outs@.contains_key(*outpoint), r matches Some(p) ==> *p.0 == self.tx_outs@[*outpoint].txout && p.1 == self.tx_outs@[*outpoint].height,
    {
        proof { axiom_opc_keys(); }
        match self.tx_outs
            .get(outpoint) { Some(info) => Some((&info.txout, info.height)), None => None }
    }
}

pub fn insert_outpoints(
    cache: &mut OutPointsCache,
    utxos: &UtxoSet,
    block: &Block,
    height: Height,
) -> (r: Result<BlockMetrics, TxOutNotFound>)
    requires
        old(cache).wf(),
        // [assumption, stated] ranges
        forall|o: OutPoint| cnt(old(cache).tx_outs@, o) + #[trigger] refs_block(*block, o) <= u32::MAX,
        block.txs@.len() < 0x1000_0000,
        forall|t: int| 0 <= t < block.txs@.len() ==> (#[trigger] block.txs@[t]).ins@.len() < 0x1000_0000 && block.txs@[t].outs@.len() < 0x1000_0000,
    ensures
        r is Err ==> *final(cache) == *old(cache),
        r is Ok ==> {
            &&& final(cache).wf()
            &&& forall|o: OutPoint| cnt(final(cache).tx_outs@, o) == cnt(old(cache).tx_outs@, o) + #[trigger] refs_block(*block, o)
            &&& final(cache).added_outpoints@.dom() =~= old(cache).added_outpoints@.dom().insert(block.hash)
            &&& final(cache).removed_outpoints@.dom() =~= old(cache).removed_outpoints@.dom().insert(block.hash)
        },
{
    proof { axiom_opc_keys(); }
    let mut tx_outs: BTreeMap<OutPoint, TxOutInfo> = BTreeMap::new();
    let mut removed_outpoints: BTreeMap<Address, Vec<OutPoint>> = BTreeMap::new();
    let mut added_outpoints: BTreeMap<Address, Vec<OutPoint>> = BTreeMap::new();
    let mut utxo_delta: i64 = 0;
    let mut fee_rates = Vec::with_capacity(block.txdata().len().saturating_sub(1));

    for tx in it: block.txdata().iter()
        invariant
            opc_keys_ok(), *cache == *old(cache),
            forall|o: OutPoint| cnt(tx_outs@, o) == #[trigger] refs_txs(block.txs@, it.index@ as int, o),
            forall|o: OutPoint| #[trigger] tx_outs@.contains_key(o) ==> tx_outs@[o].count >= 1,
            forall|o: OutPoint| cnt(old(cache).tx_outs@, o) + #[trigger] refs_block(*block, o) <= u32::MAX,
            -0x1000_0000 * it.index@ <= utxo_delta <= 0x1000_0000 * it.index@,
            block.txs@.len() < 0x1000_0000,
            forall|t: int| 0 <= t < block.txs@.len() ==> (#[trigger] block.txs@[t]).ins@.len() < 0x1000_0000 && block.txs@[t].outs@.len() < 0x1000_0000,
    {
        proof { assert(*tx == block.txs@[it.index@ as int]); lemma_refs_txs_mono(block.txs@, it.index@ as int + 1, block.txs@.len() as int, OutPoint { txid: Txid(0), vout: 0 }); }
        utxo_delta += tx.output().len() as i64;
        if !tx.is_coinbase() {
            utxo_delta -= tx.input().len() as i64;
        }

        let mut input_sum: u64 = 0;

        for input in it2: tx.input().iter()
            invariant
                opc_keys_ok(), *cache == *old(cache), 0 <= it.index@ < block.txs@.len(), *tx == block.txs@[it.index@ as int],
                forall|o: OutPoint| cnt(tx_outs@, o) == #[trigger] refs_txs(block.txs@, it.index@ as int, o) + refs_ins(tx.ins@, it2.index@ as int, o),
                forall|o: OutPoint| #[trigger] tx_outs@.contains_key(o) ==> tx_outs@[o].count >= 1,
                forall|o: OutPoint| cnt(old(cache).tx_outs@, o) + #[trigger] refs_block(*block, o) <= u32::MAX,
        {
            if !(input.previous_output.is_null()) {

            let outpoint: OutPoint = (&input.previous_output).into();

            // Lookup the `TxOut` in the current cache.
            let (txout, height) = match cache.get_tx_out(&outpoint) {
                Some((txout, height)) => (txout.clone(), height),

                // Lookup the `TxOut` in the current block.
                None => match tx_outs.get(&outpoint) {
                    Some(e) => (e.txout.clone(), e.height),

                    // Lookup the `TxOut` in the UTXO set.
                    None => match utxos
                        .get_utxo(&outpoint) { Some(vp_t) => vp_t, None => return Err(TxOutNotFound(outpoint.clone())) },
                },
            };

            assume(input_sum + txout.value <= u64::MAX);
            input_sum += txout.value;

            if let Ok(address) = Address::from_script(
                vp_script_from_bytes(&txout.script_pubkey),
                utxos.network(),
            ) {
                let entry = vp_entry_or_insert(&mut removed_outpoints, address, vec![]);
                entry.push(outpoint.clone());
            }

            proof { lemma_bound(block, it.index@ as int, it2.index@ as int + 1, outpoint); }
            let entry = vp_entry_or_insert(&mut tx_outs, outpoint, TxOutInfo {
                txout,
                height,
                count: 0,
            });
            entry.count += 1;
            }
        }

        let mut vp_i: usize = 0;
        for txout in it3: tx.output().iter()
            invariant
                opc_keys_ok(), *cache == *old(cache), 0 <= it.index@ < block.txs@.len(), *tx == block.txs@[it.index@ as int],
                vp_i == it3.index@, tx.outs@.len() < 0x1000_0000,
                forall|o: OutPoint| cnt(tx_outs@, o) == #[trigger] refs_txs(block.txs@, it.index@ as int, o) + refs_ins(tx.ins@, tx.ins@.len() as int, o) + refs_outs(*tx, it3.index@ as int, o),
                forall|o: OutPoint| #[trigger] tx_outs@.contains_key(o) ==> tx_outs@[o].count >= 1,
                forall|o: OutPoint| cnt(old(cache).tx_outs@, o) + #[trigger] refs_block(*block, o) <= u32::MAX,
        {
            let i = vp_i;
            vp_i = vp_i + 1;
            let outpoint = OutPoint {
                txid: tx.txid(),
                vout: i as u32,
            };

            if let Ok(address) = Address::from_script(&txout.script_pubkey, utxos.network()) {
                let entry = vp_entry_or_insert(&mut added_outpoints, address, vec![]);
                entry.push(outpoint.clone());
            }

            proof { lemma_bound_out(block, it.index@ as int, i as int + 1, outpoint); }
            let entry = vp_entry_or_insert(&mut tx_outs, outpoint.clone(), TxOutInfo {
                txout: txout.into(),
                height,
                count: 0,
            });
            entry.count += 1;
        }

        // Compute fee rate for non-coinbase transactions.
        if !tx.is_coinbase() {
            let output_sum: u64 = vp_output_sum(tx.output());
            if let Some(fee_satoshi) = input_sum.checked_sub(output_sum) {
                if let Some(rate) = fee_rate_per_vbyte(fee_satoshi, tx.vsize()) {
                    fee_rates.push(rate);
                }
            }
        }
        proof {
            assert forall|o: OutPoint| cnt(tx_outs@, o) == #[trigger] refs_txs(block.txs@, it.index@ as int + 1, o) by {
                assert(cnt(tx_outs@, o) == refs_txs(block.txs@, it.index@ as int, o) + refs_ins(tx.ins@, tx.ins@.len() as int, o) + refs_outs(*tx, tx.outs@.len() as int, o));
            }
        }
    }

    // Merge all the transaction outputs of this block into the cache.
    let ghost local0 = tx_outs@;
    assert(forall|o: OutPoint| cnt(local0, o) == #[trigger] refs_block(*block, o));
    assert forall|o: OutPoint| cnt(old(cache).tx_outs@, o) + #[trigger] cnt(local0, o) <= u32::MAX by { assert(cnt(local0, o) == refs_block(*block, o)); }
    loop
        invariant
            opc_keys_ok(),
            cache.added_outpoints == old(cache).added_outpoints, cache.removed_outpoints == old(cache).removed_outpoints,
            forall|o: OutPoint| cnt(cache.tx_outs@, o) + cnt(tx_outs@, o) == cnt(old(cache).tx_outs@, o) + #[trigger] cnt(local0, o),
            forall|o: OutPoint| #[trigger] tx_outs@.contains_key(o) ==> tx_outs@[o].count >= 1,
            forall|o: OutPoint| #[trigger] cache.tx_outs@.contains_key(o) ==> cache.tx_outs@[o].count >= 1,
            forall|o: OutPoint| cnt(old(cache).tx_outs@, o) + #[trigger] cnt(local0, o) <= u32::MAX,
        ensures tx_outs@.dom() =~= Set::<OutPoint>::empty(),
        decreases tx_outs@.dom().len()
    {
        let (outpoint, tx_out_info) = match tx_outs.pop_first() { Some(vp_kv) => vp_kv, None => { break; } };
        assert(cnt(old(cache).tx_outs@, outpoint) + cnt(local0, outpoint) <= u32::MAX);
        match cache.tx_outs.get_mut(&outpoint) { Some(t) => { t.count += tx_out_info.count; } None => { cache.tx_outs.insert(outpoint, tx_out_info); } }
    }

    assert(forall|o: OutPoint| cnt(tx_outs@, o) == 0);
    assert(forall|o: OutPoint| cnt(cache.tx_outs@, o) == cnt(old(cache).tx_outs@, o) + #[trigger] cnt(local0, o));
    cache
        .added_outpoints
        .insert(*block.block_hash(), added_outpoints);
    cache
        .removed_outpoints
        .insert(*block.block_hash(), removed_outpoints);

    Ok(BlockMetrics {
        fee_rates,
        utxo_delta,
    })
}

impl OutPointsCache {
    pub fn remove(&mut self, block: &Block)
        requires
            old(self).wf(),
            // the block's references are counted in the cache (it was inserted and not removed since)
            forall|o: OutPoint| cnt(old(self).tx_outs@, o) >= #[trigger] refs_block(*block, o),
            block.txs@.len() < 0x1000_0000,
            forall|t: int| 0 <= t < block.txs@.len() ==> (#[trigger] block.txs@[t]).ins@.len() < 0x1000_0000 && block.txs@[t].outs@.len() < 0x1000_0000,
        ensures
            final(self).wf(),
            forall|o: OutPoint| cnt(final(self).tx_outs@, o) == cnt(old(self).tx_outs@, o) - #[trigger] refs_block(*block, o),
            final(self).added_outpoints@ == old(self).added_outpoints@.remove(block.hash),
            final(self).removed_outpoints@ == old(self).removed_outpoints@.remove(block.hash),
    {
        fn decrement_count_and_maybe_remove(cache: &mut OutPointsCache, outpoint: &OutPoint)
            requires old(cache).wf(), old(cache).tx_outs@.contains_key(*outpoint),
            ensures final(cache).wf(),
                forall|o: OutPoint| #[trigger] cnt(final(cache).tx_outs@, o) == cnt(old(cache).tx_outs@, o) - (if o == *outpoint { 1int } else { 0int }),
                final(cache).added_outpoints == old(cache).added_outpoints, final(cache).removed_outpoints == old(cache).removed_outpoints,
        {
            proof { axiom_opc_keys(); }
            let entry = cache.tx_outs.get_mut(outpoint).unwrap();

            // Decrement the value's count.
            entry.count -= 1;

            // Remove the outpoint if there are no more blocks in the cache referencing it.
            if entry.count == 0 {
                cache.tx_outs.remove(outpoint);
            }
        }

        proof { axiom_opc_keys(); }
        for tx in it: block.txdata().iter()
            invariant
                opc_keys_ok(), self.wf(),
                self.added_outpoints == old(self).added_outpoints, self.removed_outpoints == old(self).removed_outpoints,
                forall|o: OutPoint| cnt(self.tx_outs@, o) == cnt(old(self).tx_outs@, o) - #[trigger] refs_txs(block.txs@, it.index@ as int, o),
                forall|o: OutPoint| cnt(old(self).tx_outs@, o) >= #[trigger] refs_block(*block, o),
                forall|t: int| 0 <= t < block.txs@.len() ==> (#[trigger] block.txs@[t]).ins@.len() < 0x1000_0000 && block.txs@[t].outs@.len() < 0x1000_0000,
        {
            proof { assert(*tx == block.txs@[it.index@ as int]); }
            for input in it2: tx.input().iter()
                invariant
                    opc_keys_ok(), self.wf(), 0 <= it.index@ < block.txs@.len(), *tx == block.txs@[it.index@ as int],
                    self.added_outpoints == old(self).added_outpoints, self.removed_outpoints == old(self).removed_outpoints,
                    forall|o: OutPoint| cnt(self.tx_outs@, o) == cnt(old(self).tx_outs@, o) - (#[trigger] refs_txs(block.txs@, it.index@ as int, o) + refs_ins(tx.ins@, it2.index@ as int, o)),
                    forall|o: OutPoint| cnt(old(self).tx_outs@, o) >= #[trigger] refs_block(*block, o),
            {
                if !(input.previous_output.is_null()) {

                let outpoint: OutPoint = (&input.previous_output).into();
                proof { lemma_bound(block, it.index@ as int, it2.index@ as int + 1, outpoint); assert(cnt(old(self).tx_outs@, outpoint) >= refs_block(*block, outpoint)); }
                decrement_count_and_maybe_remove(self, &outpoint);
                }
            }

            let mut vp_i: usize = 0;
            for vp_e in it3: tx.output().iter()
                invariant
                    opc_keys_ok(), self.wf(), 0 <= it.index@ < block.txs@.len(), *tx == block.txs@[it.index@ as int],
                    vp_i == it3.index@, tx.outs@.len() < 0x1000_0000,
                    self.added_outpoints == old(self).added_outpoints, self.removed_outpoints == old(self).removed_outpoints,
                    forall|o: OutPoint| cnt(self.tx_outs@, o) == cnt(old(self).tx_outs@, o) - (#[trigger] refs_txs(block.txs@, it.index@ as int, o) + refs_ins(tx.ins@, tx.ins@.len() as int, o) + refs_outs(*tx, it3.index@ as int, o)),
                    forall|o: OutPoint| cnt(old(self).tx_outs@, o) >= #[trigger] refs_block(*block, o),
            {
                let i = vp_i;
                vp_i = vp_i + 1;
                proof { let vp_o = OutPoint { txid: tx.id, vout: i as u32 }; lemma_bound_out(block, it.index@ as int, i as int + 1, vp_o); assert(cnt(old(self).tx_outs@, vp_o) >= refs_block(*block, vp_o)); }
                decrement_count_and_maybe_remove(
                    self,
                    &OutPoint {
                        txid: tx.txid(),
                        vout: i as u32,
                    },
                );
            }
            proof {
                assert forall|o: OutPoint| cnt(self.tx_outs@, o) == cnt(old(self).tx_outs@, o) - #[trigger] refs_txs(block.txs@, it.index@ as int + 1, o) by {
                    assert(cnt(self.tx_outs@, o) == cnt(old(self).tx_outs@, o) - (refs_txs(block.txs@, it.index@ as int, o) + refs_ins(tx.ins@, tx.ins@.len() as int, o) + refs_outs(*tx, tx.outs@.len() as int, o)));
                }
            }
        }

        let block_hash = block.block_hash();
        self.added_outpoints.remove(block_hash);
        self.removed_outpoints.remove(block_hash);
    }
}

// ---- C20 as lemmas over the two contracts: for ANY history of insertions and removals, the reference count of every outpoint
// ---- equals the number of references from the blocks currently held; nothing leaks, nothing dangles -----------------------
pub open spec fn total_refs(blocks: Seq<Block>, n: int, o: OutPoint) -> int
    decreases n
{
    if n <= 0 { 0 } else { total_refs(blocks, n - 1, o) + refs_block(blocks[n - 1], o) }
}
// the cache is EXACT for the list of blocks it holds
pub open spec fn exact(m: Map<OutPoint, TxOutInfo>, blocks: Seq<Block>) -> bool {
    forall|o: OutPoint| #[trigger] cnt(m, o) == total_refs(blocks, blocks.len() as int, o)
}
pub proof fn lemma_refs_block_nonneg(b: Block, o: OutPoint)
    ensures refs_block(b, o) >= 0,
{ lemma_refs_txs_mono(b.txs@, 0, b.txs@.len() as int, o); }
pub proof fn lemma_total_refs_nonneg(blocks: Seq<Block>, n: int, o: OutPoint)
    ensures total_refs(blocks, n, o) >= 0,
    decreases n
{ if n > 0 { lemma_total_refs_nonneg(blocks, n - 1, o); lemma_refs_block_nonneg(blocks[n - 1], o); } }
// total over a list with element i removed
pub proof fn lemma_total_refs_remove(blocks: Seq<Block>, i: int, n: int, o: OutPoint)
    requires 0 <= i < blocks.len(), i < n <= blocks.len(),
    ensures total_refs(blocks.remove(i), n - 1, o) == total_refs(blocks, n, o) - refs_block(blocks[i], o),
    decreases n
{
    let r = blocks.remove(i);
    if n - 1 > i {
        lemma_total_refs_remove(blocks, i, n - 1, o);
        assert(r[n - 2] == blocks[n - 1]);
    } else {
        // n - 1 == i: the first i entries are the same
        lemma_total_refs_prefix(blocks, r, i, o);
    }
}
pub proof fn lemma_total_refs_prefix(a: Seq<Block>, b: Seq<Block>, n: int, o: OutPoint)
    requires 0 <= n <= a.len(), n <= b.len(), forall|k: int| 0 <= k < n ==> a[k] == b[k],
    ensures total_refs(a, n, o) == total_refs(b, n, o),
    decreases n
{ if n > 0 { lemma_total_refs_prefix(a, b, n - 1, o); } }
// (1) insert_outpoints keeps the cache exact for the list extended by the new block
pub proof fn lemma_insert_keeps_exact(m0: Map<OutPoint, TxOutInfo>, m1: Map<OutPoint, TxOutInfo>, blocks: Seq<Block>, b: Block)
    requires exact(m0, blocks), forall|o: OutPoint| cnt(m1, o) == cnt(m0, o) + #[trigger] refs_block(b, o),
    ensures exact(m1, blocks.push(b)),
{
    let nb = blocks.push(b);
    assert forall|o: OutPoint| #[trigger] cnt(m1, o) == total_refs(nb, nb.len() as int, o) by {
        lemma_total_refs_prefix(blocks, nb, blocks.len() as int, o);
        assert(cnt(m1, o) == cnt(m0, o) + refs_block(b, o));
        assert(cnt(m0, o) == total_refs(blocks, blocks.len() as int, o));
    }
}
// (2) a block that is held satisfies the precondition of remove ...
pub proof fn lemma_held_block_can_be_removed(m0: Map<OutPoint, TxOutInfo>, blocks: Seq<Block>, i: int)
    requires exact(m0, blocks), 0 <= i < blocks.len(),
    ensures forall|o: OutPoint| cnt(m0, o) >= #[trigger] refs_block(blocks[i], o),
{
    assert forall|o: OutPoint| cnt(m0, o) >= #[trigger] refs_block(blocks[i], o) by {
        lemma_total_refs_remove(blocks, i, blocks.len() as int, o);
        lemma_total_refs_nonneg(blocks.remove(i), blocks.len() as int - 1, o);
        assert(cnt(m0, o) == total_refs(blocks, blocks.len() as int, o));
    }
}
// ... and remove keeps the cache exact for the list without it
pub proof fn lemma_remove_keeps_exact(m0: Map<OutPoint, TxOutInfo>, m1: Map<OutPoint, TxOutInfo>, blocks: Seq<Block>, i: int)
    requires exact(m0, blocks), 0 <= i < blocks.len(), forall|o: OutPoint| cnt(m1, o) == cnt(m0, o) - #[trigger] refs_block(blocks[i], o),
    ensures exact(m1, blocks.remove(i)),
{
    let nb = blocks.remove(i);
    assert forall|o: OutPoint| #[trigger] cnt(m1, o) == total_refs(nb, nb.len() as int, o) by {
        lemma_total_refs_remove(blocks, i, blocks.len() as int, o);
        assert(cnt(m1, o) == cnt(m0, o) - refs_block(blocks[i], o));
        assert(cnt(m0, o) == total_refs(blocks, blocks.len() as int, o));
    }
}
// (3) nothing leaks: an exact cache without zero-count entries holds an entry for o iff some held block references o
pub proof fn lemma_no_leak_no_dangle(c: &OutPointsCache, blocks: Seq<Block>, o: OutPoint)
    requires c.wf(), exact(c.tx_outs@, blocks),
    ensures c.tx_outs@.contains_key(o) <==> total_refs(blocks, blocks.len() as int, o) >= 1,
{
    assert(cnt(c.tx_outs@, o) == total_refs(blocks, blocks.len() as int, o));
}
}
fn main(){}
