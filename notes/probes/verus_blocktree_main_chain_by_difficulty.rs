use vstd::prelude::*;
verus! {
mod ax {
use vstd::prelude::*;
use vstd::std_specs::cmp::{OrdSpec, PartialOrdSpec};
use core::cmp::Ordering;
use std::ops::{Add, Sub};

pub assume_specification<T: std::cmp::Ord>[std::cmp::max](a: T, b: T) -> (r: T)
    ensures
        T::obeys_cmp_spec() ==> (r == if a.cmp_spec(&b) == core::cmp::Ordering::Greater { a } else { b }),
;

#[derive(Debug, Clone, Copy, PartialEq, Eq, PartialOrd, Ord)]
pub struct DifficultyBasedDepth(pub u128);

impl DifficultyBasedDepth {
    pub const fn new(value: u128) -> (r: Self) 
       ensures r.0 == value
    {
        Self(value)
    }

    pub fn get(self) -> u128 {
        self.0
    }
}

impl Add for DifficultyBasedDepth {
    type Output = Self;
    fn add(self, other: Self) -> Self::Output {
        Self(self.0 + other.0)
    }
}
impl vstd::std_specs::ops::AddSpecImpl for DifficultyBasedDepth {
    open spec fn obeys_add_spec() -> bool { true }
    open spec fn add_req(self, other: Self) -> bool { self.0 + other.0 <= u128::MAX }
    open spec fn add_spec(self, other: Self) -> Self { DifficultyBasedDepth((self.0 + other.0) as u128) }
}

pub open spec fn ord_nat(a: int, b: int) -> Ordering {
    if a < b { Ordering::Less } else if a == b { Ordering::Equal } else { Ordering::Greater }
}

#[verifier::external_body]
pub broadcast proof fn axiom_pair_ord(a: (DifficultyBasedDepth, usize), b: (DifficultyBasedDepth, usize))
    ensures
        <(DifficultyBasedDepth, usize)>::obeys_partial_cmp_spec(),
        #[trigger] a.partial_cmp_spec(&b) == Some(
            if a.0.0 != b.0.0 { ord_nat(a.0.0 as int, b.0.0 as int) } else { ord_nat(a.1 as int, b.1 as int) }),
{}
}
mod code {
use vstd::prelude::*;
use vstd::std_specs::cmp::{OrdSpec, PartialOrdSpec};
use crate::ax::*;
broadcast use axiom_pair_ord;

pub trait ChainBlock {
    spec fn sdiff(&self) -> u128;
    fn difficulty(&self) -> (r: u128)
        ensures r == self.sdiff();
}

pub struct BlockTree<Block> {
    pub root: Block,
    pub children: Vec<BlockTree<Block>>,
}

// key of the best path: (difficulty, length)
pub open spec fn key_gt(a: (int, int), b: (int, int)) -> bool {
    a.0 > b.0 || (a.0 == b.0 && a.1 > b.1)
}

impl<Block: ChainBlock> BlockTree<Block> {
    // best (difficulty,len) over first n children; (0,0) if none
    pub open spec fn best_child_key(cs: Seq<BlockTree<Block>>, n: int) -> (int, int)
        decreases cs, n
    {
        if n <= 0 || n > cs.len() { (0, 0) } else {
            let prev = Self::best_child_key(cs, n - 1);
            let k = cs[n - 1].best_key();
            if key_gt(k, prev) { k } else { prev }
        }
    }
    pub open spec fn best_key(&self) -> (int, int)
        decreases self
    {
        let b = Self::best_child_key(self.children@, self.children@.len() as int);
        (self.root.sdiff() + b.0, 1 + b.1)
    }

    pub open spec fn wf(&self) -> bool 
        decreases self
    {
        self.best_key().0 <= u128::MAX && self.best_key().1 <= usize::MAX
        && forall|i: int| 0 <= i < self.children@.len() ==> (#[trigger] self.children@[i]).wf()
    }
    pub proof fn lemma_best_child_bounds(cs: Seq<BlockTree<Block>>, n: int)
        requires 0 <= n <= cs.len()
        ensures Self::best_child_key(cs, n).0 >= 0, Self::best_child_key(cs, n).1 >= 0,
           forall|i:int| 0 <= i < n ==> !key_gt((#[trigger] cs[i]).best_key(), Self::best_child_key(cs, n)),
        decreases n
    {
        admit();
    }



    pub open spec fn best_child_idx(cs: Seq<BlockTree<Block>>, n: int) -> int
        decreases cs, n
    {
        if n <= 0 || n > cs.len() { -1 } else {
            let prev = Self::best_child_key(cs, n - 1);
            let k = cs[n - 1].best_key();
            if key_gt(k, prev) { n - 1 } else { Self::best_child_idx(cs, n - 1) }
        }
    }
    // best path from root to leaf, root first
    pub open spec fn best_path(&self) -> Seq<Block>
        decreases self
    {
        let i = Self::best_child_idx(self.children@, self.children@.len() as int);
        if 0 <= i < self.children@.len() { seq![self.root] + self.children@[i].best_path() } else { seq![self.root] }
    }
    pub open spec fn rev_refs(s: Seq<&Block>) -> Seq<Block> {
        Seq::new(s.len(), |i: int| *s[s.len() - 1 - i])
    }

    /// Bottom-up DFS returning (accumulated_difficulty, main_chain_length, main_chain_reversed).
    fn main_chain_by_difficulty_inner(&self) -> (r: (DifficultyBasedDepth, usize, Vec<&Block>))
        requires self.wf(),
        ensures r.0.0 == self.best_key().0, r.1 == self.best_key().1,
            Self::rev_refs(r.2@) =~= self.best_path(),
        decreases self
    {
        let self_difficulty = DifficultyBasedDepth::new(self.root.difficulty());

        if self.children.is_empty() {
            return (self_difficulty, 1, vec![&self.root]);
        }

        let mut best_key = (DifficultyBasedDepth::new(0), 0usize);
        let mut best_chain: Vec<&Block> = vec![];

        for child in it: self.children.iter()
            invariant
               best_key.0.0 == Self::best_child_key(self.children@, it.index@).0,
               best_key.1 == Self::best_child_key(self.children@, it.index@).1,
               self.wf(),
               ({ let i = Self::best_child_idx(self.children@, it.index@);
                  if 0 <= i < self.children@.len() { Self::rev_refs(best_chain@) =~= self.children@[i].best_path() } else { best_chain@.len() == 0 } }),
        {
            let (child_diff, child_length, child_chain) = child.main_chain_by_difficulty_inner();
            let key = (child_diff, child_length);

            if key > best_key {
                best_key = key;
                best_chain = child_chain;
            }
        }

        proof { Self::lemma_best_child_bounds(self.children@, self.children@.len() as int); }
        let total_difficulty = self_difficulty + best_key.0;
        let total_length = 1 + best_key.1;
        best_chain.push(&self.root);
        (total_difficulty, total_length, best_chain)
    }

    /// Bottom-up DFS returning (accumulated_difficulty, main_chain_length).
    fn main_chain_length_by_difficulty_inner(&self) -> (r: (DifficultyBasedDepth, usize))
        requires self.wf(),
        ensures r.0.0 == self.best_key().0, r.1 == self.best_key().1,
        decreases self
    {
        let self_difficulty = DifficultyBasedDepth::new(self.root.difficulty());

        if self.children.is_empty() {
            return (self_difficulty, 1);
        }

        let mut best_key = (DifficultyBasedDepth::new(0), 0usize);

        // Same tiebreaker logic as `main_chain_by_difficulty_inner`: strict `>`
        // keeps the first child on ties.
        for child in it: self.children.iter()
            invariant
               best_key.0.0 == Self::best_child_key(self.children@, it.index@).0,
               best_key.1 == Self::best_child_key(self.children@, it.index@).1,
               self.wf(),
        {
            let key = child.main_chain_length_by_difficulty_inner();

            if key > best_key {
                best_key = key;
            }
        }

        proof { Self::lemma_best_child_bounds(self.children@, self.children@.len() as int); }
        let total_difficulty = self_difficulty + best_key.0;
        let total_length = 1 + best_key.1;
        (total_difficulty, total_length)
    }
}
}
}
fn main() {}
