use vstd::prelude::*;
verus! {
mod ax {
use vstd::prelude::*;
use vstd::std_specs::cmp::{OrdSpec, PartialOrdSpec};
use core::cmp::Ordering;

pub assume_specification<T: std::cmp::Ord>[std::cmp::max](a: T, b: T) -> (r: T)
    ensures
        T::obeys_cmp_spec() ==> (r == if a.cmp_spec(&b) == core::cmp::Ordering::Greater { a } else { b }),
;

#[derive(Debug, Clone, Copy, PartialEq, Eq, PartialOrd, Ord)]
pub struct Depth(pub u64);

pub open spec fn ord_u64(a: u64, b: u64) -> Ordering {
    if a < b { Ordering::Less } else if a == b { Ordering::Equal } else { Ordering::Greater }
}

#[verifier::external_body]
pub broadcast proof fn axiom_depth_ord(a: Depth, b: Depth)
    ensures
        Depth::obeys_cmp_spec(),
        Depth::obeys_partial_cmp_spec(),
        #[trigger] a.partial_cmp_spec(&b) == Some(ord_u64(a.0, b.0)),
{}
#[verifier::external_body]
pub broadcast proof fn axiom_depth_ord2(a: Depth, b: Depth)
    ensures
        Depth::obeys_cmp_spec(),
        #[trigger] a.cmp_spec(&b) == ord_u64(a.0, b.0),
{}

#[verifier::external_body]
pub broadcast proof fn axiom_pair_ord(a: (Depth, usize), b: (Depth, usize))
    ensures
        <(Depth, usize)>::obeys_partial_cmp_spec(),
        #[trigger] a.partial_cmp_spec(&b) == Some(
            if a.0.0 != b.0.0 { ord_u64(a.0.0, b.0.0) } else { ord_u64(a.1 as u64, b.1 as u64) }),
{}
}
mod code {
use vstd::prelude::*;
use vstd::std_specs::cmp::{OrdSpec, PartialOrdSpec};
use crate::ax::*;
broadcast use axiom_depth_ord, axiom_depth_ord2, axiom_pair_ord;

fn t(a: Depth, b: Depth) -> (r: Depth)
  ensures r.0 >= a.0, r.0 >= b.0
{
   std::cmp::max(a, b)
}
fn t2(a: Depth, b: Depth) -> (r: bool)
  ensures r == (a.0 > b.0)
{
   a > b
}
fn t3(a: (Depth, usize), b: (Depth,usize)) -> (r: bool)
  ensures r == (a.0.0 > b.0.0 || (a.0.0 == b.0.0 && a.1 > b.1))
{
   a > b
}
}
}
fn main() {}
