use vstd::prelude::*;
verus! {
#[derive(PartialEq, Eq, Clone, Copy, Structural)]
pub struct BlockHash(pub u64);
pub struct CachedBlock { block_hash: BlockHash }
pub struct BlockTree { root: CachedBlock, children: Vec<BlockTree> }
pub struct BodiesCache { hashes: Ghost<Set<BlockHash>>, p: u8 }
impl BodiesCache {
    #[verifier::external_body]
    fn remove(&mut self, h: &BlockHash) -> (r: bool) ensures r == old(self).hashes@.contains(*h), final(self).hashes@ == old(self).hashes@.remove(*h) { unimplemented!() }
}
fn vp_assert(b: bool) requires b {}
impl BlockTree {
    spec fn contains(&self, h: BlockHash) -> bool decreases self {
        self.root.block_hash == h || exists|i: int| 0 <= i < self.children@.len() && (#[trigger] self.children@[i]).contains(h)
    }
    // every hash occurs once in the tree
    spec fn distinct(&self) -> bool decreases self {
        &&& forall|i: int| 0 <= i < self.children@.len() ==> !(#[trigger] self.children@[i]).contains(self.root.block_hash)
        &&& forall|i: int| 0 <= i < self.children@.len() ==> (#[trigger] self.children@[i]).distinct()
        &&& forall|i: int, j: int, h: BlockHash| 0 <= i < self.children@.len() && 0 <= j < self.children@.len() && i != j && #[trigger] self.children@[i].contains(h) ==> !#[trigger] self.children@[j].contains(h)
    }
    // h is in the subtree of one of the first n children
    spec fn in_children(cs: Seq<BlockTree>, n: int, h: BlockHash) -> bool decreases n {
        n > 0 && n <= cs.len() && (cs[n - 1].contains(h) || Self::in_children(cs, n - 1, h))
    }
    proof fn lemma_in_children(cs: Seq<BlockTree>, n: int, h: BlockHash)
        requires 0 <= n <= cs.len(),
        ensures Self::in_children(cs, n, h) <==> exists|i: int| 0 <= i < n && (#[trigger] cs[i]).contains(h),
        decreases n
    {
        if n > 0 {
            Self::lemma_in_children(cs, n - 1, h);
            if exists|i: int| 0 <= i < n && (#[trigger] cs[i]).contains(h) {
                let i = choose|i: int| 0 <= i < n && (#[trigger] cs[i]).contains(h);
                if i < n - 1 { assert(cs[i].contains(h)); }
            }
        }
    }
    // what holds before child k is released
    proof fn lemma_release_child(self, b0: Set<BlockHash>, bk: Set<BlockHash>, k: int)
        requires
            self.distinct(), forall|h: BlockHash| #[trigger] self.contains(h) ==> b0.contains(h),
            0 <= k < self.children@.len(),
            forall|h: BlockHash| #[trigger] bk.contains(h) <==> (b0.contains(h) && h != self.root.block_hash && !Self::in_children(self.children@, k, h)),
        ensures
            self.children@[k].distinct(),
            forall|h: BlockHash| #[trigger] self.children@[k].contains(h) ==> bk.contains(h),
    {
        assert forall|h: BlockHash| #[trigger] self.children@[k].contains(h) implies bk.contains(h) by {
            assert(self.contains(h));
            Self::lemma_in_children(self.children@, k, h);
            if Self::in_children(self.children@, k, h) {
                let i = choose|i: int| 0 <= i < k && (#[trigger] self.children@[i]).contains(h);
                assert(self.children@[i].contains(h) && self.children@[k].contains(h));
            }
        }
    }
    fn remove_from_cache(self, vp_bodies: &mut BodiesCache) 
        requires self.distinct(), forall|h: BlockHash| #[trigger] self.contains(h) ==> old(vp_bodies).hashes@.contains(h),
        ensures forall|h: BlockHash| #[trigger] final(vp_bodies).hashes@.contains(h) <==> (old(vp_bodies).hashes@.contains(h) && !self.contains(h)),
        decreases self
    {
        proof { assert(self.contains(self.root.block_hash)); }
        vp_assert(vp_bodies.remove(&self.root.block_hash));
        for child in it: self.children.into_iter() 
            invariant
                self.distinct(), forall|h: BlockHash| #[trigger] self.contains(h) ==> old(vp_bodies).hashes@.contains(h),
                forall|h: BlockHash| #[trigger] vp_bodies.hashes@.contains(h) <==> (old(vp_bodies).hashes@.contains(h) && h != self.root.block_hash
                    && !Self::in_children(self.children@, it.index@ as int, h)),
        {
            proof { assert(child == self.children@[it.index@ as int]); self.lemma_release_child(old(vp_bodies).hashes@, vp_bodies.hashes@, it.index@ as int); }
            child.remove_from_cache(vp_bodies)
        }
        proof {
            assert forall|h: BlockHash| #[trigger] vp_bodies.hashes@.contains(h) <==> (old(vp_bodies).hashes@.contains(h) && !self.contains(h)) by {
                Self::lemma_in_children(self.children@, self.children@.len() as int, h);
            }
        }
    }
    fn remove_child(&mut self, index: usize) -> (r: Self)
        requires index < old(self).children@.len(),
        ensures
            r == old(self).children@[index as int],
            final(self).root == old(self).root,
            final(self).children@ =~= old(self).children@.update(index as int, old(self).children@.last()).drop_last(),
    {
        self.children.swap_remove(index)
    }
    fn into_root_and_remove_from_cache(self, vp_bodies: &mut BodiesCache) -> (r: BlockHash)
        requires self.distinct(), forall|h: BlockHash| #[trigger] self.contains(h) ==> old(vp_bodies).hashes@.contains(h),
        ensures forall|h: BlockHash| #[trigger] final(vp_bodies).hashes@.contains(h) <==> (old(vp_bodies).hashes@.contains(h) && !self.contains(h)),
    {
        let block = self.root.block_hash;
        self.remove_from_cache(vp_bodies);
        block
    }
    // the tree that is left when child idx has been taken out (swap_remove): still duplicate free, and it holds exactly the root and
    // the subtrees of the OTHER children
    proof fn lemma_rest_after_remove_child(t0: &BlockTree, t1: &BlockTree, idx: int)
        requires
            t0.distinct(), 0 <= idx < t0.children@.len(), t1.root == t0.root,
            t1.children@ =~= t0.children@.update(idx, t0.children@.last()).drop_last(),
        ensures
            t1.distinct(),
            forall|h: BlockHash| #[trigger] t1.contains(h) <==> (t0.contains(h) && !t0.children@[idx].contains(h)),
    {
        let n = t0.children@.len() as int;
        // child i of t1 is child src(i) of t0
        assert forall|i: int| 0 <= i < t1.children@.len() implies #[trigger] t1.children@[i] == t0.children@[if i == idx { n - 1 } else { i }] by {}
        assert forall|i: int, j: int, h: BlockHash| 0 <= i < t1.children@.len() && 0 <= j < t1.children@.len() && i != j && #[trigger] t1.children@[i].contains(h) implies !#[trigger] t1.children@[j].contains(h) by {
            let si = if i == idx { n - 1 } else { i }; let sj = if j == idx { n - 1 } else { j };
            assert(t0.children@[si].contains(h));
            assert(si != sj);
            if t0.children@[sj].contains(h) { assert(false); }
        }
        assert forall|i: int| 0 <= i < t1.children@.len() implies !(#[trigger] t1.children@[i]).contains(t1.root.block_hash) by {
            let si = if i == idx { n - 1 } else { i };
            assert(!t0.children@[si].contains(t0.root.block_hash));
        }
        assert forall|i: int| 0 <= i < t1.children@.len() implies (#[trigger] t1.children@[i]).distinct() by {
            let si = if i == idx { n - 1 } else { i };
            assert(t0.children@[si].distinct());
        }
        assert forall|h: BlockHash| #[trigger] t1.contains(h) <==> (t0.contains(h) && !t0.children@[idx].contains(h)) by {
            if t1.contains(h) {
                if h == t1.root.block_hash { assert(!t0.children@[idx].contains(t0.root.block_hash)); } else {
                    let i = choose|i: int| 0 <= i < t1.children@.len() && (#[trigger] t1.children@[i]).contains(h);
                    let si = if i == idx { n - 1 } else { i };
                    assert(t0.children@[si].contains(h));
                    assert(si != idx);
                    if t0.children@[idx].contains(h) { assert(false); }
                }
            }
            if t0.contains(h) && !t0.children@[idx].contains(h) && h != t0.root.block_hash {
                let k = choose|k: int| 0 <= k < n && (#[trigger] t0.children@[k]).contains(h);
                assert(k != idx);
                let i = if k == n - 1 { idx } else { k };
                assert(t1.children@[i] == t0.children@[k]);
                assert(t1.children@[i].contains(h));
            }
        }
    }
}
pub struct UB { tree: BlockTree, vp_bodies: BodiesCache }
// C20: the stored block bodies are exactly the blocks of the tree, each once
spec fn bodies_exact(b: &UB) -> bool { b.tree.distinct() && forall|h: BlockHash| #[trigger] b.vp_bodies.hashes@.contains(h) <==> b.tree.contains(h) }
fn pop(blocks: &mut UB, idx: usize)
    requires bodies_exact(old(blocks)), idx < old(blocks).tree.children@.len(),
    ensures bodies_exact(final(blocks)), final(blocks).tree == old(blocks).tree.children@[idx as int],
{
    let mut tree = blocks.tree.remove_child(idx);
    std::mem::swap(&mut tree, &mut blocks.tree);
    proof {
        BlockTree::lemma_rest_after_remove_child(&old(blocks).tree, &tree, idx as int);
        assert forall|h: BlockHash| #[trigger] tree.contains(h) implies blocks.vp_bodies.hashes@.contains(h) by {}
    }
    let _b = tree.into_root_and_remove_from_cache(&mut blocks.vp_bodies);
    proof {
        assert forall|h: BlockHash| #[trigger] blocks.vp_bodies.hashes@.contains(h) <==> blocks.tree.contains(h) by {
            if blocks.tree.contains(h) { assert(old(blocks).tree.children@[idx as int].contains(h)); assert(old(blocks).tree.contains(h)); }
        }
    }
}

}
fn main(){}
