use vstd::prelude::*;
verus! {
#[derive(PartialEq, Eq, Clone, Copy, Structural)]
struct BlockHash(u64);
struct CachedBlock { hash: BlockHash }
impl CachedBlock { fn block_hash(&self) -> (r: &BlockHash) ensures *r == self.hash { &self.hash } }
struct UtxoSet { next_height: u32 }
impl UtxoSet { fn next_height(&self) -> (r: u32) ensures r == self.next_height { self.next_height } }
struct State { utxos: UtxoSet }
struct AddressUtxoSet { applied: Ghost<Seq<BlockHash>> }
impl AddressUtxoSet {
  #[verifier::external_body]
  fn apply_block(&mut self, h: &BlockHash) ensures final(self).applied@ == old(self).applied@.push(*h) { unimplemented!() }
}
uninterp spec fn count_spec(row: Seq<(&BlockHash, u32)>, b: BlockHash) -> int;
#[verifier::external_body]
fn get_stability_count(row: &[(&BlockHash, u32)], b: &BlockHash) -> (r: i32) ensures r == count_spec(row@, *b) { unimplemented!() }

spec fn ok(rows: Seq<Vec<(&BlockHash, u32)>>, chain: Seq<&CachedBlock>, i: int, c: u32) -> bool {
    count_spec(rows[i]@, chain[i].hash) >= c as i32
}
spec fn prefix_len(rows: Seq<Vec<(&BlockHash, u32)>>, chain: Seq<&CachedBlock>, c: u32, n: int) -> int
  decreases n
{
    if n <= 0 { 0 } else {
        let p = prefix_len(rows, chain, c, n - 1);
        if p == n - 1 && ok(rows, chain, n - 1, c) { n } else { p }
    }
}

// SLICE of get_utxos_from_chain (get_utxos.rs:218-236), R4 applied to the enumerate
fn walk_slice<'a>(state: &State, chain: &'a Vec<&'a CachedBlock>, blocks_with_depths_by_heights: &Vec<Vec<(&BlockHash, u32)>>,
    min_confirmations: u32, address_utxos: &mut AddressUtxoSet, first: &'a BlockHash) -> (r: (&'a BlockHash, u32))
    requires chain.len() >= 1, chain.len() <= blocks_with_depths_by_heights.len(), chain.len() < 1000000,
       state.utxos.next_height < 1000000000, old(address_utxos).applied@.len() == 0, *first == chain[0].hash,
    ensures ({ let k = prefix_len(blocks_with_depths_by_heights@, chain@, min_confirmations, chain.len() as int);
        &&& final(address_utxos).applied@.len() == k
        &&& (forall|i: int| 0 <= i < k ==> final(address_utxos).applied@[i] == chain[i].hash)
        &&& (k > 0 ==> *r.0 == chain[k - 1].hash && r.1 == state.utxos.next_height + k - 1)
        &&& (k == 0 ==> *r.0 == *first && r.1 == state.utxos.next_height) })
{
    let mut tip_block_hash = first;
    let mut tip_block_height = state.utxos.next_height();
    let mut __n: usize = 0;
    for block in it: chain.iter()
        invariant __n == it.index@, it.index@ <= chain.len(),
          address_utxos.applied@.len() == it.index@,
          prefix_len(blocks_with_depths_by_heights@, chain@, min_confirmations, it.index@) == it.index@,
          forall|i: int| 0 <= i < it.index@ ==> address_utxos.applied@[i] == chain[i].hash,
          it.index@ > 0 ==> *tip_block_hash == chain[it.index@ - 1].hash && tip_block_height == state.utxos.next_height + it.index@ - 1,
          it.index@ == 0 ==> *tip_block_hash == *first && tip_block_height == state.utxos.next_height,
          chain.len() <= blocks_with_depths_by_heights.len(), chain.len() < 1000000, state.utxos.next_height < 1000000000,
    {
        let i = __n; __n += 1;
        if get_stability_count(&blocks_with_depths_by_heights[i], block.block_hash())
            < min_confirmations as i32
        {
            // The block has a lower stability count than requested.
            // We can stop now since all remaining blocks will have a lower stability count.
            proof { lemma_stop(blocks_with_depths_by_heights@, chain@, min_confirmations, i as int, chain.len() as int); }
            break;
        }
        tip_block_hash = block.block_hash();
        tip_block_height = state.utxos.next_height() + (i as u32);
        address_utxos.apply_block(block.block_hash());
    }
    (tip_block_hash, tip_block_height)
}
proof fn lemma_stop(rows: Seq<Vec<(&BlockHash, u32)>>, chain: Seq<&CachedBlock>, c: u32, i: int, n: int)
   requires 0 <= i < n, prefix_len(rows, chain, c, i) == i, !ok(rows, chain, i, c)
   ensures prefix_len(rows, chain, c, n) == i
   decreases n
{
   if n > i + 1 { lemma_stop(rows, chain, c, i, n - 1); }
}
}
fn main() {}
