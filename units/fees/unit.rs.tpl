//@unit name=fees
// Unit fees (C16): default fee tables (interface/src/lib.rs) vs the client library's constants (ic-cdk-bitcoin-canister),
// charge_cycles / verify_has_enough_cycles (lib.rs), and the charging code of the five endpoints.
use vstd::prelude::*;
verus! {
use vstd::std_specs::cmp::{OrdSpec, PartialOrdSpec};

//@extract file=interface/src/lib.rs item="enum Network"
//@ rewrite R2 "#\[derive\(([^\]]*)\)\]" => "#[derive(Clone, Copy, PartialEq, Eq, Structural)]"
//@end
//@extract file=interface/src/lib.rs item="enum NetworkInRequest"
//@ rewrite R2 "#\[derive\(([^\]]*)\)\]" => "#[derive(Clone, Copy, PartialEq, Eq, Structural)]"
//@end
//@extract file=interface/src/lib.rs item="impl From<NetworkInRequest> for Network" props=C16,C19,C14
//@end
spec fn net_of(n: NetworkInRequest) -> Network {
    match n {
        NetworkInRequest::Mainnet | NetworkInRequest::mainnet => Network::Mainnet,
        NetworkInRequest::Testnet | NetworkInRequest::testnet => Network::Testnet,
        NetworkInRequest::Regtest | NetworkInRequest::regtest => Network::Regtest,
    }
}
impl vstd::std_specs::convert::FromSpecImpl<NetworkInRequest> for Network {
    closed spec fn obeys_from_spec() -> bool { true }
    closed spec fn from_spec(v: NetworkInRequest) -> Self { net_of(v) }
}

//@extract file=interface/src/lib.rs item="struct Fees"
//@ rewrite R2? "#\[derive\(([^\]]*)\)\]" => ""
//@end
impl Fees {
//@extract file=interface/src/lib.rs in="impl Fees" item="fn testnet" props=C16 also_spec=testnet_spec
//@ ret r
//@ spec
//@| ensures r == Self::testnet_spec(),
//@end
//@extract file=interface/src/lib.rs in="impl Fees" item="fn mainnet" props=C16 also_spec=mainnet_spec
//@ ret r
//@ spec
//@| ensures r == Self::mainnet_spec(),
//@end
    // [trusted:assumed-spec] #[derive(Default)] on Fees: every u128 field is 0 (what State::new uses on regtest)
    spec fn default_spec() -> Fees {
        Fees { get_utxos_base: 0, get_utxos_cycles_per_ten_instructions: 0, get_utxos_maximum: 0, get_balance: 0, get_balance_maximum: 0,
               get_current_fee_percentiles: 0, get_current_fee_percentiles_maximum: 0, send_transaction_base: 0, send_transaction_per_byte: 0,
               get_block_headers_base: 0, get_block_headers_cycles_per_ten_instructions: 0, get_block_headers_maximum: 0 }
    }
}
// the canister's default fee table per network (state.rs State::new: mainnet / testnet / Fees::default())
spec fn canister_default_fees(n: Network) -> Fees {
    match n { Network::Mainnet => Fees::mainnet_spec(), Network::Testnet => Fees::testnet_spec(), Network::Regtest => Fees::default_spec() }
}

// ---- client library (ic-cdk-bitcoin-canister/src/lib.rs) -----------------------------------------------------------
// [trusted:stand-in] request types: only the fields the cost functions read
struct GetUtxosRequest { network: NetworkInRequest }
struct GetBalanceRequest { network: NetworkInRequest }
struct GetCurrentFeePercentilesRequest { network: NetworkInRequest }
struct GetBlockHeadersRequest { network: NetworkInRequest }
struct SendTransactionRequest { transaction: Vec<u8>, network: NetworkInRequest }

//@extract file=ic-cdk-bitcoin-canister/src/lib.rs item="const GET_UTXO_MAINNET" props=C16
//@end
//@extract file=ic-cdk-bitcoin-canister/src/lib.rs item="const GET_UTXO_TESTNET" props=C16
//@end
//@extract file=ic-cdk-bitcoin-canister/src/lib.rs item="const GET_BALANCE_MAINNET" props=C16
//@end
//@extract file=ic-cdk-bitcoin-canister/src/lib.rs item="const GET_BALANCE_TESTNET" props=C16
//@end
//@extract file=ic-cdk-bitcoin-canister/src/lib.rs item="const GET_CURRENT_FEE_PERCENTILES_MAINNET" props=C16
//@end
//@extract file=ic-cdk-bitcoin-canister/src/lib.rs item="const GET_CURRENT_FEE_PERCENTILES_TESTNET" props=C16
//@end
//@extract file=ic-cdk-bitcoin-canister/src/lib.rs item="const GET_BLOCK_HEADERS_MAINNET" props=C16
//@end
//@extract file=ic-cdk-bitcoin-canister/src/lib.rs item="const GET_BLOCK_HEADERS_TESTNET" props=C16
//@end
//@extract file=ic-cdk-bitcoin-canister/src/lib.rs item="const SEND_TRANSACTION_SUBMISSION_MAINNET" props=C16
//@end
//@extract file=ic-cdk-bitcoin-canister/src/lib.rs item="const SEND_TRANSACTION_SUBMISSION_TESTNET" props=C16
//@end
//@extract file=ic-cdk-bitcoin-canister/src/lib.rs item="const SEND_TRANSACTION_PAYLOAD_MAINNET" props=C16
//@end
//@extract file=ic-cdk-bitcoin-canister/src/lib.rs item="const SEND_TRANSACTION_PAYLOAD_TESTNET" props=C16
//@end

// C16: "the cycles that the client attaches cover the canister's default maximum for the same network and endpoint"
//@extract file=ic-cdk-bitcoin-canister/src/lib.rs item="fn cost_get_utxos" props=C16
//@ ret r
//@ spec
//@| ensures r >= canister_default_fees(net_of(arg.network)).get_utxos_maximum,
//@end
//@extract file=ic-cdk-bitcoin-canister/src/lib.rs item="fn cost_get_balance" props=C16
//@ ret r
//@ spec
//@| ensures r >= canister_default_fees(net_of(arg.network)).get_balance_maximum,
//@end
//@extract file=ic-cdk-bitcoin-canister/src/lib.rs item="fn cost_get_current_fee_percentiles" props=C16
//@ ret r
//@ spec
//@| ensures r >= canister_default_fees(net_of(arg.network)).get_current_fee_percentiles_maximum,
//@end
//@extract file=ic-cdk-bitcoin-canister/src/lib.rs item="fn cost_get_block_headers" props=C16
//@ ret r
//@ spec
//@| ensures r >= canister_default_fees(net_of(arg.network)).get_block_headers_maximum,
//@end
//@extract file=ic-cdk-bitcoin-canister/src/lib.rs item="fn cost_send_transaction" props=C16
//@ ret r
//@ spec
//@| ensures
//@|     // for EVERY payload length the attached cycles cover base + per_byte x length of the default table
//@|     r >= canister_default_fees(net_of(arg.network)).send_transaction_base
//@|          + canister_default_fees(net_of(arg.network)).send_transaction_per_byte * arg.transaction@.len(),
//@ before "submission + payload * arg.transaction.len() as u128"
//@| proof {
//@|     let l = arg.transaction.len() as int;
//@|     assert(l == arg.transaction@.len());
//@|     assert(l <= usize::MAX);
//@|     assert(usize::MAX <= 0xffff_ffff_ffff_ffff) by { vstd::layout::unsigned_int_max_values(); }
//@|     assert(payload * l <= 20_000_000 * l) by(nonlinear_arith) requires 0 <= payload <= 20_000_000, 0 <= l;
//@|     assert(20_000_000 * l <= 20_000_000 * 0xffff_ffff_ffff_ffff) by(nonlinear_arith) requires 0 <= l <= 0xffff_ffff_ffff_ffff;
//@| }
//@end

// ---------------------------------------------------------------------------------------------------------------------
// Canister side: what is accepted from a call
// ---------------------------------------------------------------------------------------------------------------------
// [trusted:stand-in] the IC's cycles interface for the current call, made an explicit value (rule R7 applied to the runtime):
// `available` = cycles attached and not yet accepted, `accepted` = cycles accepted so far
struct CyclesRt { available: u128, accepted: u128 }
impl CyclesRt {
    spec fn wf(&self) -> bool { self.available + self.accepted <= u128::MAX }
    // [trusted:assumed-contract] ic0.msg_cycles_available
    #[verifier::external_body]
    fn msg_cycles_available(&self) -> (r: u128) ensures r == self.available { unimplemented!() }
    // [trusted:assumed-contract] ic0.msg_cycles_accept(max): accepts min(max, available) and returns it
    #[verifier::external_body]
    fn msg_cycles_accept(&mut self, max_amount: u128) -> (r: u128)
        requires old(self).wf(),
        ensures
            r == (if max_amount <= old(self).available { max_amount } else { old(self).available }),
            final(self).available == old(self).available - r,
            final(self).accepted == old(self).accepted + r,
            final(self).wf(),
    { unimplemented!() }
}
// R6 (refusal mode): panic!(..) => vp_refuse(): the call traps, the IC rolls the message back and refunds every cycle
#[verifier::external_body]
fn vp_refuse() -> ! { panic!() }
#[verifier::external_body]
fn vp_trap() -> !
    requires false,
{ panic!() }
fn vp_assert(b: bool)
    requires b,
{}

//@extract file=canister/src/lib.rs item="fn verify_has_enough_cycles" props=C16 mode=refuse
//@ sigrewrite R7 "fn verify_has_enough_cycles\(amount: u128\)" => "fn verify_has_enough_cycles(vp_rt: &CyclesRt, amount: u128)"
//@ rewrite R7 "msg_cycles_available\(\)" => "vp_rt.msg_cycles_available()"
//@ spec
//@| ensures vp_rt.available >= amount,
//@end
//@extract file=canister/src/lib.rs item="fn charge_cycles" props=C16 mode=refuse
//@ sigrewrite R7 "fn charge_cycles\(amount: u128\)" => "fn charge_cycles(vp_rt: &mut CyclesRt, amount: u128)"
//@ rewrite R7 "verify_has_enough_cycles\(amount\)" => "verify_has_enough_cycles(vp_rt, amount)"
//@ rewrite R7 "msg_cycles_accept\(amount\)" => "vp_rt.msg_cycles_accept(amount)"
//@ spec
//@| requires old(vp_rt).wf(),
//@| ensures
//@|     // returns only if the whole amount was available, and then exactly `amount` has been accepted
//@|     old(vp_rt).available >= amount,
//@|     final(vp_rt).accepted == old(vp_rt).accepted + amount,
//@|     final(vp_rt).available == old(vp_rt).available - amount,
//@|     final(vp_rt).wf(),
//@end

// [trusted:assumed-spec] std::cmp::min on u128
pub assume_specification<T: std::cmp::Ord>[std::cmp::min](a: T, b: T) -> (r: T)
    ensures
        T::obeys_cmp_spec() ==> (r == if a.cmp_spec(&b) == core::cmp::Ordering::Greater { b } else { a }),
;
// [trusted:stand-in] the parts of the canister state the charging code reads; runtime::performance_counter
struct State { fees: Fees, opaque: u64 }
uninterp spec fn global_state() -> State;
#[verifier::external_body]
fn vp_state() -> (r: &'static State) ensures *r == global_state() { unimplemented!() }
uninterp spec fn perf_spec() -> u64;
#[verifier::external_body]
fn performance_counter() -> (r: u64) ensures r == perf_spec() { unimplemented!() }

// [assumption, stated] fee configurations with maximum >= base and a per-ten-instructions rate below 2^64
spec fn fees_sane(f: Fees) -> bool {
    &&& f.get_utxos_base <= f.get_utxos_maximum && f.get_utxos_cycles_per_ten_instructions < 0x1_0000_0000_0000_0000
    &&& f.get_block_headers_base <= f.get_block_headers_maximum && f.get_block_headers_cycles_per_ten_instructions < 0x1_0000_0000_0000_0000
}
// the published formula: base + min(instructions/10 x rate, maximum - base)
spec fn variable_fee(ins: u64, rate: u128, base: u128, maximum: u128) -> int {
    let v = (ins / 10) as int * rate as int;
    if v <= maximum - base { v } else { maximum - base }
}

// ---- get_balance: flat fee (also on a request-level error), refused before anything is charged -----------------------
struct GetBalanceRequestInternal { payload: u64 }
struct GetBalanceError { code: u8 }
type Satoshi = u64;
// [trusted:stand-in] get_balance_private: the endpoint body (touches no cycles; it takes no runtime handle)
#[verifier::external_body]
fn get_balance_private(request: GetBalanceRequestInternal) -> Result<Satoshi, GetBalanceError> { unimplemented!() }

//@extract file=canister/src/api/get_balance.rs item="fn get_balance" props=C16 mode=refuse
//@ ret r
//@ sigrewrite R7 "fn get_balance\(request: GetBalanceRequest\)" => "fn get_balance(vp_rt: &mut CyclesRt, request: GetBalanceRequestInternal)"
//@ r7 ro="vp_state()" type=State
//@ rewrite R7 "verify_has_enough_cycles\(" => "verify_has_enough_cycles(vp_rt, "
//@ rewrite R7 "charge_cycles\(" => "charge_cycles(vp_rt, "
//@ spec
//@| requires old(vp_rt).wf(),
//@| ensures
//@|     // a call carrying less than the maximum is refused before anything is charged (it never returns)
//@|     old(vp_rt).available >= global_state().fees.get_balance_maximum,
//@|     // the flat fee, whether the answer is a balance or a request-level error
//@|     final(vp_rt).accepted == old(vp_rt).accepted + global_state().fees.get_balance,
//@end
//@extract file=canister/src/api/get_balance.rs item="fn get_balance_query" props=C16
//@ ret r
//@ sigrewrite R7 "fn get_balance_query\(request: GetBalanceRequest\)" => "fn get_balance_query(vp_rt: &mut CyclesRt, request: GetBalanceRequestInternal)"
//@ spec
//@| ensures
//@|     // query variants accept nothing
//@|     *final(vp_rt) == *old(vp_rt),
//@end

// ---- get_utxos: base + min(instructions/10 x rate, maximum - base); only the base on a request-level error; nothing for queries
//@extract file=canister/src/api/get_utxos.rs item="const MAX_UTXOS_PER_RESPONSE" props=C16
//@end
//@extract file=canister/src/api/get_utxos.rs item="struct Stats" rename_struct=1
//@ rewrite R2? "#\[derive\(([^\]]*)\)\]" => ""
//@ rewrite R3 "struct Stats" => "struct UtxosStats"
//@end
// [trusted:stand-in] request / response types and the endpoint body get_utxos_internal (reads the state only)
struct ByteBuf { b: Vec<u8> }
impl ByteBuf {
    #[verifier::external_body]
    fn to_vec(&self) -> Vec<u8> { unimplemented!() }
}
enum UtxosFilter { MinConfirmations(u32), Page(ByteBuf) }
struct GetUtxosRequestInternal { address: u64, filter: Option<UtxosFilter> }
struct GetUtxosResponse { payload: u64 }
struct GetUtxosError { code: u8 }
#[verifier::external_body]
fn get_utxos_internal(state: &State, address: &u64, min_confirmations: u32, page: Option<Vec<u8>>, utxo_limit: usize)
    -> (r: Result<(GetUtxosResponse, UtxosStats), GetUtxosError>)
{ unimplemented!() }

//@extract file=canister/src/api/get_utxos.rs item="fn get_utxos_private" props=C16 mode=refuse
//@ ret r
//@ sigrewrite R7 "request: GetUtxosRequest," => "vp_rt: &mut CyclesRt, request: GetUtxosRequestInternal,"
//@ rewrite R7 "verify_has_enough_cycles\(" => "verify_has_enough_cycles(vp_rt, "
//@ rewrite R7 "charge_cycles\(" => "charge_cycles(vp_rt, "
//@ rewrite R1 "with_state_mut\(\|s\| \{\s*(s\.metrics\s*\.\w+\s*\.observe\([\w.]+\);\s*|s\s*\.metrics\s*\.\w+\s*\.observe\([\w.]+\);\s*)+\}\);" => "/* R1: metrics observation removed */"
//@ r7 ro="vp_state()" type=State
//@ spec
//@| requires
//@|     old(vp_rt).wf(),
//@|     fees_sane(global_state().fees),
//@| ensures
//@|     // query variants accept nothing
//@|     !charge_fees ==> *final(vp_rt) == *old(vp_rt),
//@|     // a call carrying less than the maximum is refused before anything is charged
//@|     charge_fees ==> old(vp_rt).available >= global_state().fees.get_utxos_maximum,
//@|     // request-level error: only the base fee
//@|     charge_fees && r.is_err() ==> final(vp_rt).accepted == old(vp_rt).accepted + global_state().fees.get_utxos_base,
//@|     // success: exactly base + min(instructions/10 x rate, maximum - base), for whatever the instruction counter says
//@|     charge_fees && r.is_ok() ==> exists|ins: u64| final(vp_rt).accepted == old(vp_rt).accepted + global_state().fees.get_utxos_base
//@|         + variable_fee(ins, global_state().fees.get_utxos_cycles_per_ten_instructions, global_state().fees.get_utxos_base, global_state().fees.get_utxos_maximum),
//@|     // never more than the maximum
//@|     final(vp_rt).accepted <= old(vp_rt).accepted + global_state().fees.get_utxos_maximum,
//@ after "let s: &State = vp_state(); {"
//@| proof {
//@|     let a = (stats.ins_total / 10) as int; let b = s.fees.get_utxos_cycles_per_ten_instructions as int;
//@|     assert(a * b <= 0x1fff_ffff_ffff_ffff * 0x1_0000_0000_0000_0000) by(nonlinear_arith) requires 0 <= a <= 0x1fff_ffff_ffff_ffff, 0 <= b <= 0x1_0000_0000_0000_0000;
//@|     assert(variable_fee(stats.ins_total, s.fees.get_utxos_cycles_per_ten_instructions, s.fees.get_utxos_base, s.fees.get_utxos_maximum) <= s.fees.get_utxos_maximum - s.fees.get_utxos_base);
//@| }
//@end

// ---- get_block_headers: base + min(instructions/10 x rate, maximum - base); only the base on a request-level error ----
//@extract file=canister/src/api/get_block_headers.rs item="struct Stats"
//@ rewrite R2? "#\[derive\(([^\]]*)\)\]" => ""
//@ rewrite R3 "struct Stats" => "struct HeadersStats"
//@end
struct GetBlockHeadersRequest2 { payload: u64 }
struct GetBlockHeadersResponse { payload: u64 }
struct GetBlockHeadersError { code: u8 }
// [trusted:stand-in] get_block_headers_internal: the endpoint body (reads the state only)
#[verifier::external_body]
fn get_block_headers_internal(request: &GetBlockHeadersRequest2) -> (r: Result<(GetBlockHeadersResponse, HeadersStats), GetBlockHeadersError>)
{ unimplemented!() }

//@extract file=canister/src/api/get_block_headers.rs item="fn get_block_headers" props=C16 mode=refuse
//@ ret r
//@ sigrewrite R7 "request: GetBlockHeadersRequest," => "vp_rt: &mut CyclesRt, request: GetBlockHeadersRequest2,"
//@ rewrite R7 "verify_has_enough_cycles\(" => "verify_has_enough_cycles(vp_rt, "
//@ rewrite R7 "charge_cycles\(" => "charge_cycles(vp_rt, "
//@ rewrite R1 "with_state_mut\(\|s\| \{\s*(s\s*\.metrics\s*\.\w+\s*\.observe\([\w.]+\);\s*)+\}\);" => "/* R1: metrics observation removed */"
//@ r7 ro="vp_state()" type=State
//@ spec
//@| requires
//@|     old(vp_rt).wf(),
//@|     fees_sane(global_state().fees),
//@| ensures
//@|     old(vp_rt).available >= global_state().fees.get_block_headers_maximum,
//@|     r.is_err() ==> final(vp_rt).accepted == old(vp_rt).accepted + global_state().fees.get_block_headers_base,
//@|     r.is_ok() ==> exists|ins: u64| final(vp_rt).accepted == old(vp_rt).accepted + global_state().fees.get_block_headers_base
//@|         + variable_fee(ins, global_state().fees.get_block_headers_cycles_per_ten_instructions, global_state().fees.get_block_headers_base, global_state().fees.get_block_headers_maximum),
//@|     final(vp_rt).accepted <= old(vp_rt).accepted + global_state().fees.get_block_headers_maximum,
//@ after "let s: &State = vp_state(); {"
//@| proof {
//@|     let a = (stats.ins_total / 10) as int; let b = s.fees.get_block_headers_cycles_per_ten_instructions as int;
//@|     assert(a * b <= 0x1fff_ffff_ffff_ffff * 0x1_0000_0000_0000_0000) by(nonlinear_arith) requires 0 <= a <= 0x1fff_ffff_ffff_ffff, 0 <= b <= 0x1_0000_0000_0000_0000;
//@|     assert(variable_fee(stats.ins_total, s.fees.get_block_headers_cycles_per_ten_instructions, s.fees.get_block_headers_base, s.fees.get_block_headers_maximum) <= s.fees.get_block_headers_maximum - s.fees.get_block_headers_base);
//@| }
//@end

// ---- get_current_fee_percentiles: flat fee ---------------------------------------------------------------------------
//@slice file=canister/src/api/fee_percentiles.rs item="fn get_current_fee_percentiles" to_before="let res = with_state_mut(|s| {" props=C16 mode=refuse
//@ r7 ro="vp_state()" type=State
//@ rewrite R7 "verify_has_enough_cycles\(" => "verify_has_enough_cycles(vp_rt, "
//@ rewrite R7 "charge_cycles\(" => "charge_cycles(vp_rt, "
//@ head
//@| // R8 slice: the charging prefix of get_current_fee_percentiles (everything before the first with_state_mut)
//@| fn get_current_fee_percentiles_charging(vp_rt: &mut CyclesRt)
//@|     requires old(vp_rt).wf(),
//@|     ensures
//@|         old(vp_rt).available >= global_state().fees.get_current_fee_percentiles_maximum,
//@|         final(vp_rt).accepted == old(vp_rt).accepted + global_state().fees.get_current_fee_percentiles,
//@end

// ---------------------------------------------------------------------------------------------------------------------
// C19 / C16 / C14: send_transaction (api/send_transaction.rs), everything before and including the forwarding call.
// The async fn is extracted as a synchronous state-passing function: the thread-local state, the cycles interface and the
// outgoing call are explicit parameters (R7); the awaited inter-canister call becomes `vp_out.forward(..)`.
// ---------------------------------------------------------------------------------------------------------------------
//@extract file=interface/src/lib.rs item="enum Flag"
//@ rewrite R2 "#\[derive\(([^\]]*)\)\]" => "#[derive(Clone, Copy, PartialEq, Eq, Structural)]"
//@ rewrite R2 "#\[default\]" => ""
//@end
#[derive(Clone, Copy, PartialEq, Eq, Structural)]
struct Principal { id: u64 }
struct SendMetrics { send_transaction_count: u64 }
// [trusted:stand-in] the parts of the canister state send_transaction touches
struct SendState { api_access: Flag, network: Network, fees: Fees, blocks_source: Principal, metrics: SendMetrics }
impl SendState {
    fn network(&self) -> (r: Network) ensures r == self.network { self.network }
}
//@extract file=canister/src/types.rs item="struct SendTransactionInternalRequest"
//@ rewrite R2? "#\[derive\(([^\]]*)\)\]" => ""
//@end
//@extract file=interface/src/lib.rs item="enum SendTransactionError"
//@ rewrite R2? "#\[derive\(([^\]]*)\)\]" => ""
//@end
// [trusted:stand-in] the outgoing inter-canister call to the block source: a log of what was forwarded
struct Outbox { sent: Ghost<Seq<(Principal, Network, Seq<u8>)>> }
impl Outbox {
    // [trusted:assumed-contract] runtime::call_send_transaction_internal(..).await.expect(..): the payload is handed to the block source
    #[verifier::external_body]
    fn forward(&mut self, target: Principal, req: SendTransactionInternalRequest)
        ensures final(self).sent@ == old(self).sent@.push((target, req.network, req.transaction@)),
    { unimplemented!() }
}
// [trusted:stand-in] bitcoin::Transaction and the consensus decoders of rust-bitcoin (uninterpreted):
//   is_tx_encoding(b): b is exactly the consensus serialisation of one transaction (nothing before or after it)
//   has_tx_prefix(b):  some prefix of b is such a serialisation
struct Transaction { id: u64 }
struct DecodeError { code: u8 }
uninterp spec fn is_tx_encoding(b: Seq<u8>) -> bool;
uninterp spec fn has_tx_prefix(b: Seq<u8>) -> bool;
// [trusted:assumed-spec] bitcoin::consensus::deserialize: Ok iff the WHOLE input is one transaction ("data not consumed entirely" otherwise)
#[verifier::external_body]
fn vp_deserialize(data: &Vec<u8>) -> (r: Result<Transaction, DecodeError>)
    ensures r.is_ok() <==> is_tx_encoding(data@),
{ unimplemented!() }
impl Transaction {
    // [trusted:stand-in] size accessors of a decoded transaction (not used by the current tree): the serialised size of a transaction that
    // `deserialize` accepted is the length of the payload it was decoded from
    uninterp spec fn total_size_spec(&self) -> usize;
    #[verifier::external_body]
    fn total_size(&self) -> (r: usize) ensures r == self.total_size_spec() { unimplemented!() }
    #[verifier::external_body]
    fn vsize(&self) -> (r: usize) { unimplemented!() }
    // [trusted:assumed-spec] Decodable::consensus_decode on a slice reader: decodes a PREFIX and leaves the rest unread
    #[verifier::external_body]
    fn consensus_decode(r: &mut &[u8]) -> (res: Result<Transaction, DecodeError>)
        ensures res.is_ok() <==> has_tx_prefix(old(r)@),
    { unimplemented!() }
}
mod bitcoin {
    pub(crate) mod consensus {
        pub(crate) use super::super::vp_deserialize as deserialize;
    }
}
#[verifier::external_body]
proof fn axiom_encoding_has_prefix(b: Seq<u8>)
    ensures is_tx_encoding(b) ==> has_tx_prefix(b),
{}

//@extract file=canister/src/lib.rs item="fn verify_api_access" props=C19,C14 mode=refuse rename=send_verify_api_access
//@ sigrewrite R7 "fn verify_api_access\(\)" => "fn verify_api_access(state: &SendState)"
//@ rewrite R7 "with_state\(\|state\| \{" => "{ {"
//@ rewrite R7 "\}\);\s*\}$" => "}; } }"
//@ spec
//@| ensures state.api_access != Flag::Disabled,
//@end
//@extract file=canister/src/lib.rs item="fn verify_network" props=C19,C14 mode=refuse rename=send_verify_network
//@ sigrewrite R7 "fn verify_network\(network: Network\)" => "fn verify_network(state: &SendState, network: Network)"
//@ rewrite R7 "with_state\(\|state\| \{" => "{ {"
//@ rewrite R7 "\}\);\s*\}$" => "}; } }"
//@ spec
//@| ensures state.network == network,
//@end

// [trusted:stand-in] lib.rs::verify_synced as seen from send_transaction: the current tree does not call it here, and C14/C19 exempt
// send_transaction from the sync rule — a well-formed request on the right network with API access enabled must be answered
// whatever the sync status. Any call is therefore an obligation that cannot be met.
fn verify_synced()
    requires false,
{}
// C19, written from the statement
spec fn send_accepts(st: &SendState, req: &SendTransactionRequest) -> bool {
    st.api_access != Flag::Disabled && net_of(req.network) == st.network && is_tx_encoding(req.transaction@)
}

//@extract file=canister/src/api/send_transaction.rs item="fn send_transaction" props=C19,C16,C14 mode=refuse
//@ ret r
//@ sigrewrite R7 "async fn send_transaction\(request: SendTransactionRequest\)" => "fn send_transaction(vp_rt: &mut CyclesRt, vp_st: &mut SendState, vp_out: &mut Outbox, request: SendTransactionRequest)"
//@ rewrite R7 "verify_api_access\(\);" => "send_verify_api_access(vp_st);"
//@ rewrite R7 "verify_network\(request\.network\.into\(\)\);" => "send_verify_network(vp_st, request.network.into());"
//@ rewrite R7 "charge_cycles\(" => "charge_cycles(vp_rt, "
//@ rewrite R10 "let tx(: Transaction)? = (.*?)\s*\.map_err\(\|_\| SendTransactionError::MalformedTransaction\)\?;" => "let tx\1 = match \2 { Ok(t) => t, Err(_) => { return Err(SendTransactionError::MalformedTransaction); } };"
//@ r7 ro="&*vp_st" rw="&mut *vp_st" type=SendState
//@ rewrite R7 "runtime::call_send_transaction_internal\(\s*with_state\(\|s\| s\.blocks_source\),\s*(SendTransactionInternalRequest \{.*?\}),\s*\)\s*\.await\s*\.expect\(\"[^\"]*\"\);" => "vp_out.forward(vp_st.blocks_source, \1);"
//@ spec
//@| requires
//@|     old(vp_rt).wf(),
//@|     // [assumption, stated] fee configuration: base + per_byte x length fits u128
//@|     old(vp_st).fees.send_transaction_base < 0x8000_0000_0000_0000_0000_0000_0000_0000 && old(vp_st).fees.send_transaction_per_byte < 0x1_0000_0000,
//@|     old(vp_st).metrics.send_transaction_count < u64::MAX,
//@| ensures
//@|     // it returns at all only if API access is enabled and the request names the canister's network (otherwise the call is refused)
//@|     old(vp_st).api_access != Flag::Disabled && net_of(request.network) == old(vp_st).network,
//@|     // succeeds, counts and forwards the payload unchanged iff the payload is exactly one transaction
//@|     r.is_ok() <==> is_tx_encoding(request.transaction@),
//@|     r.is_ok() ==> final(vp_out).sent@ == old(vp_out).sent@.push((old(vp_st).blocks_source, old(vp_st).network, request.transaction@))
//@|         && final(vp_st).metrics.send_transaction_count == old(vp_st).metrics.send_transaction_count + 1,
//@|     // every other payload: MalformedTransaction, nothing forwarded, nothing counted
//@|     r.is_err() ==> r == Err::<(), SendTransactionError>(SendTransactionError::MalformedTransaction) && final(vp_out).sent@ == old(vp_out).sent@
//@|         && final(vp_st).metrics.send_transaction_count == old(vp_st).metrics.send_transaction_count,
//@|     // C16: base + per_byte x payload length is accepted in both cases
//@|     final(vp_rt).accepted == old(vp_rt).accepted + old(vp_st).fees.send_transaction_base + old(vp_st).fees.send_transaction_per_byte * request.transaction@.len(),
//@|     final(vp_st).api_access == old(vp_st).api_access && final(vp_st).network == old(vp_st).network && final(vp_st).fees == old(vp_st).fees,
//@ before "charge_cycles(vp_rt"
//@| proof {
//@|     let l = request.transaction.len() as int; let pb = old(vp_st).fees.send_transaction_per_byte as int;
//@|     assert(l == request.transaction@.len());
//@|     assert(usize::MAX <= 0xffff_ffff_ffff_ffff) by { vstd::layout::unsigned_int_max_values(); }
//@|     assert(pb * l <= 0x1_0000_0000 * 0xffff_ffff_ffff_ffff) by(nonlinear_arith) requires 0 <= pb <= 0x1_0000_0000, 0 <= l <= 0xffff_ffff_ffff_ffff;
//@| }
//@end

proof fn vp_canary_axioms()
    ensures false,
{}

} // verus!
fn main() {}
