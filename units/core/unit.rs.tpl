//@unit name=core
// Unit core: blocktree.rs + unstable_blocks.rs + state.rs + lib.rs guards + heartbeat.rs request/response handling
// + get_block_headers.rs + get_utxos.rs/get_balance.rs walks, all in one Verus crate so that callers are checked
// against the callee contracts that are proved in the same run.
#![feature(allocator_api)]
use vstd::prelude::*;
verus! {
//@include ../frag/prelude_core.tpl
//@include ../frag/nbh.tpl
//@include ../frag/tree.tpl
//@include ../frag/rows.tpl
//@include ../frag/unstable.tpl
//@include ../frag/state.tpl
//@include ../frag/bodies.tpl
//@include ../frag/endpoints.tpl
//@include ../frag/heartbeat.tpl
//@include ../frag/headers.tpl
//@include ../frag/walk.tpl
//@include ../frag/feepct.tpl
//@include ../frag/hstore.tpl

proof fn vp_canary_axioms()
    ensures false,
{}

} // verus!
fn main() {}
