//@unit name=ingest
// Unit ingest: canister/src/utxo_set/utxos_delta.rs and the time-sliced ingestion of canister/src/utxo_set.rs (C08).
// The budget predicate is an ARBITRARY boolean at every check (all schedules); `paused_ok` is proved at EVERY pause: the readers' view
// (UtxoSet::get_utxo, verified) of every address-paying output is the one from before the block's ingestion began, the resume position
// is exact, and when the block is done the set is `apply_txs(g, block)` — a function of the start state and the block only.
#![feature(allocator_api)]
use vstd::prelude::*;
use std::collections::{BTreeMap, BTreeSet};
verus! {
type Height = u32;
#[derive(PartialEq, Eq, PartialOrd, Ord, Clone, Copy, Structural, Debug)]
pub struct Txid(pub u64);
#[derive(PartialEq, Eq, PartialOrd, Ord, Structural, Debug)]
pub struct OutPoint { pub txid: Txid, pub vout: u32 }
impl Clone for OutPoint { fn clone(&self) -> (r: Self) ensures r == *self { OutPoint { txid: self.txid, vout: self.vout } } }
pub struct TxOut { pub value: u64, pub script_pubkey: Vec<u8> }
impl Clone for TxOut { #[verifier::external_body] fn clone(&self) -> (r: Self) ensures r == *self { unimplemented!() } }
#[derive(PartialEq, Eq, PartialOrd, Ord, Clone, Copy, Structural, Debug)]
pub struct Address { pub id: u64 }
#[verifier::external_body]
proof fn axiom_keys() ensures keys_ok() {}
pub open spec fn keys_ok() -> bool { vstd::laws_cmp::obeys_cmp::<OutPoint>() && vstd::laws_cmp::obeys_cmp::<Address>() }
#[verifier::external_body]
fn vp_entry_or_insert<'a, K: Ord, V>(m: &'a mut BTreeMap<K, V>, k: K, d: V) -> (r: &'a mut V)
    ensures
        *r == (if old(m)@.contains_key(k) { old(m)@[k] } else { d }),
        final(m)@ == old(m)@.insert(k, *final(r)),
{ m.entry(k).or_insert(d) }

//@extract file=canister/src/utxo_set/utxos_delta.rs item="struct UtxosDelta" props=C08
//@ rewrite R2? "#\[derive\(([^\]]*)\)\]" => ""
//@end
fn vp_assert(b: bool) requires b {}
impl UtxosDelta {
    // representation invariant of the delta of the block being ingested: `utxos` holds exactly the outpoints recorded as added or
    // removed, none is both, and every added outpoint is listed under its address
    spec fn wf(&self) -> bool {
        &&& forall|o: OutPoint| #[trigger] self.utxos@.contains_key(o) <==> (self.all_added_outpoints@.contains_key(o) || self.all_removed_outpoints@.contains(o))
        &&& forall|o: OutPoint| !(#[trigger] self.all_added_outpoints@.contains_key(o) && self.all_removed_outpoints@.contains(o))
        &&& forall|o: OutPoint| #[trigger] self.all_added_outpoints@.contains_key(o) ==> { let a = self.all_added_outpoints@[o]; self.added_outpoints@.contains_key(a) && self.added_outpoints@[a]@.contains(o) }
    }

// R21 `m.entry(k).or_default()` => vp_entry_or_insert(&mut m, k, BTreeSet::new()); `assert_eq!(res, None, ..)` => vp_assert(res.is_none())
//@extract file=canister/src/utxo_set/utxos_delta.rs in="impl UtxosDelta" item="fn insert" props=C08,C01
//@ rewrite R21 "self\.(\w+)\s*\.entry\(([^()]*(?:\(\))?)\)\s*\.or_default\(\)" => "vp_entry_or_insert(&mut self.\1, \2, BTreeSet::new())"
//@ rewrite R5 "vp_assert\(\(res\) == \(None\)\)" => "vp_assert(res.is_none())"
//@ spec
//@| requires old(self).wf(), !old(self).utxos@.contains_key(outpoint),
//@| ensures final(self).wf(),
//@|     final(self).all_added_outpoints@ == old(self).all_added_outpoints@.insert(outpoint, address),
//@|     final(self).all_removed_outpoints@ == old(self).all_removed_outpoints@,
//@|     final(self).utxos@ == old(self).utxos@.insert(outpoint, (tx_out, height)),
//@ start
//@| proof { axiom_keys(); }
//@end
//@extract file=canister/src/utxo_set/utxos_delta.rs in="impl UtxosDelta" item="fn remove" props=C08,C01
//@ rewrite R21 "self\.(\w+)\s*\.entry\(([^()]*(?:\(\))?)\)\s*\.or_default\(\)" => "vp_entry_or_insert(&mut self.\1, \2, BTreeSet::new())"
//@ rewrite R5 "vp_assert\(\(res\) == \(None\)\)" => "vp_assert(res.is_none())"
//@ spec
//@| requires old(self).wf(), !old(self).all_removed_outpoints@.contains(outpoint),
//@| ensures final(self).wf(),
//@|     // an outpoint added by this block and spent again by it leaves no trace; any other is recorded as removed, with its value
//@|     old(self).all_added_outpoints@.contains_key(outpoint) ==> {
//@|         &&& final(self).all_added_outpoints@ == old(self).all_added_outpoints@.remove(outpoint)
//@|         &&& final(self).all_removed_outpoints@ == old(self).all_removed_outpoints@
//@|         &&& final(self).utxos@ == old(self).utxos@.remove(outpoint) },
//@|     !old(self).all_added_outpoints@.contains_key(outpoint) ==> {
//@|         &&& final(self).all_added_outpoints@ == old(self).all_added_outpoints@
//@|         &&& final(self).all_removed_outpoints@ == old(self).all_removed_outpoints@.insert(outpoint)
//@|         &&& final(self).utxos@ == old(self).utxos@.insert(outpoint, (tx_out, height)) },
//@ start
//@| proof { axiom_keys(); }
//@end
//@extract file=canister/src/utxo_set/utxos_delta.rs in="impl UtxosDelta" item="fn is_outpoint_added" props=C08
//@ ret r
//@ spec
//@| ensures r == self.all_added_outpoints@.contains_key(*outpoint),
//@ start
//@| proof { axiom_keys(); }
//@end
//@extract file=canister/src/utxo_set/utxos_delta.rs in="impl UtxosDelta" item="fn is_outpoint_removed" props=C08
//@ ret r
//@ spec
//@| ensures r == self.all_removed_outpoints@.contains(*outpoint),
//@ start
//@| proof { axiom_keys(); }
//@end
//@extract file=canister/src/utxo_set/utxos_delta.rs in="impl UtxosDelta" item="fn get_utxo" props=C08
//@ ret r
//@ spec
//@| ensures r is Some <==> self.utxos@.contains_key(*outpoint), r matches Some(p) ==> *p == self.utxos@[*outpoint],
//@ start
//@| proof { axiom_keys(); }
//@end
}
// ---------------- UtxoSet level ----------------
#[derive(PartialEq, Eq, Clone, Copy, Structural)]
pub enum Network { Mainnet, Testnet, Regtest }
pub struct Script { pub id: u64 }
impl Script { pub uninterp spec fn bytes(&self) -> Seq<u8>; 
  pub uninterp spec fn is_op_return_spec(&self) -> bool;
  #[verifier::external_body] fn is_op_return(&self) -> (r: bool) ensures r == self.is_op_return_spec() { unimplemented!() } }
pub struct AddrError { pub c: u8 }
pub uninterp spec fn address_of_script(bytes: Seq<u8>, n: Network) -> Option<Address>;
impl Address {
    #[verifier::external_body]
    fn from_script(s: &Script, n: Network) -> (r: Result<Address, AddrError>)
        ensures r is Ok <==> address_of_script(s.bytes(), n) is Some, r matches Ok(a) ==> Some(a) == address_of_script(s.bytes(), n)
    { unimplemented!() }
}
#[verifier::external_body]
fn vp_script_from_bytes(b: &Vec<u8>) -> (r: &Script) ensures r.bytes() == b@ { unimplemented!() }
pub struct Amount { pub sat: u64 }
impl Amount { fn to_sat(&self) -> (r: u64) ensures r == self.sat { self.sat } }
pub struct BitcoinTxOut { pub value: Amount, pub script_pubkey: Script }
impl Clone for BitcoinTxOut { #[verifier::external_body] fn clone(&self) -> (r: Self) ensures r == *self { unimplemented!() } }
pub uninterp spec fn txout_of(o: BitcoinTxOut) -> TxOut;
#[verifier::external_body]
proof fn axiom_txout_of(o: BitcoinTxOut) ensures (#[trigger] txout_of(o)).script_pubkey@ == o.script_pubkey.bytes(), txout_of(o).value == o.value.sat {}
impl From<&BitcoinTxOut> for TxOut {
    #[verifier::external_body]
    fn from(b: &BitcoinTxOut) -> (r: TxOut) ensures r == txout_of(*b) { unimplemented!() }
}
impl vstd::std_specs::convert::FromSpecImpl<&BitcoinTxOut> for TxOut {
    open spec fn obeys_from_spec() -> bool { true }
    open spec fn from_spec(b: &BitcoinTxOut) -> TxOut { txout_of(*b) }
}
// [trusted:stand-in] Utxos (utxos.rs: three stable maps split by script size): one map
pub struct Utxos { pub m: Ghost<Map<OutPoint, (TxOut, Height)>>, pub p: u8 }
impl Utxos {
    pub open spec fn view(&self) -> Map<OutPoint, (TxOut, Height)> { self.m@ }
    #[verifier::external_body]
    fn insert(&mut self, key: OutPoint, value: (TxOut, Height)) -> (r: bool) ensures r == old(self)@.contains_key(key), final(self)@ == old(self)@.insert(key, value) { unimplemented!() }
    #[verifier::external_body]
    fn remove(&mut self, key: &OutPoint) -> (r: Option<(TxOut, Height)>) ensures r is Some <==> old(self)@.contains_key(*key), r matches Some(v) ==> v == old(self)@[*key], final(self)@ == old(self)@.remove(*key) { unimplemented!() }
    #[verifier::external_body]
    fn get(&self, key: &OutPoint) -> (r: Option<(TxOut, Height)>) ensures r is Some <==> self@.contains_key(*key), r matches Some(v) ==> v == self@[*key] { unimplemented!() }
}
// C01: the stable address index lists exactly the outputs of the UTXO map that pay an address, under that address and their height
spec fn index_ok(u: Map<OutPoint, (TxOut, Height)>, idx: Set<(Address, Height, OutPoint)>, n: Network) -> bool {
    forall|a: Address, h: Height, o: OutPoint| #[trigger] idx.contains((a, h, o)) <==> (u.contains_key(o) && u[o].1 == h && address_of_script(u[o].0.script_pubkey@, n) == Some(a))
}
// the answer of UtxoSet::get_utxo while a block is being ingested: the ingesting block's changes reverted
spec fn rview(u: Map<OutPoint, (TxOut, Height)>, d: &UtxosDelta, o: OutPoint) -> Option<(TxOut, Height)> {
    if d.all_removed_outpoints@.contains(o) { if d.utxos@.contains_key(o) { Some(d.utxos@[o]) } else { None } }
    else if d.all_added_outpoints@.contains_key(o) { None }
    else if u.contains_key(o) { Some(u[o]) } else { None }
}
spec fn pays_address(x: Option<(TxOut, Height)>, n: Network) -> bool { x matches Some(v) && address_of_script(v.0.script_pubkey@, n) is Some }
// C08: every address-paying output reads as it did before the block's ingestion began (g)
spec fn view_ok(u: Map<OutPoint, (TxOut, Height)>, d: &UtxosDelta, g: Map<OutPoint, (TxOut, Height)>, n: Network) -> bool {
    forall|o: OutPoint| (pays_address(#[trigger] rview(u, d, o), n) || pays_address(if g.contains_key(o) { Some(g[o]) } else { None }, n)) ==> rview(u, d, o) == (if g.contains_key(o) { Some(g[o]) } else { None::<(TxOut, Height)> })
}

// [trusted:stand-in] the two other stable maps: balances (Address -> u64) and the address index (key bytes -> ()), map semantics
pub struct Balances { pub m: Ghost<Map<Address, u64>>, pub p: u8 }
impl Balances {
    #[verifier::external_body] fn get(&self, a: &Address) -> (r: Option<u64>) ensures r == (if self.m@.contains_key(*a) { Some(self.m@[*a]) } else { None::<u64> }) { unimplemented!() }
    #[verifier::external_body] fn insert(&mut self, a: Address, v: u64) -> (r: Option<u64>) ensures final(self).m@ == old(self).m@.insert(a, v) { unimplemented!() }
    #[verifier::external_body] fn remove(&mut self, a: &Address) -> (r: Option<u64>) ensures final(self).m@ == old(self).m@.remove(*a) { unimplemented!() }
}
pub struct AddressUtxo { pub address: Address, pub height: Height, pub outpoint: OutPoint }
pub struct Blob { pub k: Ghost<(Address, Height, OutPoint)>, pub p: u8 }
pub struct AddressIndex { pub m: Ghost<Set<(Address, Height, OutPoint)>>, pub p: u8 }
#[verifier::external_body]
fn vp_index_key(a: AddressUtxo) -> (r: Blob) ensures r.k@ == (a.address, a.height, a.outpoint) { unimplemented!() }
impl AddressIndex {
    #[verifier::external_body] fn insert(&mut self, k: Blob, v: ()) -> (r: Option<()>) ensures final(self).m@ == old(self).m@.insert(k.k@) { unimplemented!() }
    #[verifier::external_body] fn remove(&mut self, k: &Blob) -> (r: Option<()>) ensures r is Some <==> old(self).m@.contains(k.k@), final(self).m@ == old(self).m@.remove(k.k@) { unimplemented!() }
}
pub struct BitcoinOutPoint { pub txid: u64, pub vout: u32 }
pub open spec fn op_of(b: BitcoinOutPoint) -> OutPoint { OutPoint { txid: Txid(b.txid), vout: b.vout } }
impl From<&BitcoinOutPoint> for OutPoint {
    #[verifier::external_body]
    fn from(b: &BitcoinOutPoint) -> (r: OutPoint) ensures r == op_of(*b) { unimplemented!() }
}
pub struct TxIn { pub previous_output: BitcoinOutPoint }
pub struct Transaction { pub ins: Vec<TxIn>, pub outs: Vec<BitcoinTxOut>, pub id: Txid, pub cb: bool }
impl Transaction {
    fn input(&self) -> (r: &[TxIn]) ensures r@ == self.ins@ { self.ins.as_slice() }
    fn output(&self) -> (r: &[BitcoinTxOut]) ensures r@ == self.outs@ { self.outs.as_slice() }
    fn is_coinbase(&self) -> (r: bool) ensures r == self.cb { self.cb }
    fn txid(&self) -> (r: Txid) ensures r == self.id { self.id }
}
impl OutPoint { fn new(txid: Txid, vout: u32) -> (r: OutPoint) ensures r == (OutPoint { txid, vout }) { OutPoint { txid, vout } } }
// the budget predicate (`Box<dyn FnMut() -> bool>`): ANY answer at ANY time — this is the quantifier over schedules
#[verifier::external_body]
fn vp_should_time_slice() -> (r: bool) { unimplemented!() }
// R6 refuse mode: a trap ends the message (the block is outside the property's domain: not transaction-valid / index inconsistent)
#[verifier::external_body]
fn vp_refuse() -> ! { panic!() }
#[verifier::external_body]
fn vp_refuse_unless(b: bool) ensures b { unimplemented!() }
pub enum Slicing<T, U> { Paused(T), Done(U) }
pub struct BlockIngestionStats { pub ins_txids: u64, pub ins_insert_utxos: u64 }
#[verifier::external_body]
fn performance_counter() -> (r: u64) { unimplemented!() }


// inserting output k (in the set and possibly in the delta) leaves the later outputs of the transaction fresh
proof fn lemma_fresh_after_insert(tx: &Transaction, k: int, u0: Map<OutPoint, (TxOut, Height)>, d0: &UtxosDelta, u1: Map<OutPoint, (TxOut, Height)>, d1: &UtxosDelta, g: Map<OutPoint, (TxOut, Height)>)
    requires
        0 <= k < tx.outs@.len(), tx.outs@.len() < 0x1_0000_0000, UtxoSet::outputs_fresh(tx, k, u0, d0, g),
        forall|o: OutPoint| o != (OutPoint { txid: tx.id, vout: k as u32 }) ==> (u1.contains_key(o) == u0.contains_key(o) && d1.utxos@.contains_key(o) == d0.utxos@.contains_key(o)),
    ensures UtxoSet::outputs_fresh(tx, k + 1, u1, d1, g),
{
    assert forall|o: OutPoint| (o.txid == tx.id && k + 1 <= o.vout as int && (o.vout as int) < tx.outs@.len()) implies !#[trigger] touched(o, u1, d1, g) by {
        assert(o != (OutPoint { txid: tx.id, vout: k as u32 }));
        assert(!touched(o, u0, d0, g));
    }
}
// the outpoint exists before the block, in the set now, or is recorded in the delta
spec fn touched(o: OutPoint, u: Map<OutPoint, (TxOut, Height)>, d: &UtxosDelta, g: Map<OutPoint, (TxOut, Height)>) -> bool {
    g.contains_key(o) || d.utxos@.contains_key(o) || u.contains_key(o)
}

// [assumption, stated] the part of transaction `tx` still to be applied (inputs from si, outputs from so) belongs to a transaction-valid
// block: its inputs are pairwise different and unspent by this block, its outputs are new, and none of its inputs is one of its own outputs
spec fn tx_domain(tx: &Transaction, si: int, so: int, u: Map<OutPoint, (TxOut, Height)>, d: &UtxosDelta, g: Map<OutPoint, (TxOut, Height)>) -> bool {
    &&& UtxoSet::outputs_fresh(tx, so, u, d, g)
    &&& (!tx.cb ==> UtxoSet::inputs_unspent(tx, si, d))
    &&& forall|i: int| 0 <= i < tx.ins@.len() ==> (#[trigger] op_of(tx.ins@[i].previous_output)).txid != tx.id
}

spec fn is_input(tx: &Transaction, o: OutPoint) -> bool { exists|a: int| 0 <= a < tx.ins@.len() && #[trigger] op_of(tx.ins@[a].previous_output) == o }
// what applying (a part of) tx may touch: its own outputs and the outpoints its inputs name
spec fn frame_ok(tx: &Transaction, u0: Map<OutPoint, (TxOut, Height)>, d0: &UtxosDelta, u1: Map<OutPoint, (TxOut, Height)>, d1: &UtxosDelta, g: Map<OutPoint, (TxOut, Height)>) -> bool {
    &&& forall|o: OutPoint| #[trigger] touched(o, u1, d1, g) ==> (touched(o, u0, d0, g) || o.txid == tx.id || is_input(tx, o))
    &&& forall|o: OutPoint| #[trigger] d1.all_removed_outpoints@.contains(o) ==> (d0.all_removed_outpoints@.contains(o) || is_input(tx, o))
}
#[derive(PartialEq, Eq, PartialOrd, Ord, Clone, Copy, Structural, Debug)]
pub struct BlockHash(pub u64);
pub struct Block { pub txs: Vec<Transaction>, pub hash: BlockHash }
impl Block {
    fn txdata(&self) -> (r: &[Transaction]) ensures r@ == self.txs@ { self.txs.as_slice() }
    fn block_hash(&self) -> (r: &BlockHash) ensures *r == self.hash { &self.hash }
}
pub struct IngestingBlock {
    pub block: Block,
    pub next_tx_idx: usize,
    pub next_input_idx: usize,
    pub next_output_idx: usize,
    stats: BlockIngestionStats,
    utxos_delta: UtxosDelta,
}

// ---- C08 "schedule independent": what the UTXO map must be after a given amount of work, as a function of the block only ----
type UMap = Map<OutPoint, (TxOut, Height)>;
spec fn apply_ins(u: UMap, tx: &Transaction, a: int, b: int) -> UMap
    decreases b - a
{
    if b <= a { u } else { apply_ins(u, tx, a, b - 1).remove(op_of(tx.ins@[b - 1].previous_output)) }
}
// a coinbase spends nothing
spec fn ins_applied(u: UMap, tx: &Transaction, a: int, b: int) -> UMap { if tx.cb { u } else { apply_ins(u, tx, a, b) } }
spec fn apply_outs(u: UMap, tx: &Transaction, a: int, b: int, h: Height) -> UMap
    decreases b - a
{
    if b <= a { u } else {
        let v = apply_outs(u, tx, a, b - 1, h);
        if tx.outs@[b - 1].script_pubkey.is_op_return_spec() { v } else { v.insert(OutPoint { txid: tx.id, vout: (b - 1) as u32 }, (txout_of(tx.outs@[b - 1]), h)) }
    }
}
spec fn apply_tx(u: UMap, tx: &Transaction, h: Height) -> UMap {
    apply_outs(ins_applied(u, tx, 0, tx.ins@.len() as int), tx, 0, tx.outs@.len() as int, h)
}
spec fn apply_txs(u: UMap, txs: Seq<Transaction>, n: int, h: Height) -> UMap
    decreases n
{
    if n <= 0 { u } else { apply_tx(apply_txs(u, txs, n - 1, h), &txs[n - 1], h) }
}
// the map after transactions 0..t, the first si inputs and the first so outputs of transaction t have been applied to g
spec fn progress(g: UMap, b: &Block, t: int, si: int, so: int, h: Height) -> UMap {
    if t >= b.txs@.len() { apply_txs(g, b.txs@, b.txs@.len() as int, h) }
    else { apply_outs(ins_applied(apply_txs(g, b.txs@, t, h), &b.txs@[t], 0, si), &b.txs@[t], 0, so, h) }
}
proof fn lemma_apply_ins_compose(u: UMap, tx: &Transaction, a: int, m: int, b: int)
    requires a <= m <= b,
    ensures apply_ins(apply_ins(u, tx, a, m), tx, m, b) == apply_ins(u, tx, a, b),
    decreases b - m
{ if b > m { lemma_apply_ins_compose(u, tx, a, m, b - 1); } }
proof fn lemma_apply_outs_compose(u: UMap, tx: &Transaction, a: int, m: int, b: int, h: Height)
    requires a <= m <= b,
    ensures apply_outs(apply_outs(u, tx, a, m, h), tx, m, b, h) == apply_outs(u, tx, a, b, h),
    decreases b - m
{ if b > m { lemma_apply_outs_compose(u, tx, a, m, b - 1, h); } }

// doing the work from (si, so) to (i2, o2) inside transaction t moves the progress point accordingly
proof fn lemma_progress_step(g: UMap, b: &Block, t: int, si: int, so: int, i2: int, o2: int, h: Height)
    requires
        0 <= t < b.txs@.len(), 0 <= si <= i2 <= b.txs@[t].ins@.len(), 0 <= so <= b.txs@[t].outs@.len(), 0 <= o2 <= b.txs@[t].outs@.len(),
        so > 0 ==> si >= b.txs@[t].ins@.len(), o2 >= so,
    ensures
        apply_outs(ins_applied(progress(g, b, t, si, so, h), &b.txs@[t], si, i2), &b.txs@[t], so, o2, h) == progress(g, b, t, i2, o2, h),
        progress(g, b, t, b.txs@[t].ins@.len() as int, b.txs@[t].outs@.len() as int, h) == progress(g, b, t + 1, 0, 0, h),
{
    let tx = &b.txs@[t];
    let base = apply_txs(g, b.txs@, t, h);
    if !tx.cb { lemma_apply_ins_compose(base, tx, 0, si, i2); }
    if so == 0 {
        lemma_apply_outs_compose(ins_applied(base, tx, 0, i2), tx, 0, 0, o2, h);
    } else {
        assert(i2 == si);
        lemma_apply_outs_compose(ins_applied(base, tx, 0, si), tx, 0, so, o2, h);
    }
    if t + 1 < b.txs@.len() { assert(apply_txs(g, b.txs@, t + 1, h) == apply_tx(base, tx, h)); }
    else { assert(apply_txs(g, b.txs@, t + 1, h) == apply_tx(base, tx, h)); }
}
// [assumption, stated] static facts of a transaction-valid block: transaction ids are pairwise different, no outpoint is spent twice,
// no transaction spends an output of itself or of a later transaction; sizes below 2^32
spec fn block_static(b: &Block) -> bool {
    &&& forall|j: int, k: int| 0 <= j < k < b.txs@.len() ==> (#[trigger] b.txs@[j]).id != (#[trigger] b.txs@[k]).id
    &&& forall|j: int, k: int, x: int, y: int| 0 <= j < k < b.txs@.len() && 0 <= x < b.txs@[j].ins@.len() && 0 <= y < b.txs@[k].ins@.len()
            ==> #[trigger] op_of(b.txs@[j].ins@[x].previous_output) != #[trigger] op_of(b.txs@[k].ins@[y].previous_output)
    &&& forall|j: int, k: int, x: int| 0 <= j <= k < b.txs@.len() && 0 <= x < b.txs@[j].ins@.len()
            ==> (#[trigger] op_of(b.txs@[j].ins@[x].previous_output)).txid != (#[trigger] b.txs@[k]).id
    &&& b.txs@.len() < 0x1_0000_0000
    &&& forall|j: int| 0 <= j < b.txs@.len() ==> (#[trigger] b.txs@[j]).ins@.len() < 0x1_0000_0000 && b.txs@[j].outs@.len() < 0x1_0000_0000
}
// [assumption, stated] the rest of the block (transaction t from input si / output so, and every later transaction) is applicable
spec fn block_domain(b: &Block, t: int, si: int, so: int, u: Map<OutPoint, (TxOut, Height)>, d: &UtxosDelta, g: Map<OutPoint, (TxOut, Height)>) -> bool {
    &&& 0 <= t <= b.txs@.len()
    &&& t < b.txs@.len() ==> tx_domain(&b.txs@[t], si, so, u, d, g) && (so > 0 ==> si >= b.txs@[t].ins@.len())
    &&& forall|j: int| t < j < b.txs@.len() ==> tx_domain(&#[trigger] b.txs@[j], 0, 0, u, d, g)
}
// a step that respects the frame of transaction t keeps the LATER transactions applicable
proof fn lemma_domain_step(b: &Block, t: int, u0: Map<OutPoint, (TxOut, Height)>, d0: &UtxosDelta, u1: Map<OutPoint, (TxOut, Height)>, d1: &UtxosDelta, g: Map<OutPoint, (TxOut, Height)>)
    requires
        block_static(b), 0 <= t < b.txs@.len(),
        forall|j: int| t < j < b.txs@.len() ==> tx_domain(&#[trigger] b.txs@[j], 0, 0, u0, d0, g),
        frame_ok(&b.txs@[t], u0, d0, u1, d1, g),
    ensures
        forall|j: int| t < j < b.txs@.len() ==> tx_domain(&#[trigger] b.txs@[j], 0, 0, u1, d1, g),
{
    let tx = &b.txs@[t];
    assert forall|j: int| t < j < b.txs@.len() implies tx_domain(&#[trigger] b.txs@[j], 0, 0, u1, d1, g) by {
        let tj = &b.txs@[j];
        assert(tx_domain(tj, 0, 0, u0, d0, g));
        assert forall|o: OutPoint| (o.txid == tj.id && 0 <= o.vout as int && (o.vout as int) < tj.outs@.len()) implies !#[trigger] touched(o, u1, d1, g) by {
            if touched(o, u1, d1, g) {
                assert(!touched(o, u0, d0, g));
                assert(tx.id != tj.id);
                if is_input(tx, o) { let a = choose|a: int| 0 <= a < tx.ins@.len() && #[trigger] op_of(tx.ins@[a].previous_output) == o; assert(op_of(b.txs@[t].ins@[a].previous_output).txid != b.txs@[j].id); }
            }
        }
        if !tj.cb {
            assert forall|i: int| 0 <= i < tj.ins@.len() implies !d1.all_removed_outpoints@.contains(#[trigger] op_of(tj.ins@[i].previous_output)) by {
                let o = op_of(tj.ins@[i].previous_output);
                if d1.all_removed_outpoints@.contains(o) {
                    assert(!d0.all_removed_outpoints@.contains(o));
                    let a = choose|a: int| 0 <= a < tx.ins@.len() && #[trigger] op_of(tx.ins@[a].previous_output) == o;
                    assert(op_of(b.txs@[t].ins@[a].previous_output) != op_of(b.txs@[j].ins@[i].previous_output));
                }
            }
        }
    }
}
// [trusted:assumed-spec] Option<&(TxOut, Height)>::cloned: a copy of the pair
#[verifier::external_body]
fn vp_cloned(x: Option<&(TxOut, Height)>) -> (r: Option<(TxOut, Height)>) ensures r == (match x { Some(p) => Some(*p), None => None::<(TxOut, Height)> }) { unimplemented!() }
pub struct UtxoSet { utxos: Utxos, balances: Balances, address_utxos: AddressIndex, network: Network, next_height: Height, ingesting_block: Option<IngestingBlock> }
// C08: what every reader sees while a block is being ingested equals what it saw before the ingestion began (g), for every output
// that pays an address; `paused_ok` is the invariant that holds at EVERY pause, whatever the schedule of the budget predicate
spec fn paused_ok(s: &UtxoSet, g: Map<OutPoint, (TxOut, Height)>) -> bool {
    s.ingesting_block matches Some(ib) ==> {
        &&& ib.utxos_delta.wf()
        &&& view_ok(s.utxos@, &ib.utxos_delta, g, s.network)
        // C01: the address index is exactly the address-paying part of the UTXO map, also in the middle of an ingestion
        &&& index_ok(s.utxos@, s.address_utxos.m@, s.network)
        &&& block_static(&ib.block)
        &&& block_domain(&ib.block, ib.next_tx_idx as int, ib.next_input_idx as int, ib.next_output_idx as int, s.utxos@, &ib.utxos_delta, g)
        // schedule independence: the set is g with exactly the work up to the stored position applied
        &&& s.utxos@ == progress(g, &ib.block, ib.next_tx_idx as int, ib.next_input_idx as int, ib.next_output_idx as int, s.next_height)
        &&& ib.next_tx_idx < ib.block.txs@.len() ==> ib.next_input_idx <= ib.block.txs@[ib.next_tx_idx as int].ins@.len() && ib.next_output_idx <= ib.block.txs@[ib.next_tx_idx as int].outs@.len()
    }
}

// one input removed (remove_inputs' loop body): the readers' view, the frame and the remaining inputs' status
proof fn lemma_remove_input_step(s1: &UtxoSet, s0: &UtxoSet, d1: &UtxosDelta, dd0: &UtxosDelta, tx: &Transaction, k: int, u0: UMap, d0: &UtxosDelta, g: UMap)
    requires
        0 <= k < tx.ins@.len(), !tx.cb,
        UtxoSet::inputs_unspent(tx, k, d0), d0.wf(), view_ok(u0, d0, g, s1.network),
        forall|i: int| 0 <= i < tx.ins@.len() ==> (#[trigger] op_of(tx.ins@[i].previous_output)).txid != tx.id,
        frame_ok(tx, s0.utxos@, dd0, u0, d0, g),
        forall|o: OutPoint| o.txid == tx.id ==> #[trigger] touched(o, u0, d0, g) == touched(o, s0.utxos@, dd0, g),
        // what the body did: the outpoint left the set; if it pays an address the delta recorded the removal (UtxosDelta::remove), otherwise the delta is as before
        u0.contains_key(op_of(tx.ins@[k].previous_output)),
        s1.utxos@ == u0.remove(op_of(tx.ins@[k].previous_output)),
        d1.wf(),
        ({ let op = op_of(tx.ins@[k].previous_output);
           if pays_address(Some(u0[op]), s1.network) {
               if d0.all_added_outpoints@.contains_key(op) {
                   d1.all_added_outpoints@ == d0.all_added_outpoints@.remove(op) && d1.all_removed_outpoints@ == d0.all_removed_outpoints@ && d1.utxos@ == d0.utxos@.remove(op)
               } else {
                   d1.all_added_outpoints@ == d0.all_added_outpoints@ && d1.all_removed_outpoints@ == d0.all_removed_outpoints@.insert(op) && d1.utxos@ == d0.utxos@.insert(op, u0[op])
               }
           } else { d1.all_added_outpoints@ == d0.all_added_outpoints@ && d1.all_removed_outpoints@ == d0.all_removed_outpoints@ && d1.utxos@ == d0.utxos@ } }),
    ensures
        view_ok(s1.utxos@, d1, g, s1.network),
        frame_ok(tx, s0.utxos@, dd0, s1.utxos@, d1, g),
        forall|o: OutPoint| o.txid == tx.id ==> #[trigger] touched(o, s1.utxos@, d1, g) == touched(o, s0.utxos@, dd0, g),
        UtxoSet::inputs_unspent(tx, k + 1, d1),
{
    let u1 = s1.utxos@; let n = s1.network; let op = op_of(tx.ins@[k].previous_output);
    assert(!d0.all_removed_outpoints@.contains(op_of(tx.ins@[k].previous_output)));
    assert forall|o: OutPoint| (pays_address(#[trigger] rview(u1, d1, o), n) || pays_address(if g.contains_key(o) { Some(g[o]) } else { None }, n)) implies rview(u1, d1, o) == (if g.contains_key(o) { Some(g[o]) } else { None::<(TxOut, Height)> }) by {
        if o != op { assert(rview(u1, d1, o) == rview(u0, d0, o)); }
        else { assert(rview(u0, d0, o) == (if g.contains_key(o) { Some(g[o]) } else { None::<(TxOut, Height)> }) || !(pays_address(rview(u0, d0, o), n) || pays_address(if g.contains_key(o) { Some(g[o]) } else { None }, n))); }
    }
    assert(op.txid != tx.id);
    assert(is_input(tx, op));
    assert forall|o: OutPoint| #[trigger] touched(o, u1, d1, g) implies (touched(o, s0.utxos@, dd0, g) || o.txid == tx.id || is_input(tx, o)) by { if o != op { assert(touched(o, u0, d0, g)); } }
    assert forall|o: OutPoint| #[trigger] d1.all_removed_outpoints@.contains(o) implies (dd0.all_removed_outpoints@.contains(o) || is_input(tx, o)) by { if o != op { assert(d0.all_removed_outpoints@.contains(o)); } }
    assert forall|o: OutPoint| o.txid == tx.id implies #[trigger] touched(o, u1, d1, g) == touched(o, s0.utxos@, dd0, g) by { assert(o != op); assert(touched(o, u1, d1, g) == touched(o, u0, d0, g)); }
    assert forall|i: int| k + 1 <= i < tx.ins@.len() implies !d1.all_removed_outpoints@.contains(#[trigger] op_of(tx.ins@[i].previous_output)) by {
        assert(op_of(tx.ins@[k].previous_output) != op_of(tx.ins@[i].previous_output));
    }
}
// [trusted:stand-in] `DUPLICATE_TX_IDS.contains(..)` (the two historic BIP-30 transaction ids): any answer
#[verifier::external_body]
fn vp_is_known_duplicate(t: &Txid) -> (r: bool) { unimplemented!() }
// [trusted:assumed-spec] derive(Default) of UtxosDelta / BlockIngestionStats: empty maps / zero counters
uninterp spec fn delta_default_spec() -> UtxosDelta;
#[verifier::external_body]
proof fn axiom_delta_default()
    ensures
        delta_default_spec().added_outpoints@ =~= Map::empty(), delta_default_spec().removed_outpoints@ =~= Map::empty(),
        delta_default_spec().all_added_outpoints@ =~= Map::empty(), delta_default_spec().all_removed_outpoints@ =~= Set::empty(),
        delta_default_spec().utxos@ =~= Map::empty(),
{}
#[verifier::external_body]
fn vp_delta_default() -> (r: UtxosDelta) ensures r == delta_default_spec() { unimplemented!() }
#[verifier::external_body]
fn vp_stats_default() -> (r: BlockIngestionStats) { unimplemented!() }
impl IngestingBlock {
//@extract file=canister/src/utxo_set.rs in="impl IngestingBlock" item="fn new" props=C08
//@ ret r
//@ rewrite R3 "UtxosDelta::default\(\)" => "vp_delta_default()"
//@ rewrite R3 "BlockIngestionStats::default\(\)" => "vp_stats_default()"
//@ spec
//@| ensures r.block == block, r.next_tx_idx == 0, r.next_input_idx == 0, r.next_output_idx == 0, r.utxos_delta == delta_default_spec(),
//@end
}
impl UtxoSet {
    // [assumption, stated] transaction-valid block without duplicate outpoints: the outputs of tx from index k on are new
    spec fn outputs_fresh(tx: &Transaction, k: int, u: Map<OutPoint, (TxOut, Height)>, d: &UtxosDelta, g: Map<OutPoint, (TxOut, Height)>) -> bool {
        forall|o: OutPoint| (o.txid == tx.id && k <= o.vout as int && (o.vout as int) < tx.outs@.len()) ==> !#[trigger] touched(o, u, d, g)
    }
    // [assumption, stated] transaction-valid block: the inputs of tx from index k on are pairwise different and not yet spent by this block
    spec fn inputs_unspent(tx: &Transaction, k: int, d: &UtxosDelta) -> bool {
        &&& forall|i: int| k <= i < tx.ins@.len() ==> !d.all_removed_outpoints@.contains(#[trigger] op_of(tx.ins@[i].previous_output))
        &&& forall|i: int, j: int| k <= i < j < tx.ins@.len() ==> #[trigger] op_of(tx.ins@[i].previous_output) != #[trigger] op_of(tx.ins@[j].previous_output)
    }

// the READER: UtxoSet::get_utxo reverts the ingesting block's changes. R17: `.cloned()` on an Option of a reference => vp_cloned
//@extract file=canister/src/utxo_set.rs in="impl UtxoSet" item="fn get_utxo" props=C08
//@ ret r
//@ rewrite R17 "return (b\.utxos_delta\.get_utxo\(outpoint\))\.cloned\(\);" => "return vp_cloned(\1);"
//@ spec
//@| requires self.ingesting_block matches Some(b) ==> b.utxos_delta.wf(),
//@| ensures r == (match self.ingesting_block {
//@|     Some(b) => rview(self.utxos@, &b.utxos_delta, *outpoint),
//@|     None => if self.utxos@.contains_key(*outpoint) { Some(self.utxos@[*outpoint]) } else { None::<(TxOut, Height)> },
//@| }),
//@end

// R3: the index key `Blob::try_from(AddressUtxo {..}.to_bytes().as_ref()).unwrap()` => vp_index_key(AddressUtxo {..}) (the encoding is the
// Kani-checked key codec of C01); mode=refuse: the BIP-30 panic ends the message (outside the domain)
//@extract file=canister/src/utxo_set.rs in="impl UtxoSet" item="fn insert_utxo" props=C08,C01 mode=refuse
//@ sigrewrite R9 "utxos_delta: &mut UtxosDelta,\s*\)" => "utxos_delta: &mut UtxosDelta,\n        Ghost(g): Ghost<UMap>,\n    )"
//@ rewrite R3 "Blob::try_from\(\s*(AddressUtxo \{.*?\})\s*\.to_bytes\(\)\s*\.as_ref\(\),\s*\)\s*\.unwrap\(\)" => "vp_index_key(\1)"
//@ rewrite R9 "(let address_balance = self\.balances\.get\(&address\)\.unwrap_or\(0\);)" => "\1\n            // [assumption, stated] machine arithmetic: balances stay below 2^64\n            assume(address_balance + output.value.sat <= u64::MAX);"
//@ rewrite R3 "!DUPLICATE_TX_IDS\.contains\(&outpoint\.txid\)" => "!vp_is_known_duplicate(&outpoint.txid)"
//@ spec
//@| requires
//@|     old(utxos_delta).wf(), view_ok(old(self).utxos@, old(utxos_delta), g, old(self).network), index_ok(old(self).utxos@, old(self).address_utxos.m@, old(self).network),
//@|     // [assumption, stated] an outpoint is created once (no BIP-30 duplicates): it is neither in the set nor touched by this block
//@|     !g.contains_key(outpoint), !old(utxos_delta).utxos@.contains_key(outpoint), !old(self).utxos@.contains_key(outpoint),
//@| ensures
//@|     final(utxos_delta).wf(), view_ok(final(self).utxos@, final(utxos_delta), g, final(self).network), index_ok(final(self).utxos@, final(self).address_utxos.m@, final(self).network),
//@|     final(self).network == old(self).network, final(self).next_height == old(self).next_height, final(self).ingesting_block == old(self).ingesting_block,
//@|     final(utxos_delta).all_removed_outpoints@ == old(utxos_delta).all_removed_outpoints@,
//@|     final(self).utxos@ == old(self).utxos@.insert(outpoint, (txout_of(output), old(self).next_height)),
//@|     // only this outpoint is touched
//@|     forall|o: OutPoint| o != outpoint ==> (final(self).utxos@.contains_key(o) == old(self).utxos@.contains_key(o) && final(utxos_delta).utxos@.contains_key(o) == old(utxos_delta).utxos@.contains_key(o)),
//@ start
//@| proof { axiom_txout_of(output); }
//@ finish
//@| proof {
//@|     let u0 = old(self).utxos@; let u1 = self.utxos@; let n = self.network;
//@|     assert forall|o: OutPoint| (pays_address(#[trigger] rview(u1, utxos_delta, o), n) || pays_address(if g.contains_key(o) { Some(g[o]) } else { None }, n)) implies rview(u1, utxos_delta, o) == (if g.contains_key(o) { Some(g[o]) } else { None::<(TxOut, Height)> }) by {
//@|         if o != outpoint { assert(rview(u1, utxos_delta, o) == rview(u0, old(utxos_delta), o)); }
//@|     }
//@| }
//@end

// R4: `for (i, x) in E.iter().enumerate().skip(k) {` => a counter loop whose body starts with `if i < k { continue; }` (definition of
// enumerate / skip), then R24 (continue elimination); R7: `(self.should_time_slice)()` (a `Box<dyn FnMut() -> bool>`) => vp_should_time_slice():
// ANY answer at ANY call; R1: the instruction-count statistics (`stats.X += performance_counter() - ins_start;`) are removed
//@extract file=canister/src/utxo_set.rs in="impl UtxoSet" item="fn insert_outputs" props=C08
//@ ret r
//@ sigrewrite R9 "stats: &mut BlockIngestionStats,\s*\)" => "stats: &mut BlockIngestionStats,\n        Ghost(g): Ghost<UMap>,\n    )"
//@ rewrite R4 "for \(vout, output\) in tx\.output\(\)\.iter\(\)\.enumerate\(\)\.skip\(start_idx\) \{" => "let mut vp_vout: usize = 0;\n        for output in tx.output().iter() {\n            let vout = vp_vout;\n            vp_vout = vp_vout + 1;\n            if vout < start_idx { continue; }"
//@ rewrite R7 "\(self\.should_time_slice\)\(\)" => "vp_should_time_slice()"
//@ rewrite R1 "stats\.\w+ \+= performance_counter\(\) - ins_start;" => "/* R1: statistics removed */"
//@ rewrite R9 "self\.insert_utxo\(" => "proof { assert(*output == tx.outs@[vout as int]); assert(!touched(OutPoint { txid: tx.id, vout: vout as u32 }, self.utxos@, utxos_delta, g)); }\n                let ghost u_before = self.utxos@; let ghost d_before = *utxos_delta;\n                self.insert_utxo("
//@ rewrite R9 "(output\.clone\(\),\s*utxos_delta,)\s*\);" => "\1\n                    Ghost(g),\n                );\n                proof { lemma_fresh_after_insert(tx, vout as int, u_before, &d_before, self.utxos@, utxos_delta, g);\n                    assert forall|o: OutPoint| #[trigger] touched(o, self.utxos@, utxos_delta, g) implies (touched(o, old(self).utxos@, old(utxos_delta), g) || o.txid == tx.id || is_input(tx, o)) by {\n                        if o != (OutPoint { txid: tx.id, vout: vout as u32 }) { assert(touched(o, u_before, &d_before, g)); }\n                    }\n                }"
//@ r24
//@ spec
//@| requires
//@|     old(utxos_delta).wf(), view_ok(old(self).utxos@, old(utxos_delta), g, old(self).network), index_ok(old(self).utxos@, old(self).address_utxos.m@, old(self).network),
//@|     tx.outs@.len() < 0x1_0000_0000,
//@|     Self::outputs_fresh(tx, start_idx as int, old(self).utxos@, old(utxos_delta), g),
//@| ensures
//@|     final(utxos_delta).wf(), view_ok(final(self).utxos@, final(utxos_delta), g, final(self).network), index_ok(final(self).utxos@, final(self).address_utxos.m@, final(self).network),
//@|     final(self).network == old(self).network, final(self).next_height == old(self).next_height, final(self).ingesting_block == old(self).ingesting_block,
//@|     frame_ok(tx, old(self).utxos@, old(utxos_delta), final(self).utxos@, final(utxos_delta), g),
//@|     // a pause names the first output that has NOT been inserted; it lies in the range still to do
//@|     r matches Slicing::Paused(k) ==> start_idx <= k < tx.outs@.len() && Self::outputs_fresh(tx, k as int, final(self).utxos@, final(utxos_delta), g),
//@|     // exactly the outputs from start_idx up to the pause (or all of them) have been inserted into the set
//@|     final(self).utxos@ == apply_outs(old(self).utxos@, tx, start_idx as int, (match r { Slicing::Paused(k) => k as int, Slicing::Done(_) => if tx.outs@.len() >= start_idx { tx.outs@.len() as int } else { start_idx as int } }), old(self).next_height),
//@ loop 1 binder=it
//@| invariant
//@|     vp_vout == it.index@, tx.outs@.len() < 0x1_0000_0000,
//@|     utxos_delta.wf(), view_ok(self.utxos@, utxos_delta, g, self.network), index_ok(self.utxos@, self.address_utxos.m@, self.network),
//@|     self.network == old(self).network, self.next_height == old(self).next_height, self.ingesting_block == old(self).ingesting_block,
//@|     Self::outputs_fresh(tx, if it.index@ >= start_idx { it.index@ as int } else { start_idx as int }, self.utxos@, utxos_delta, g),
//@|     frame_ok(tx, old(self).utxos@, old(utxos_delta), self.utxos@, utxos_delta, g),
//@|     self.utxos@ == apply_outs(old(self).utxos@, tx, start_idx as int, if it.index@ >= start_idx { it.index@ as int } else { start_idx as int }, old(self).next_height),
//@end

// mode=refuse: "Outpoint not found" / "not found in the index" / "must exist in the balances map" end the message (the block is not
// transaction-valid or the three stable maps disagree: outside the domain); R10 `.unwrap_or_else(|| { refuse })` => match
//@extract file=canister/src/utxo_set.rs in="impl UtxoSet" item="fn remove_inputs" props=C08 mode=refuse
//@ ret r
//@ sigrewrite R9 "utxos_delta: &mut UtxosDelta,\s*\)" => "utxos_delta: &mut UtxosDelta,\n        Ghost(g): Ghost<UMap>,\n    )"
//@ rewrite R4 "for \(input_idx, input\) in tx\.input\(\)\.iter\(\)\.enumerate\(\)\.skip\(start_idx\) \{" => "let mut vp_idx: usize = 0;\n        for input in tx.input().iter() {\n            let input_idx = vp_idx;\n            vp_idx = vp_idx + 1;\n            if input_idx < start_idx { continue; }"
//@ rewrite R7 "\(self\.should_time_slice\)\(\)" => "vp_should_time_slice()"
//@ rewrite R9 "let outpoint = \(&input\.previous_output\)\.into\(\);" => "let outpoint: OutPoint = (&input.previous_output).into();\n            proof { assert(*input == tx.ins@[input_idx as int]); assert(!utxos_delta.all_removed_outpoints@.contains(op_of(tx.ins@[input_idx as int].previous_output))); }\n            let ghost u0 = self.utxos@; let ghost d0 = *utxos_delta;"
//@ rewrite R3 "Script::from_bytes\(" => "vp_script_from_bytes("
//@ rewrite R3 "Blob::try_from\(address_utxo\.to_bytes\(\)\.as_ref\(\)\)\.unwrap\(\)" => "vp_index_key(address_utxo)"
//@ rewrite R5 "vp_assert\(" => "vp_refuse_unless("
//@ rewrite R10 "self\.balances\.get\(&address\)\.unwrap_or_else\(\|\| \{\s*vp_refuse\(\);?\s*\}\)" => "match self.balances.get(&address) { Some(vp_b) => vp_b, None => vp_refuse() }"
//@ rewrite R9 "match address_balance - txout\.value \{" => "// a balance below the value of one of its own outputs: the stable maps disagree (outside the domain)\n                            vp_refuse_unless(address_balance >= txout.value);\n                            match address_balance - txout.value {"
//@ rewrite R9 "(None => \{\s*vp_refuse\(\);\s*\}\s*\})" => "\1\n            proof { lemma_remove_input_step(self, old(self), utxos_delta, old(utxos_delta), tx, input_idx as int, u0, &d0, g); }"
//@ r24
//@ spec
//@| requires
//@|     old(utxos_delta).wf(), view_ok(old(self).utxos@, old(utxos_delta), g, old(self).network), index_ok(old(self).utxos@, old(self).address_utxos.m@, old(self).network),
//@|     !tx.cb ==> Self::inputs_unspent(tx, start_idx as int, old(utxos_delta)),
//@|     tx.ins@.len() < 0x1_0000_0000,
//@|     forall|i: int| 0 <= i < tx.ins@.len() ==> (#[trigger] op_of(tx.ins@[i].previous_output)).txid != tx.id,
//@| ensures
//@|     frame_ok(tx, old(self).utxos@, old(utxos_delta), final(self).utxos@, final(utxos_delta), g),
//@|     // the transaction's own outputs are not touched by the removal of its inputs
//@|     forall|o: OutPoint| o.txid == tx.id ==> #[trigger] touched(o, final(self).utxos@, final(utxos_delta), g) == touched(o, old(self).utxos@, old(utxos_delta), g),
//@|     final(utxos_delta).wf(), view_ok(final(self).utxos@, final(utxos_delta), g, final(self).network), index_ok(final(self).utxos@, final(self).address_utxos.m@, final(self).network),
//@|     final(self).network == old(self).network, final(self).next_height == old(self).next_height, final(self).ingesting_block == old(self).ingesting_block,
//@|     r matches Slicing::Paused(k) ==> start_idx <= k < tx.ins@.len() && Self::inputs_unspent(tx, k as int, final(utxos_delta)),
//@|     // exactly the inputs from start_idx up to the pause (or all of them) have been removed from the set
//@|     final(self).utxos@ == ins_applied(old(self).utxos@, tx, start_idx as int, (match r { Slicing::Paused(k) => k as int, Slicing::Done(_) => if tx.ins@.len() >= start_idx { tx.ins@.len() as int } else { start_idx as int } })),
//@ loop 1 binder=it
//@| invariant
//@|     vp_idx == it.index@, tx.ins@.len() < 0x1_0000_0000,
//@|     forall|i: int| 0 <= i < tx.ins@.len() ==> (#[trigger] op_of(tx.ins@[i].previous_output)).txid != tx.id,
//@|     forall|o: OutPoint| o.txid == tx.id ==> #[trigger] touched(o, self.utxos@, utxos_delta, g) == touched(o, old(self).utxos@, old(utxos_delta), g),
//@|     frame_ok(tx, old(self).utxos@, old(utxos_delta), self.utxos@, utxos_delta, g),
//@|     !tx.cb, self.utxos@ == apply_ins(old(self).utxos@, tx, start_idx as int, if it.index@ >= start_idx { it.index@ as int } else { start_idx as int }),
//@|     utxos_delta.wf(), view_ok(self.utxos@, utxos_delta, g, self.network), index_ok(self.utxos@, self.address_utxos.m@, self.network),
//@|     self.network == old(self).network, self.next_height == old(self).next_height, self.ingesting_block == old(self).ingesting_block,
//@|     Self::inputs_unspent(tx, if it.index@ >= start_idx { it.index@ as int } else { start_idx as int }, utxos_delta),
//@end

//@extract file=canister/src/utxo_set.rs in="impl UtxoSet" item="fn ingest_tx_with_slicing" props=C08
//@ ret r
//@ sigrewrite R9 "stats: &mut BlockIngestionStats,\s*\)" => "stats: &mut BlockIngestionStats,\n        Ghost(g): Ghost<UMap>,\n    )"
//@ rewrite R1 "stats\.\w+ \+= performance_counter\(\) - ins_start;" => "/* R1: statistics removed */"
//@ rewrite R9 "self\.remove_inputs\(tx, start_input_idx, utxos_delta\)" => "self.remove_inputs(tx, start_input_idx, utxos_delta, Ghost(g))"
//@ rewrite R9 "self\.insert_outputs\(tx, start_output_idx, utxos_delta, stats\)" => "self.insert_outputs(tx, start_output_idx, utxos_delta, stats, Ghost(g))"
//@ spec
//@| requires
//@|     old(utxos_delta).wf(), view_ok(old(self).utxos@, old(utxos_delta), g, old(self).network), index_ok(old(self).utxos@, old(self).address_utxos.m@, old(self).network),
//@|     tx.ins@.len() < 0x1_0000_0000, tx.outs@.len() < 0x1_0000_0000,
//@|     tx_domain(tx, start_input_idx as int, start_output_idx as int, old(self).utxos@, old(utxos_delta), g),
//@|     // outputs are only begun once all inputs are done
//@|     start_output_idx > 0 ==> start_input_idx >= tx.ins@.len(),
//@|     start_input_idx <= tx.ins@.len(), start_output_idx <= tx.outs@.len(),
//@| ensures
//@|     // exactly the work between the start position and the pause position (or the end) has been done
//@|     final(self).utxos@ == (match r {
//@|         Slicing::Paused(p) => apply_outs(ins_applied(old(self).utxos@, tx, start_input_idx as int, p.0 as int), tx, start_output_idx as int, p.1 as int, old(self).next_height),
//@|         Slicing::Done(_) => apply_outs(ins_applied(old(self).utxos@, tx, start_input_idx as int, tx.ins@.len() as int), tx, start_output_idx as int, tx.outs@.len() as int, old(self).next_height),
//@|     }),
//@|     r matches Slicing::Paused(p) ==> p.0 >= start_input_idx && p.1 >= start_output_idx,
//@|     final(utxos_delta).wf(), view_ok(final(self).utxos@, final(utxos_delta), g, final(self).network), index_ok(final(self).utxos@, final(self).address_utxos.m@, final(self).network),
//@|     final(self).network == old(self).network, final(self).next_height == old(self).next_height, final(self).ingesting_block == old(self).ingesting_block,
//@|     frame_ok(tx, old(self).utxos@, old(utxos_delta), final(self).utxos@, final(utxos_delta), g),
//@|     // a pause names the position to resume from, and the rest of the transaction is still in the domain there
//@|     r matches Slicing::Paused(p) ==> p.0 <= tx.ins@.len() && p.1 <= tx.outs@.len() && (p.1 > 0 ==> p.0 >= tx.ins@.len())
//@|         && tx_domain(tx, p.0 as int, p.1 as int, final(self).utxos@, final(utxos_delta), g),
//@end

// the START of an ingestion: position (0, 0, 0), empty delta — paused_ok holds trivially there (g is the set as it is now), and the first
// round already runs under the same contract as every later one
//@extract file=canister/src/utxo_set.rs in="impl UtxoSet" item="fn ingest_block" props=C08
//@ ret r
//@ sigrewrite R9 "block: Block\)" => "block: Block, Ghost(g): Ghost<UMap>)"
//@ rewrite R9 "self\.ingest_block_continue\(\)" => "self.ingest_block_continue(Ghost(g))"
//@ spec
//@| requires
//@|     old(self).ingesting_block is None, g == old(self).utxos@, old(self).next_height < u32::MAX,
//@|     block_static(&block), block_domain(&block, 0, 0, 0, old(self).utxos@, &delta_default_spec(), g),
//@|     index_ok(old(self).utxos@, old(self).address_utxos.m@, old(self).network),
//@| ensures
//@|     index_ok(final(self).utxos@, final(self).address_utxos.m@, final(self).network),
//@|     r matches Slicing::Paused(_) ==> final(self).ingesting_block is Some && paused_ok(final(self), g) && final(self).next_height == old(self).next_height,
//@|     r matches Slicing::Done(_) ==> final(self).ingesting_block is None && final(self).next_height == old(self).next_height + 1
//@|         && final(self).utxos@ == apply_txs(g, block.txs@, block.txs@.len() as int, old(self).next_height),
//@ before "self.ingest_block_continue(Ghost(g))"
//@| proof { axiom_delta_default(); }
//@end

// the ENTRY of every round: resumes at the stored position; at a pause it stores the position to resume from
//@extract file=canister/src/utxo_set.rs in="impl UtxoSet" item="fn ingest_block_continue" props=C08
//@ ret r
//@ sigrewrite R9 "&mut self,\s*\)" => "&mut self,\n        Ghost(g): Ghost<UMap>,\n    )"
//@ rewrite R1 "stats\.num_rounds \+= 1;" => "/* R1: statistics removed */"
//@ rewrite R1 "stats\.ins_total \+= performance_counter\(\) - ins_start;" => "/* R1: statistics removed */"
//@ rewrite R4 "for \(tx_idx, tx\) in block\.txdata\(\)\.iter\(\)\.enumerate\(\)\.skip\(next_tx_idx\) \{" => "let mut vp_tx_idx: usize = 0;\n        for tx in block.txdata().iter() {\n            let tx_idx = vp_tx_idx;\n            vp_tx_idx = vp_tx_idx + 1;\n            if tx_idx < next_tx_idx { continue; }\n            proof { assert(*tx == block.txs@[tx_idx as int]); }\n            let ghost u0 = self.utxos@; let ghost d0 = utxos_delta; let ghost si0 = next_input_idx as int; let ghost so0 = next_output_idx as int;"
//@ rewrite R9 "(&mut utxos_delta,\s*&mut stats,)\s*\) \{" => "\1\n                Ghost(g),\n            ) {\n                proof { lemma_domain_step(&block, tx_idx as int, u0, &d0, self.utxos@, &utxos_delta, g);\n                    lemma_progress_step(g, &block, tx_idx as int, si0, so0, next_input_idx as int, next_output_idx as int, self.next_height); }"
//@ rewrite R9 "(// Current transaction was processed in full\.)" => "proof { lemma_domain_step(&block, tx_idx as int, u0, &d0, self.utxos@, &utxos_delta, g);\n                lemma_progress_step(g, &block, tx_idx as int, si0, so0, tx.ins@.len() as int, tx.outs@.len() as int, self.next_height); }\n            \1"
//@ r24
//@ spec
//@| requires paused_ok(old(self), g), old(self).next_height < u32::MAX,
//@| ensures
//@|     r is Some <==> old(self).ingesting_block is Some,
//@|     old(self).ingesting_block is Some ==> index_ok(final(self).utxos@, final(self).address_utxos.m@, final(self).network),
//@|     // at EVERY pause the readers' view is the one from before the ingestion began, and the stored position is exact ...
//@|     r matches Some(Slicing::Paused(_)) ==> final(self).ingesting_block is Some && paused_ok(final(self), g)
//@|         && final(self).next_height == old(self).next_height,
//@|     // ... and when the block is done the set is g with the WHOLE block applied: a function of g and the block only, whatever the schedule was
//@|     r matches Some(Slicing::Done(_)) ==> final(self).ingesting_block is None && final(self).next_height == old(self).next_height + 1
//@|         && (old(self).ingesting_block matches Some(ib) ==> final(self).utxos@ == apply_txs(g, ib.block.txs@, ib.block.txs@.len() as int, old(self).next_height)),
//@ loop 1 binder=it
//@| invariant
//@|     vp_tx_idx == it.index@, self.ingesting_block is None, self.next_height == old(self).next_height,
//@|     block_static(&block), utxos_delta.wf(), view_ok(self.utxos@, &utxos_delta, g, self.network), index_ok(self.utxos@, self.address_utxos.m@, self.network),
//@|     block_domain(&block, if it.index@ >= next_tx_idx { it.index@ as int } else { next_tx_idx as int }, next_input_idx as int, next_output_idx as int, self.utxos@, &utxos_delta, g),
//@|     it.index@ > next_tx_idx ==> next_input_idx == 0 && next_output_idx == 0,
//@|     self.utxos@ == progress(g, &block, if it.index@ >= next_tx_idx { it.index@ as int } else { next_tx_idx as int }, next_input_idx as int, next_output_idx as int, self.next_height),
//@|     (if it.index@ >= next_tx_idx { it.index@ as int } else { next_tx_idx as int }) < block.txs@.len() ==> next_input_idx <= block.txs@[if it.index@ >= next_tx_idx { it.index@ as int } else { next_tx_idx as int }].ins@.len() && next_output_idx <= block.txs@[if it.index@ >= next_tx_idx { it.index@ as int } else { next_tx_idx as int }].outs@.len(),
//@|     old(self).ingesting_block matches Some(ib) && ib.block == block,
//@end
}

proof fn vp_canary_axioms()
    ensures false,
{}

} // verus!
fn main() {}
