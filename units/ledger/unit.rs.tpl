//@unit name=ledger
// Unit ledger: canister/src/unstable_blocks/outpoints_cache.rs — the reference-counted transaction outputs and the per-block
// address deltas of the unstable blocks (C20; feeds C15 and C01/C05). The REAL insert_outpoints, OutPointsCache::remove (with its
// nested fn) and the three getters are verified against `refs_block` (how often a block references an outpoint, written from the
// statement: once per spending input, once per created output); the history lemmas at the end lift the two contracts to
// "after ANY sequence of insertions and removals the counts are exact: nothing leaks, nothing dangles".
#![feature(allocator_api)]
use vstd::prelude::*;
use std::collections::BTreeMap;
use vstd::std_specs::cmp::{PartialEqSpec, OrdSpec, PartialOrdSpec};
use core::cmp::Ordering;
verus! {

type Height = u32;
type MillisatoshiPerByte = u64;
// [trusted:stand-in] types of ic_btc_types / bitcoin / canister::types with the fields and methods the extracted code uses -------------------------------------------------------------------------------------------------
#[derive(PartialEq, Eq, PartialOrd, Ord, Clone, Copy, Structural, Debug)]
pub struct BlockHash(pub u64);
#[derive(PartialEq, Eq, PartialOrd, Ord, Clone, Copy, Structural, Debug)]
pub struct Txid(pub u64);
#[derive(PartialEq, Eq, PartialOrd, Ord, Structural, Debug)]
pub struct OutPoint { pub txid: Txid, pub vout: u32 }
impl Clone for OutPoint { fn clone(&self) -> (r: Self) ensures r == *self { OutPoint { txid: self.txid, vout: self.vout } } }
pub struct TxOut { pub value: u64, pub script_pubkey: Vec<u8> }
impl Clone for TxOut { #[verifier::external_body] fn clone(&self) -> (r: Self) ensures r == *self { unimplemented!() } }
#[derive(PartialEq, Eq, PartialOrd, Ord, Clone, Copy, Structural, Debug)]
pub struct Address { pub id: u64 }
#[derive(PartialEq, Eq, Clone, Copy, Structural)]
pub enum Network { Mainnet, Testnet, Regtest }
pub struct Script { pub id: u64 }
pub struct AddrError { pub c: u8 }
pub uninterp spec fn address_of_script(bytes: Seq<u8>, n: Network) -> Option<Address>;
impl Script { pub uninterp spec fn bytes(&self) -> Seq<u8>; }
mod bitcoin { pub(crate) struct ScriptNs; }
impl Address {
    #[verifier::external_body]
    fn from_script(s: &Script, n: Network) -> (r: Result<Address, AddrError>)
        ensures r is Ok <==> address_of_script(s.bytes(), n) is Some, r matches Ok(a) ==> Some(a) == address_of_script(s.bytes(), n)
    { unimplemented!() }
}
#[verifier::external_body]
fn vp_script_from_bytes(b: &Vec<u8>) -> (r: &Script) ensures r.bytes() == b@ { unimplemented!() }
#[derive(PartialEq, Eq, Clone, Copy, Structural)]
pub struct BitcoinOutPoint { pub txid: u64, pub vout: u32 }
impl BitcoinOutPoint {
    pub open spec fn is_null_spec(&self) -> bool { self.txid == 0 && self.vout == u32::MAX }
    #[verifier::external_body]
    fn is_null(&self) -> (r: bool) ensures r == self.is_null_spec() { unimplemented!() }
}
pub open spec fn op_of(b: BitcoinOutPoint) -> OutPoint { OutPoint { txid: Txid(b.txid), vout: b.vout } }
impl From<&BitcoinOutPoint> for OutPoint {
    #[verifier::external_body]
    fn from(b: &BitcoinOutPoint) -> (r: OutPoint) ensures r == op_of(*b) { unimplemented!() }
}
impl vstd::std_specs::convert::FromSpecImpl<&BitcoinOutPoint> for OutPoint {
    open spec fn obeys_from_spec() -> bool { true }
    open spec fn from_spec(b: &BitcoinOutPoint) -> OutPoint { op_of(*b) }
}
pub struct TxIn { pub previous_output: BitcoinOutPoint }
pub struct Amount { pub sat: u64 }
impl Amount { fn to_sat(&self) -> (r: u64) ensures r == self.sat { self.sat } }
pub struct BitcoinTxOut { pub value: Amount, pub script_pubkey: Script }
pub uninterp spec fn txout_of(o: BitcoinTxOut) -> TxOut;
impl From<&BitcoinTxOut> for TxOut {
    #[verifier::external_body]
    fn from(b: &BitcoinTxOut) -> (r: TxOut) ensures r == txout_of(*b), r.value == b.value.sat { unimplemented!() }
}
impl vstd::std_specs::convert::FromSpecImpl<&BitcoinTxOut> for TxOut {
    open spec fn obeys_from_spec() -> bool { true }
    open spec fn from_spec(b: &BitcoinTxOut) -> TxOut { txout_of(*b) }
}
pub struct Transaction { pub ins: Vec<TxIn>, pub outs: Vec<BitcoinTxOut>, pub id: Txid, pub cb: bool, pub vs: usize }
impl Transaction {
    fn input(&self) -> (r: &[TxIn]) ensures r@ == self.ins@ { self.ins.as_slice() }
    fn output(&self) -> (r: &[BitcoinTxOut]) ensures r@ == self.outs@ { self.outs.as_slice() }
    fn is_coinbase(&self) -> (r: bool) ensures r == self.cb { self.cb }
    fn txid(&self) -> (r: Txid) ensures r == self.id { self.id }
    fn vsize(&self) -> (r: usize) ensures r == self.vs { self.vs }
}
pub struct Block { pub txs: Vec<Transaction>, pub hash: BlockHash }
impl Block {
    fn txdata(&self) -> (r: &[Transaction]) ensures r@ == self.txs@ { self.txs.as_slice() }
    fn block_hash(&self) -> (r: &BlockHash) ensures *r == self.hash { &self.hash }
}
pub struct UtxoSet { pub network: Network, pub id: u64 }
pub uninterp spec fn stable_utxo_spec(u: &UtxoSet, o: OutPoint) -> Option<(TxOut, Height)>;
impl UtxoSet {
    #[verifier::external_body]
    fn get_utxo(&self, outpoint: &OutPoint) -> (r: Option<(TxOut, Height)>) ensures r == stable_utxo_spec(self, *outpoint) { unimplemented!() }
    fn network(&self) -> (r: Network) ensures r == self.network { self.network }
}
pub struct BlockMetrics { pub fee_rates: Vec<MillisatoshiPerByte>, pub utxo_delta: i64 }
pub uninterp spec fn fee_rate_spec(fee: u64, vsize: usize) -> Option<u64>;
#[verifier::external_body]
fn fee_rate_per_vbyte(fee_satoshi: u64, vsize: usize) -> (r: Option<MillisatoshiPerByte>) ensures r == fee_rate_spec(fee_satoshi, vsize) { unimplemented!() }

#[verifier::external_body]
proof fn axiom_opc_keys() ensures opc_keys_ok() {}
spec fn opc_keys_ok() -> bool {
    &&& vstd::laws_cmp::obeys_cmp::<BlockHash>() &&& vstd::laws_cmp::obeys_cmp::<OutPoint>() &&& vstd::laws_cmp::obeys_cmp::<Address>()
}
// [trusted:assumed-spec] Entry::or_insert: R21 `m.entry(k).or_insert(d)` => `vp_entry_or_insert(&mut m, k, d)`
#[verifier::external_body]
fn vp_entry_or_insert<'a, K: Ord, V>(m: &'a mut BTreeMap<K, V>, k: K, d: V) -> (r: &'a mut V)
    ensures
        *r == (if old(m)@.contains_key(k) { old(m)@[k] } else { d }),
        final(m)@ == old(m)@.insert(k, *final(r)),
{ m.entry(k).or_insert(d) }
// [trusted:assumed-spec] BTreeMap::pop_first: removes and returns the entry with the least key (R25: `for (k, v) in m` by value => `while let Some((k, v)) = m.pop_first()`)
pub assume_specification<K: Ord, V, A: std::alloc::Allocator + Clone>[std::collections::BTreeMap::<K, V, A>::pop_first](m: &mut BTreeMap<K, V, A>) -> (r: Option<(K, V)>)
    ensures
        vstd::laws_cmp::obeys_cmp::<K>() ==> {
            &&& r is None <==> old(m)@.dom() =~= Set::<K>::empty()
            &&& r is None ==> final(m)@ == old(m)@
            &&& r matches Some(p) ==> old(m)@.contains_key(p.0) && old(m)@[p.0] == p.1 && final(m)@ == old(m)@.remove(p.0)
        };

// R6: panic!(..) in no-trap mode: a proof obligation that the call site is unreachable
#[verifier::external_body]
fn vp_trap() -> !
    requires false,
{ panic!() }
fn vp_assert(b: bool)
    requires b,
{}
// [trusted:assumed-spec] `xs.iter().map(|o| o.value.to_sat()).sum()` (Iterator::sum of the output values): an opaque total
#[verifier::external_body]
fn vp_output_sum(outs: &[BitcoinTxOut]) -> (r: u64) { unimplemented!() }
mod crate_types { }
// ---- specs (C20) ---------------------------------------------------------------------------------------------------
// how often the first n inputs reference outpoint o (null inputs — the coinbase marker — reference nothing)
spec fn refs_ins(ins: Seq<TxIn>, n: int, o: OutPoint) -> int
    decreases n
{
    if n <= 0 { 0 } else { refs_ins(ins, n - 1, o) + (if !ins[n - 1].previous_output.is_null_spec() && op_of(ins[n - 1].previous_output) == o { 1int } else { 0int }) }
}
// whether o is one of the first n outputs of tx
spec fn refs_outs(tx: Transaction, n: int, o: OutPoint) -> int {
    if o.txid == tx.id && (o.vout as int) < n { 1 } else { 0 }
}
spec fn refs_tx(tx: Transaction, o: OutPoint) -> int { refs_ins(tx.ins@, tx.ins@.len() as int, o) + refs_outs(tx, tx.outs@.len() as int, o) }
// how often the first n transactions of a block reference o (as a spent input or as a created output)
spec fn refs_txs(txs: Seq<Transaction>, n: int, o: OutPoint) -> int
    decreases n
{
    if n <= 0 { 0 } else { refs_txs(txs, n - 1, o) + refs_tx(txs[n - 1], o) }
}
// C01/C05/C20: the outpoints a block ADDS to address a — its outputs whose script is that address's, in block order (transaction order, then vout)
spec fn outs_for(tx: Transaction, k: int, n: Network, a: Address) -> Seq<OutPoint>
    decreases k
{
    if k <= 0 { Seq::empty() } else {
        outs_for(tx, k - 1, n, a) + (if address_of_script(tx.outs@[k - 1].script_pubkey.bytes(), n) == Some(a) { seq![OutPoint { txid: tx.id, vout: (k - 1) as u32 }] } else { Seq::<OutPoint>::empty() })
    }
}
spec fn added_for(txs: Seq<Transaction>, t: int, n: Network, a: Address) -> Seq<OutPoint>
    decreases t
{
    if t <= 0 { Seq::empty() } else { added_for(txs, t - 1, n, a) + outs_for(txs[t - 1], txs[t - 1].outs@.len() as int, n, a) }
}
// C01/C05/C20: what a block may REMOVE from an address — every outpoint listed is the previous output of a non-null input of the block
// (how often the inputs of the first n transactions reference o)
spec fn ins_refs_txs(txs: Seq<Transaction>, n: int, o: OutPoint) -> int
    decreases n
{
    if n <= 0 { 0 } else { ins_refs_txs(txs, n - 1, o) + refs_ins(txs[n - 1].ins@, txs[n - 1].ins@.len() as int, o) }
}
spec fn spent_by(txs: Seq<Transaction>, t: int, ins: Seq<TxIn>, k: int, o: OutPoint) -> bool { ins_refs_txs(txs, t, o) + refs_ins(ins, k, o) >= 1 }
spec fn all_spent(s: Seq<OutPoint>, txs: Seq<Transaction>, t: int, ins: Seq<TxIn>, k: int) -> bool {
    forall|j: int| 0 <= j < s.len() ==> spent_by(txs, t, ins, k, #[trigger] s[j])
}
proof fn lemma_ins_refs_nonneg(txs: Seq<Transaction>, n: int, o: OutPoint)
    ensures ins_refs_txs(txs, n, o) >= 0,
    decreases n
{ if n > 0 { lemma_ins_refs_nonneg(txs, n - 1, o); lemma_refs_ins_nonneg(txs[n - 1].ins@, txs[n - 1].ins@.len() as int, o); } }
// the list a per-address map holds for a (empty if the address is unknown)
spec fn lst(m: Map<Address, Vec<OutPoint>>, a: Address) -> Seq<OutPoint> { if m.contains_key(a) { m[a]@ } else { Seq::empty() } }
// the number of non-coinbase transactions among the first n
spec fn non_coinbase(txs: Seq<Transaction>, n: int) -> int
    decreases n
{
    if n <= 0 { 0 } else { non_coinbase(txs, n - 1) + (if txs[n - 1].cb { 0int } else { 1int }) }
}
spec fn refs_block(b: Block, o: OutPoint) -> int { refs_txs(b.txs@, b.txs@.len() as int, o) }
spec fn cnt(m: Map<OutPoint, TxOutInfo>, o: OutPoint) -> int { if m.contains_key(o) { m[o].count as int } else { 0 } }
proof fn lemma_refs_ins_nonneg(ins: Seq<TxIn>, n: int, o: OutPoint)
    ensures refs_ins(ins, n, o) >= 0, n >= 1 ==> refs_ins(ins, n, o) >= refs_ins(ins, n - 1, o),
    decreases n
{ if n > 0 { lemma_refs_ins_nonneg(ins, n - 1, o); } }
proof fn lemma_refs_ins_mono(ins: Seq<TxIn>, a: int, b: int, o: OutPoint)
    requires a <= b,
    ensures refs_ins(ins, a, o) <= refs_ins(ins, b, o),
    decreases b - a
{ if a < b { lemma_refs_ins_mono(ins, a, b - 1, o); lemma_refs_ins_nonneg(ins, b, o); } }
proof fn lemma_refs_txs_mono(txs: Seq<Transaction>, a: int, b: int, o: OutPoint)
    requires a <= b,
    ensures 0 <= refs_txs(txs, a, o) <= refs_txs(txs, b, o),
    decreases b
{
    if b <= 0 { } else if a < b {
        lemma_refs_txs_mono(txs, a, b - 1, o);
        lemma_refs_ins_nonneg(txs[b - 1].ins@, txs[b - 1].ins@.len() as int, o);
    } else { if a > 0 { lemma_refs_txs_mono(txs, a - 1, a - 1, o); lemma_refs_ins_nonneg(txs[a - 1].ins@, txs[a - 1].ins@.len() as int, o); } }
}


// the count collected so far for o never exceeds what the whole block references
proof fn lemma_bound(block: &Block, t: int, n: int, o: OutPoint)
    requires 0 <= t < block.txs@.len(), 0 <= n <= block.txs@[t].ins@.len(),
    ensures refs_txs(block.txs@, t, o) + refs_ins(block.txs@[t].ins@, n, o) <= refs_block(*block, o),
{
    lemma_refs_ins_mono(block.txs@[t].ins@, n, block.txs@[t].ins@.len() as int, o);
    lemma_refs_txs_mono(block.txs@, t + 1, block.txs@.len() as int, o);
}
proof fn lemma_bound_out(block: &Block, t: int, n: int, o: OutPoint)
    requires 0 <= t < block.txs@.len(), 0 <= n <= block.txs@[t].outs@.len(),
    ensures refs_txs(block.txs@, t, o) + refs_ins(block.txs@[t].ins@, block.txs@[t].ins@.len() as int, o) + refs_outs(block.txs@[t], n, o) <= refs_block(*block, o),
{
    lemma_refs_txs_mono(block.txs@, t + 1, block.txs@.len() as int, o);
}

//@extract file=canister/src/unstable_blocks/outpoints_cache.rs item="struct TxOutNotFound" props=C20
//@ rewrite R2? "#\[derive\(([^\]]*)\)\]" => ""
//@end
//@extract file=canister/src/unstable_blocks/outpoints_cache.rs item="struct TxOutInfo" props=C20
//@ rewrite R2? "#\[derive\(([^\]]*)\)\]" => ""
//@end
//@extract file=canister/src/unstable_blocks/outpoints_cache.rs item="struct OutPointsCache" props=C20
//@ rewrite R2? "#\[derive\(([^\]]*)\)\]" => ""
//@end

// insert_outpoints (outpoints_cache.rs:11): one reference per spending input and per created output of the block is added to the
// counts (entries are created on the first reference), the block's two address deltas are recorded under its hash; if an input's
// output cannot be found NOTHING is changed (the cache is only touched after the last lookup).
// R26 `for x in SLICE {` => `.iter()`; R24 continue elimination; R4 enumerate => counter; R10 `.ok_or_else(|| E)?` => match/return;
// R21 `m.entry(k).or_insert(d)` => vp_entry_or_insert(&mut m, k, d); R25 `for (k, v) in MAP {` (by value) => `loop { let (k, v) = match
// MAP.pop_first() { Some(kv) => kv, None => break }; ..` and `.entry(k).and_modify(|t| A).or_insert(v)` => `match m.get_mut(&k) { Some(t)
// => { A; } None => { m.insert(k, v); } }`; R3 `bitcoin::Script::from_bytes` / `Iterator::sum` / fee_rate_per_vbyte => stand-ins
//@extract file=canister/src/unstable_blocks/outpoints_cache.rs item="fn insert_outpoints" props=C20,C15,C01,C05
//@ ret r
//@ rewrite R26 "for (\w+) in (block\.txdata\(\)|tx\.input\(\)) \{" => "for \1 in \2.iter() {"
//@ rewrite R9 "let mut removed_outpoints = BTreeMap::new\(\);" => "let mut removed_outpoints: BTreeMap<Address, Vec<OutPoint>> = BTreeMap::new();"
//@ rewrite R9 "let mut added_outpoints = BTreeMap::new\(\);" => "let mut added_outpoints: BTreeMap<Address, Vec<OutPoint>> = BTreeMap::new();"
//@ rewrite R9 "let outpoint = \(&input\.previous_output\)\.into\(\);" => "let outpoint: OutPoint = (&input.previous_output).into();"
//@ rewrite R10 "None => utxos\s*\.get_utxo\(&outpoint\)\s*\.ok_or_else\(\|\| (TxOutNotFound\(outpoint\.clone\(\)\))\)\?," => "None => match utxos.get_utxo(&outpoint) { Some(vp_t) => vp_t, None => return Err(\1) },"
//@ rewrite R3 "bitcoin::Script::from_bytes\(" => "vp_script_from_bytes("
//@ rewrite R9 "input_sum \+= txout\.value;" => "// [assumption, stated] machine arithmetic: the input values of one transaction sum below 2^64\n            assume(input_sum + txout.value <= u64::MAX);\n            input_sum += txout.value;"
//@ rewrite R21 "(\b\w+)\.entry\((address)\)\.or_insert\(" => "vp_entry_or_insert(&mut \1, \2, "
//@ rewrite R21 "let entry = tx_outs\.entry\(outpoint\)\.or_insert\(" => "proof { lemma_bound(block, it.index@ as int, it2.index@ as int + 1, outpoint); }\n            let entry = vp_entry_or_insert(&mut tx_outs, outpoint, "
//@ rewrite R21 "let entry = tx_outs\.entry\(outpoint\.clone\(\)\)\.or_insert\(" => "proof { lemma_bound_out(block, it.index@ as int, i as int + 1, outpoint); }\n            let entry = vp_entry_or_insert(&mut tx_outs, outpoint.clone(), "
//@ rewrite R4 "for \(i, txout\) in tx\.output\(\)\.iter\(\)\.enumerate\(\) \{" => "let mut vp_i: usize = 0;\n        for txout in tx.output().iter() {\n            let i = vp_i;\n            vp_i = vp_i + 1;"
//@ rewrite R3 "let output_sum: u64 = tx\.output\(\)\.iter\(\)\.map\(\|o\| o\.value\.to_sat\(\)\)\.sum\(\);" => "let output_sum: u64 = vp_output_sum(tx.output());"
//@ rewrite R3 "crate::types::fee_rate_per_vbyte" => "fee_rate_per_vbyte"
//@ rewrite R25 "for \((\w+), (\w+)\) in tx_outs \{\s*cache\s*\.tx_outs\s*\.entry\(\1\)\s*\.and_modify\(\|t\| (t\.count \+= [^;]+?)\)\s*\.or_insert\(\2\);" => "let ghost local0 = tx_outs@;\n    proof {\n        assert(forall|o: OutPoint| cnt(local0, o) == #[trigger] refs_block(*block, o));\n        assert forall|o: OutPoint| cnt(old(cache).tx_outs@, o) + #[trigger] cnt(local0, o) <= u32::MAX by { assert(cnt(local0, o) == refs_block(*block, o)); }\n    }\n    loop {\n        let (\1, \2) = match tx_outs.pop_first() { Some(vp_kv) => vp_kv, None => { break; } };\n        proof { assert(cnt(old(cache).tx_outs@, \1) + cnt(local0, \1) <= u32::MAX); }\n        match cache.tx_outs.get_mut(&\1) { Some(t) => { \3; } None => { cache.tx_outs.insert(\1, \2); } }"
//@ r24
//@ spec
//@| requires
//@|     old(cache).wf(),
//@|     // [assumption, stated] ranges: reference counts fit u32, sizes below 2^28
//@|     forall|o: OutPoint| cnt(old(cache).tx_outs@, o) + #[trigger] refs_block(*block, o) <= u32::MAX,
//@|     block.txs@.len() < 0x1000_0000,
//@|     forall|t: int| 0 <= t < block.txs@.len() ==> (#[trigger] block.txs@[t]).ins@.len() < 0x1000_0000 && block.txs@[t].outs@.len() < 0x1000_0000,
//@| ensures
//@|     // atomic failure
//@|     r is Err ==> *final(cache) == *old(cache),
//@|     r is Ok ==> {
//@|         &&& final(cache).wf()
//@|         &&& r matches Ok(vp_m) && vp_m.fee_rates@.len() <= non_coinbase(block.txs@, block.txs@.len() as int)
//@|         &&& forall|o: OutPoint| cnt(final(cache).tx_outs@, o) == cnt(old(cache).tx_outs@, o) + #[trigger] refs_block(*block, o)
//@|         &&& final(cache).added_outpoints@.dom() =~= old(cache).added_outpoints@.dom().insert(block.hash)
//@|         // the delta recorded for an address lists exactly the block's outputs that pay it, in block order
//@|         &&& forall|a: Address| #[trigger] lst(final(cache).added_outpoints@[block.hash]@, a) =~= added_for(block.txs@, block.txs@.len() as int, utxos.network, a)
//@|         &&& final(cache).removed_outpoints@.dom() =~= old(cache).removed_outpoints@.dom().insert(block.hash)
//@|         // the delta removed from an address lists only outpoints that a (non-null) input of the block spends
//@|         &&& forall|a: Address| all_spent(#[trigger] lst(final(cache).removed_outpoints@[block.hash]@, a), block.txs@, block.txs@.len() as int, Seq::<TxIn>::empty(), 0)
//@|     },
//@ start
//@| proof { axiom_opc_keys(); }
//@ loop 1 binder=it
//@| invariant
//@|     opc_keys_ok(), *cache == *old(cache),
//@|     forall|o: OutPoint| cnt(tx_outs@, o) == #[trigger] refs_txs(block.txs@, it.index@ as int, o),
//@|     forall|o: OutPoint| #[trigger] tx_outs@.contains_key(o) ==> tx_outs@[o].count >= 1,
//@|     forall|o: OutPoint| cnt(old(cache).tx_outs@, o) + #[trigger] refs_block(*block, o) <= u32::MAX,
//@|     -0x1000_0000 * it.index@ <= utxo_delta <= 0x1000_0000 * it.index@,
//@|     forall|a: Address| #[trigger] lst(added_outpoints@, a) =~= added_for(block.txs@, it.index@ as int, utxos.network, a),
//@|     forall|a: Address| all_spent(#[trigger] lst(removed_outpoints@, a), block.txs@, it.index@ as int, Seq::<TxIn>::empty(), 0),
//@|     // C15: at most one fee rate per NON-coinbase transaction (a coinbase never contributes)
//@|     fee_rates@.len() <= non_coinbase(block.txs@, it.index@ as int),
//@|     block.txs@.len() < 0x1000_0000,
//@|     forall|t: int| 0 <= t < block.txs@.len() ==> (#[trigger] block.txs@[t]).ins@.len() < 0x1000_0000 && block.txs@[t].outs@.len() < 0x1000_0000,
//@ loopstart 1
//@| proof { assert(*tx == block.txs@[it.index@ as int]); }
//@ loop 2 binder=it2
//@| invariant
//@|     opc_keys_ok(), *cache == *old(cache), 0 <= it.index@ < block.txs@.len(), *tx == block.txs@[it.index@ as int],
//@|     forall|a: Address| #[trigger] lst(added_outpoints@, a) =~= added_for(block.txs@, it.index@ as int, utxos.network, a),
//@|     forall|o: OutPoint| cnt(tx_outs@, o) == #[trigger] refs_txs(block.txs@, it.index@ as int, o) + refs_ins(tx.ins@, it2.index@ as int, o),
//@|     forall|a: Address| all_spent(#[trigger] lst(removed_outpoints@, a), block.txs@, it.index@ as int, tx.ins@, it2.index@ as int),
//@|     forall|o: OutPoint| #[trigger] tx_outs@.contains_key(o) ==> tx_outs@[o].count >= 1,
//@|     forall|o: OutPoint| cnt(old(cache).tx_outs@, o) + #[trigger] refs_block(*block, o) <= u32::MAX,
//@ loopstart 2
//@| proof { assert(*input == tx.ins@[it2.index@ as int]); }
//@| let ghost vp_rb = removed_outpoints@;
//@ loopbodyend 2
//@| proof {
//@|     assert forall|a: Address| all_spent(#[trigger] lst(removed_outpoints@, a), block.txs@, it.index@ as int, tx.ins@, it2.index@ as int + 1) by {
//@|         assert(all_spent(lst(vp_rb, a), block.txs@, it.index@ as int, tx.ins@, it2.index@ as int));
//@|         assert forall|j: int| 0 <= j < lst(removed_outpoints@, a).len() implies spent_by(block.txs@, it.index@ as int, tx.ins@, it2.index@ as int + 1, #[trigger] lst(removed_outpoints@, a)[j]) by {
//@|             let o = lst(removed_outpoints@, a)[j];
//@|             lemma_refs_ins_nonneg(tx.ins@, it2.index@ as int + 1, o);
//@|             lemma_refs_ins_nonneg(tx.ins@, it2.index@ as int, o);
//@|             lemma_ins_refs_nonneg(block.txs@, it.index@ as int, o);
//@|             if j < lst(vp_rb, a).len() { assert(lst(vp_rb, a)[j] == o); }
//@|         }
//@|     }
//@| }
//@ loopend 2
//@| proof {
//@|     assert forall|a: Address| all_spent(#[trigger] lst(removed_outpoints@, a), block.txs@, it.index@ as int + 1, Seq::<TxIn>::empty(), 0) by {
//@|         assert(all_spent(lst(removed_outpoints@, a), block.txs@, it.index@ as int, tx.ins@, tx.ins@.len() as int));
//@|     }
//@| }
//@ loop 3 binder=it3
//@| invariant
//@|     opc_keys_ok(), *cache == *old(cache), 0 <= it.index@ < block.txs@.len(), *tx == block.txs@[it.index@ as int],
//@|     vp_i == it3.index@, tx.outs@.len() < 0x1000_0000,
//@|     forall|a: Address| all_spent(#[trigger] lst(removed_outpoints@, a), block.txs@, it.index@ as int + 1, Seq::<TxIn>::empty(), 0),
//@|     forall|a: Address| #[trigger] lst(added_outpoints@, a) =~= added_for(block.txs@, it.index@ as int, utxos.network, a) + outs_for(*tx, it3.index@ as int, utxos.network, a),
//@|     forall|o: OutPoint| cnt(tx_outs@, o) == #[trigger] refs_txs(block.txs@, it.index@ as int, o) + refs_ins(tx.ins@, tx.ins@.len() as int, o) + refs_outs(*tx, it3.index@ as int, o),
//@|     forall|o: OutPoint| #[trigger] tx_outs@.contains_key(o) ==> tx_outs@[o].count >= 1,
//@|     forall|o: OutPoint| cnt(old(cache).tx_outs@, o) + #[trigger] refs_block(*block, o) <= u32::MAX,
//@ loopstart 3
//@| proof { assert(*txout == tx.outs@[it3.index@ as int]); }
//@| let ghost vp_ab = added_outpoints@;
//@ loopbodyend 3
//@| proof {
//@|     assert forall|a: Address| #[trigger] lst(added_outpoints@, a) =~= added_for(block.txs@, it.index@ as int, utxos.network, a) + outs_for(*tx, it3.index@ as int + 1, utxos.network, a) by {
//@|         assert(lst(vp_ab, a) =~= added_for(block.txs@, it.index@ as int, utxos.network, a) + outs_for(*tx, it3.index@ as int, utxos.network, a));
//@|     }
//@| }
//@ loopend 3
//@| proof {
//@|     assert forall|a: Address| #[trigger] lst(added_outpoints@, a) =~= added_for(block.txs@, it.index@ as int + 1, utxos.network, a) by {
//@|         assert(lst(added_outpoints@, a) =~= added_for(block.txs@, it.index@ as int, utxos.network, a) + outs_for(*tx, tx.outs@.len() as int, utxos.network, a));
//@|     }
//@|     // (the fee-rate computation that follows does not touch the counts)
//@|     assert forall|o: OutPoint| cnt(tx_outs@, o) == #[trigger] refs_txs(block.txs@, it.index@ as int + 1, o) by {
//@|         assert(cnt(tx_outs@, o) == refs_txs(block.txs@, it.index@ as int, o) + refs_ins(tx.ins@, tx.ins@.len() as int, o) + refs_outs(*tx, tx.outs@.len() as int, o));
//@|     }
//@| }
//@ loop 4
//@| invariant
//@|     opc_keys_ok(),
//@|     cache.added_outpoints == old(cache).added_outpoints, cache.removed_outpoints == old(cache).removed_outpoints,
//@|     forall|o: OutPoint| cnt(cache.tx_outs@, o) + cnt(tx_outs@, o) == cnt(old(cache).tx_outs@, o) + #[trigger] cnt(local0, o),
//@|     forall|o: OutPoint| #[trigger] tx_outs@.contains_key(o) ==> tx_outs@[o].count >= 1,
//@|     forall|o: OutPoint| #[trigger] cache.tx_outs@.contains_key(o) ==> cache.tx_outs@[o].count >= 1,
//@|     forall|o: OutPoint| cnt(old(cache).tx_outs@, o) + #[trigger] cnt(local0, o) <= u32::MAX,
//@| ensures tx_outs@.dom() =~= Set::<OutPoint>::empty(),
//@| decreases tx_outs@.dom().len()
//@end

impl OutPointsCache {
    // representation invariant: no entry without a reference
    spec fn wf(&self) -> bool { forall|o: OutPoint| #[trigger] self.tx_outs@.contains_key(o) ==> self.tx_outs@[o].count >= 1 }

// R17: `o.map(|x| e)` => `match o { Some(x) => Some(e), None => None }`
//@extract file=canister/src/unstable_blocks/outpoints_cache.rs in="impl OutPointsCache" item="fn get_tx_out" props=C20,C15,C01,C05
//@ ret r
//@ rewrite R17 "self\.tx_outs\s*\.get\(outpoint\)\s*\.map\(\|(\w+)\| (\(.*?\))\)\s*\}" => "match self.tx_outs.get(outpoint) { Some(\1) => Some(\2), None => None }\n    }"
//@ spec
//@| ensures
//@|     r is Some <==> self.tx_outs@.contains_key(*outpoint),
//@|     r matches Some(p) ==> *p.0 == self.tx_outs@[*outpoint].txout && p.1 == self.tx_outs@[*outpoint].height,
//@ start
//@| proof { axiom_opc_keys(); }
//@end

// the outpoints a block adds to / removes from an address: the cached list, empty if the block or the address is unknown
//@extract file=canister/src/unstable_blocks/outpoints_cache.rs in="impl OutPointsCache" item="fn get_added_outpoints" props=C20,C01,C05
//@ ret r
//@ rewrite R17 "self\.added_outpoints\s*\.get\(block_hash\)\s*\.map\(\|address_utxos\| \{\s*address_utxos\s*\.get\(address\)\s*\.map\(\|outpoints\| outpoints\.as_slice\(\)\)\s*\.unwrap_or\(&\[\]\)\s*\}\)\s*\.unwrap_or\(&\[\]\)" => "match self.added_outpoints.get(block_hash) { Some(address_utxos) => match address_utxos.get(address) { Some(outpoints) => outpoints.as_slice(), None => &[] }, None => &[] }"
//@ spec
//@| ensures r@ == (if self.added_outpoints@.contains_key(*block_hash) && self.added_outpoints@[*block_hash]@.contains_key(*address) { self.added_outpoints@[*block_hash]@[*address]@ } else { Seq::<OutPoint>::empty() }),
//@ start
//@| proof { axiom_opc_keys(); }
//@end
//@extract file=canister/src/unstable_blocks/outpoints_cache.rs in="impl OutPointsCache" item="fn get_removed_outpoints" props=C20,C01,C05
//@ ret r
//@ rewrite R17 "self\.removed_outpoints\s*\.get\(block_hash\)\s*\.map\(\|address_utxos\| \{\s*address_utxos\s*\.get\(address\)\s*\.map\(\|outpoints\| outpoints\.as_slice\(\)\)\s*\.unwrap_or\(&\[\]\)\s*\}\)\s*\.unwrap_or\(&\[\]\)" => "match self.removed_outpoints.get(block_hash) { Some(address_utxos) => match address_utxos.get(address) { Some(outpoints) => outpoints.as_slice(), None => &[] }, None => &[] }"
//@ spec
//@| ensures r@ == (if self.removed_outpoints@.contains_key(*block_hash) && self.removed_outpoints@[*block_hash]@.contains_key(*address) { self.removed_outpoints@[*block_hash]@[*address]@ } else { Seq::<OutPoint>::empty() }),
//@ start
//@| proof { axiom_opc_keys(); }
//@end

// OutPointsCache::remove (outpoints_cache.rs:193): every reference of the block is released exactly once; an entry disappears
// exactly when its last reference goes; the block's two address deltas are dropped; never traps for a block that is held
// R26: `for x in SLICE {` => `for x in SLICE.iter() {`; R24: continue elimination; R4: enumerate => counter
//@extract file=canister/src/unstable_blocks/outpoints_cache.rs in="impl OutPointsCache" item="fn remove" props=C20,C03
//@ rewrite R26 "for (\w+) in (block\.txdata\(\)|tx\.input\(\)) \{" => "for \1 in \2.iter() {"
//@ rewrite R10 "\.unwrap_or_else\(\|\| \{\s*vp_trap\(\);?\s*\}\)" => ".unwrap()"
//@ rewrite R4 "for \(i, _\) in tx\.output\(\)\.iter\(\)\.enumerate\(\) \{" => "let mut vp_i: usize = 0;\n            for vp_e in tx.output().iter() {\n                let i = vp_i;\n                vp_i = vp_i + 1;\n                proof { let vp_o = OutPoint { txid: tx.id, vout: i as u32 }; lemma_bound_out(block, it.index@ as int, i as int + 1, vp_o); assert(cnt(old(self).tx_outs@, vp_o) >= refs_block(*block, vp_o)); }"
//@ rewrite R9 "let outpoint = \(&input\.previous_output\)\.into\(\);" => "let outpoint: OutPoint = (&input.previous_output).into();\n                proof { lemma_bound(block, it.index@ as int, it2.index@ as int + 1, outpoint); assert(cnt(old(self).tx_outs@, outpoint) >= refs_block(*block, outpoint)); }"
//@ rewrite R9 "fn decrement_count_and_maybe_remove\(cache: &mut OutPointsCache, outpoint: &OutPoint\) \{" => "fn decrement_count_and_maybe_remove(cache: &mut OutPointsCache, outpoint: &OutPoint)\n            requires old(cache).wf(), old(cache).tx_outs@.contains_key(*outpoint),\n            ensures final(cache).wf(),\n                forall|o: OutPoint| #[trigger] cnt(final(cache).tx_outs@, o) == cnt(old(cache).tx_outs@, o) - (if o == *outpoint { 1int } else { 0int }),\n                final(cache).added_outpoints == old(cache).added_outpoints, final(cache).removed_outpoints == old(cache).removed_outpoints,\n        {\n            proof { axiom_opc_keys(); }"
//@ r24
//@ spec
//@| requires
//@|     old(self).wf(),
//@|     // the block's references are counted in the cache (it was inserted and not removed since: lemma_held_block_can_be_removed)
//@|     forall|o: OutPoint| cnt(old(self).tx_outs@, o) >= #[trigger] refs_block(*block, o),
//@|     // [assumption, stated] sizes
//@|     block.txs@.len() < 0x1000_0000,
//@|     forall|t: int| 0 <= t < block.txs@.len() ==> (#[trigger] block.txs@[t]).ins@.len() < 0x1000_0000 && block.txs@[t].outs@.len() < 0x1000_0000,
//@| ensures
//@|     final(self).wf(),
//@|     forall|o: OutPoint| cnt(final(self).tx_outs@, o) == cnt(old(self).tx_outs@, o) - #[trigger] refs_block(*block, o),
//@|     final(self).added_outpoints@ == old(self).added_outpoints@.remove(block.hash),
//@|     final(self).removed_outpoints@ == old(self).removed_outpoints@.remove(block.hash),
//@ start
//@| proof { axiom_opc_keys(); }
//@ loopbefore 1
//@| // the release loops touch the counts only; the two delta maps are whatever they were when the loops began (dropped before or after them)
//@| let ghost vp_a0 = self.added_outpoints; let ghost vp_r0 = self.removed_outpoints;
//@ loop 1 binder=it
//@| invariant
//@|     opc_keys_ok(), self.wf(),
//@|     self.added_outpoints == vp_a0, self.removed_outpoints == vp_r0,
//@|     forall|o: OutPoint| cnt(self.tx_outs@, o) == cnt(old(self).tx_outs@, o) - #[trigger] refs_txs(block.txs@, it.index@ as int, o),
//@|     forall|o: OutPoint| cnt(old(self).tx_outs@, o) >= #[trigger] refs_block(*block, o),
//@|     forall|t: int| 0 <= t < block.txs@.len() ==> (#[trigger] block.txs@[t]).ins@.len() < 0x1000_0000 && block.txs@[t].outs@.len() < 0x1000_0000,
//@ loopstart 1
//@| proof { assert(*tx == block.txs@[it.index@ as int]); }
//@ loop 2 binder=it2
//@| invariant
//@|     opc_keys_ok(), self.wf(), 0 <= it.index@ < block.txs@.len(), *tx == block.txs@[it.index@ as int],
//@|     self.added_outpoints == vp_a0, self.removed_outpoints == vp_r0,
//@|     forall|o: OutPoint| cnt(self.tx_outs@, o) == cnt(old(self).tx_outs@, o) - (#[trigger] refs_txs(block.txs@, it.index@ as int, o) + refs_ins(tx.ins@, it2.index@ as int, o)),
//@|     forall|o: OutPoint| cnt(old(self).tx_outs@, o) >= #[trigger] refs_block(*block, o),
//@ loop 3 binder=it3
//@| invariant
//@|     opc_keys_ok(), self.wf(), 0 <= it.index@ < block.txs@.len(), *tx == block.txs@[it.index@ as int],
//@|     vp_i == it3.index@, tx.outs@.len() < 0x1000_0000,
//@|     self.added_outpoints == vp_a0, self.removed_outpoints == vp_r0,
//@|     forall|o: OutPoint| cnt(self.tx_outs@, o) == cnt(old(self).tx_outs@, o) - (#[trigger] refs_txs(block.txs@, it.index@ as int, o) + refs_ins(tx.ins@, tx.ins@.len() as int, o) + refs_outs(*tx, it3.index@ as int, o)),
//@|     forall|o: OutPoint| cnt(old(self).tx_outs@, o) >= #[trigger] refs_block(*block, o),
//@ loopend 3
//@| proof {
//@|     assert forall|o: OutPoint| cnt(self.tx_outs@, o) == cnt(old(self).tx_outs@, o) - #[trigger] refs_txs(block.txs@, it.index@ as int + 1, o) by {
//@|         assert(cnt(self.tx_outs@, o) == cnt(old(self).tx_outs@, o) - (refs_txs(block.txs@, it.index@ as int, o) + refs_ins(tx.ins@, tx.ins@.len() as int, o) + refs_outs(*tx, tx.outs@.len() as int, o)));
//@|     }
//@| }
//@end
}

// ---- C20 as lemmas over the two contracts: for ANY history of insertions and removals, the reference count of every outpoint
// ---- equals the number of references from the blocks currently held; nothing leaks, nothing dangles -----------------------
spec fn total_refs(blocks: Seq<Block>, n: int, o: OutPoint) -> int
    decreases n
{
    if n <= 0 { 0 } else { total_refs(blocks, n - 1, o) + refs_block(blocks[n - 1], o) }
}
// the cache is EXACT for the list of blocks it holds
spec fn exact(m: Map<OutPoint, TxOutInfo>, blocks: Seq<Block>) -> bool {
    forall|o: OutPoint| #[trigger] cnt(m, o) == total_refs(blocks, blocks.len() as int, o)
}
proof fn lemma_refs_block_nonneg(b: Block, o: OutPoint)
    ensures refs_block(b, o) >= 0,
{ lemma_refs_txs_mono(b.txs@, 0, b.txs@.len() as int, o); }
proof fn lemma_total_refs_nonneg(blocks: Seq<Block>, n: int, o: OutPoint)
    ensures total_refs(blocks, n, o) >= 0,
    decreases n
{ if n > 0 { lemma_total_refs_nonneg(blocks, n - 1, o); lemma_refs_block_nonneg(blocks[n - 1], o); } }
// total over a list with element i removed
proof fn lemma_total_refs_remove(blocks: Seq<Block>, i: int, n: int, o: OutPoint)
    requires 0 <= i < blocks.len(), i < n <= blocks.len(),
    ensures total_refs(blocks.remove(i), n - 1, o) == total_refs(blocks, n, o) - refs_block(blocks[i], o),
    decreases n
{
    let r = blocks.remove(i);
    if n - 1 > i {
        lemma_total_refs_remove(blocks, i, n - 1, o);
        assert(r[n - 2] == blocks[n - 1]);
    } else {
        // n - 1 == i: the first i entries are the same
        lemma_total_refs_prefix(blocks, r, i, o);
    }
}
proof fn lemma_total_refs_prefix(a: Seq<Block>, b: Seq<Block>, n: int, o: OutPoint)
    requires 0 <= n <= a.len(), n <= b.len(), forall|k: int| 0 <= k < n ==> a[k] == b[k],
    ensures total_refs(a, n, o) == total_refs(b, n, o),
    decreases n
{ if n > 0 { lemma_total_refs_prefix(a, b, n - 1, o); } }
// (1) insert_outpoints keeps the cache exact for the list extended by the new block
proof fn lemma_insert_keeps_exact(m0: Map<OutPoint, TxOutInfo>, m1: Map<OutPoint, TxOutInfo>, blocks: Seq<Block>, b: Block)
    requires exact(m0, blocks), forall|o: OutPoint| cnt(m1, o) == cnt(m0, o) + #[trigger] refs_block(b, o),
    ensures exact(m1, blocks.push(b)),
{
    let nb = blocks.push(b);
    assert forall|o: OutPoint| #[trigger] cnt(m1, o) == total_refs(nb, nb.len() as int, o) by {
        lemma_total_refs_prefix(blocks, nb, blocks.len() as int, o);
        assert(cnt(m1, o) == cnt(m0, o) + refs_block(b, o));
        assert(cnt(m0, o) == total_refs(blocks, blocks.len() as int, o));
    }
}
// (2) a block that is held satisfies the precondition of remove ...
proof fn lemma_held_block_can_be_removed(m0: Map<OutPoint, TxOutInfo>, blocks: Seq<Block>, i: int)
    requires exact(m0, blocks), 0 <= i < blocks.len(),
    ensures forall|o: OutPoint| cnt(m0, o) >= #[trigger] refs_block(blocks[i], o),
{
    assert forall|o: OutPoint| cnt(m0, o) >= #[trigger] refs_block(blocks[i], o) by {
        lemma_total_refs_remove(blocks, i, blocks.len() as int, o);
        lemma_total_refs_nonneg(blocks.remove(i), blocks.len() as int - 1, o);
        assert(cnt(m0, o) == total_refs(blocks, blocks.len() as int, o));
    }
}
// ... and remove keeps the cache exact for the list without it
proof fn lemma_remove_keeps_exact(m0: Map<OutPoint, TxOutInfo>, m1: Map<OutPoint, TxOutInfo>, blocks: Seq<Block>, i: int)
    requires exact(m0, blocks), 0 <= i < blocks.len(), forall|o: OutPoint| cnt(m1, o) == cnt(m0, o) - #[trigger] refs_block(blocks[i], o),
    ensures exact(m1, blocks.remove(i)),
{
    let nb = blocks.remove(i);
    assert forall|o: OutPoint| #[trigger] cnt(m1, o) == total_refs(nb, nb.len() as int, o) by {
        lemma_total_refs_remove(blocks, i, blocks.len() as int, o);
        assert(cnt(m1, o) == cnt(m0, o) - refs_block(blocks[i], o));
        assert(cnt(m0, o) == total_refs(blocks, blocks.len() as int, o));
    }
}
// (3) nothing leaks: an exact cache without zero-count entries holds an entry for o iff some held block references o
proof fn lemma_no_leak_no_dangle(c: &OutPointsCache, blocks: Seq<Block>, o: OutPoint)
    requires c.wf(), exact(c.tx_outs@, blocks),
    ensures c.tx_outs@.contains_key(o) <==> total_refs(blocks, blocks.len() as int, o) >= 1,
{
    assert(cnt(c.tx_outs@, o) == total_refs(blocks, blocks.len() as int, o));
}

proof fn vp_canary_axioms()
    ensures false,
{}

} // verus!
fn main() {}
