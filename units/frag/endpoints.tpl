// fragment: canister/src/lib.rs endpoint wrappers (C14)
//@extract file=interface/src/lib.rs item="enum NetworkInRequest"
//@ rewrite R2 "#\[derive\(([^\]]*)\)\]" => "#[derive(Clone, Copy, PartialEq, Eq, Structural)]"
//@end
//@extract file=interface/src/lib.rs item="impl From<NetworkInRequest> for Network" props=C14
//@end
// written from the interface specification: both spellings of each network name denote that network
spec fn net_of(n: NetworkInRequest) -> Network {
    match n {
        NetworkInRequest::Mainnet | NetworkInRequest::mainnet => Network::Mainnet,
        NetworkInRequest::Testnet | NetworkInRequest::testnet => Network::Testnet,
        NetworkInRequest::Regtest | NetworkInRequest::regtest => Network::Regtest,
    }
}
impl vstd::std_specs::convert::FromSpecImpl<NetworkInRequest> for Network {
    closed spec fn obeys_from_spec() -> bool { true }
    closed spec fn from_spec(v: NetworkInRequest) -> Self { net_of(v) }
}

// [trusted:stand-in] request / response wire types of ic_btc_interface: only `.network` matters to the wrappers
struct GetBalanceRequest { network: NetworkInRequest, payload: u64 }
struct GetUtxosRequest { network: NetworkInRequest, payload: u64 }
struct GetBlockHeadersRequest { start_height: Height, end_height: Option<Height>, network: NetworkInRequest }
struct GetCurrentFeePercentilesRequest { network: NetworkInRequest }
struct GetBalanceError { code: u8 }
struct GetUtxosError { code: u8 }
struct GetUtxosResponse { payload: u64 }
type Satoshi = u64;
mod types {
    // [trusted:stand-in] crate::types::{GetBalanceRequest, GetUtxosRequest}: the internal request types (no network field)
    pub(crate) struct GetBalanceRequest { pub(crate) address: String, pub(crate) min_confirmations: Option<u32> }
    pub(crate) struct GetUtxosRequest { pub(crate) payload: u64 }
    // module path used by extracted code (`crate::types::fee_rate_per_vbyte`)
    pub(crate) use super::fee_rate_per_vbyte;
}
impl From<GetBalanceRequest> for types::GetBalanceRequest {
    #[verifier::external_body]
    fn from(r: GetBalanceRequest) -> (o: types::GetBalanceRequest) { unimplemented!() }
}
impl From<GetUtxosRequest> for types::GetUtxosRequest {
    #[verifier::external_body]
    fn from(r: GetUtxosRequest) -> (o: types::GetUtxosRequest) { unimplemented!() }
}

//@extract file=interface/src/lib.rs item="enum GetBlockHeadersError"
//@ rewrite R2 "#\[derive\(([^\]]*)\)\]" => ""
//@end
struct GetBlockHeadersResponse { tip_height: Height, block_headers: Vec<Vec<u8>> }

// [trusted:stand-in] crate::api::*: the endpoint implementations behind the guards. Reaching any of them is the event
// "the endpoint answers"; the wrappers below must establish gate_spec before that event.
#[verifier::external_body]
fn vp_api_get_current_fee_percentiles() -> Vec<MillisatoshiPerByte> { unimplemented!() }
#[verifier::external_body]
fn vp_api_get_balance(r: types::GetBalanceRequest) -> Result<Satoshi, GetBalanceError> { unimplemented!() }
#[verifier::external_body]
fn vp_api_get_balance_query(r: types::GetBalanceRequest) -> Result<Satoshi, GetBalanceError> { unimplemented!() }
#[verifier::external_body]
fn vp_api_get_utxos(r: types::GetUtxosRequest) -> Result<GetUtxosResponse, GetUtxosError> { unimplemented!() }
#[verifier::external_body]
fn vp_api_get_utxos_query(r: types::GetUtxosRequest) -> Result<GetUtxosResponse, GetUtxosError> { unimplemented!() }
#[verifier::external_body]
fn vp_api_get_block_headers(r: GetBlockHeadersRequest) -> Result<GetBlockHeadersResponse, GetBlockHeadersError> { unimplemented!() }
mod api {
    pub(crate) use super::vp_api_get_current_fee_percentiles as get_current_fee_percentiles;
    pub(crate) use super::vp_api_get_balance as get_balance;
    pub(crate) use super::vp_api_get_balance_query as get_balance_query;
    pub(crate) use super::vp_api_get_utxos as get_utxos;
    pub(crate) use super::vp_api_get_utxos_query as get_utxos_query;
    pub(crate) use super::vp_api_get_block_headers as get_block_headers;
}

//@extract file=canister/src/lib.rs item="fn get_current_fee_percentiles" props=C14
//@ spec
//@| requires state_ranges(&global_state()),
//@ before "api::get_current_fee_percentiles()"
//@| proof { assert(gate_spec(&global_state(), net_of(request.network), true)); }
//@end
//@extract file=canister/src/lib.rs item="fn get_balance" props=C14
//@ spec
//@| requires state_ranges(&global_state()),
//@ before "api::get_balance(request.into())"
//@| proof { assert(gate_spec(&global_state(), net_of(request.network), true)); }
//@end
//@extract file=canister/src/lib.rs item="fn get_balance_query" props=C14
//@ spec
//@| requires state_ranges(&global_state()),
//@ before "api::get_balance_query(request.into())"
//@| proof { assert(gate_spec(&global_state(), net_of(request.network), true)); }
//@end
//@extract file=canister/src/lib.rs item="fn get_utxos" props=C14
//@ spec
//@| requires state_ranges(&global_state()),
//@ before "api::get_utxos(request.into())"
//@| proof { assert(gate_spec(&global_state(), net_of(request.network), true)); }
//@end
//@extract file=canister/src/lib.rs item="fn get_utxos_query" props=C14
//@ spec
//@| requires state_ranges(&global_state()),
//@ before "api::get_utxos_query(request.into())"
//@| proof { assert(gate_spec(&global_state(), net_of(request.network), true)); }
//@end
//@extract file=canister/src/lib.rs item="fn get_block_headers" props=C14
//@ spec
//@| requires state_ranges(&global_state()),
//@ before "api::get_block_headers(request)"
//@| proof { assert(gate_spec(&global_state(), net_of(request.network), true)); }
//@end

// ---- no-trap mode: under the gate condition none of the guards traps ("in all other cases they answer") -------
//@extract file=canister/src/lib.rs item="fn verify_network" props=C14 rename=verify_network_notrap
//@ r7 ro="vp_state()" type=State
//@ spec
//@| requires global_state().utxos.network == network,
//@end
//@extract file=canister/src/lib.rs item="fn verify_api_access" props=C14 rename=verify_api_access_notrap
//@ r7 ro="vp_state()" type=State
//@ spec
//@| requires global_state().api_access != Flag::Disabled,
//@end
//@extract file=canister/src/lib.rs item="fn verify_synced" props=C14 rename=verify_synced_notrap
//@ r7 ro="vp_state()" type=State
//@ spec
//@| requires
//@|     state_ranges(&global_state()),
//@|     global_state().disable_api_if_not_fully_synced != Flag::Disabled ==> synced_spec(&global_state()),
//@end

// ---- C14 (last sentence): get_blockchain_info answers regardless of the access flag, the network flag and the sync status:
// ---- its contract has no precondition on any of them and it calls no guard (lib.rs:202) -------------------------------------------
//@extract file=canister/src/lib.rs item="fn get_blockchain_info" props=C14,C02
//@ ret r
//@ r7 ro="vp_state()" type=State
//@ sigrewrite R3 "types::BlockchainInfo" => "BlockchainInfo"
//@ spec
//@| requires
//@|     state_ranges(&global_state()),
//@|     forall|b: int| deltas_in_range(b, global_state().unstable_blocks.tree.best_path()),
//@| ensures
//@|     ({ let s = global_state(); let tip = s.unstable_blocks.tree.best_path().last();
//@|        &&& r.height == s.utxos.next_height + s.unstable_blocks.tree.best_path().len() - 1
//@|        &&& r.block_hash@ == tip.block_hash.bytes_spec() }),
//@end
