// fragment: common trusted prelude of the core unit (stand-ins, assumed std specs, derive(Ord) axioms, Depth types)
use vstd::std_specs::cmp::{OrdSpec, PartialOrdSpec};
use core::cmp::Ordering;
use std::ops::{Add, Sub};
use std::cmp::max;
use std::collections::BTreeSet;

// [trusted:stand-in] ic_btc_types::BlockHash is `[u8; 32]` with derived equality; only equality is used here.
#[derive(PartialEq, Eq, PartialOrd, Ord, Clone, Copy, Structural, Debug)]
pub struct BlockHash(pub u64);

// [trusted:stand-in] bitcoin::block::Header — opaque in this unit.
#[derive(PartialEq, Eq, Clone, Copy, Structural)]
pub struct Header { pub prev_blockhash: RawBlockHash, pub time: u32 }
// [trusted:stand-in] bitcoin raw hash newtype inside Header (prev_blockhash); converts bijectively into ic_btc_types::BlockHash
#[derive(PartialEq, Eq, Clone, Copy, Structural)]
pub struct RawBlockHash(pub u64);

// [trusted:assumed-spec] std::cmp::max on an Ord type returns the larger (b on ties)
pub assume_specification<T: std::cmp::Ord>[std::cmp::max](a: T, b: T) -> (r: T)
    ensures
        T::obeys_cmp_spec() ==> (r == if a.cmp_spec(&b) == core::cmp::Ordering::Greater { a } else { b }),
;

// [trusted:assumed-spec] std::cmp::min on an Ord type returns the smaller (a on ties)
pub assume_specification<T: std::cmp::Ord>[std::cmp::min](a: T, b: T) -> (r: T)
    ensures
        T::obeys_cmp_spec() ==> (r == if a.cmp_spec(&b) == core::cmp::Ordering::Greater { b } else { a }),
;

// [trusted:assumed-spec] core::mem::replace (not used by the current tree): stores the new value, returns the old one
pub assume_specification<T>[core::mem::replace::<T>](dest: &mut T, src: T) -> (r: T)
    ensures *final(dest) == src, r == *old(dest),
;
// [trusted:assumed-spec] u64::abs_diff (not used by the current tree)
pub assume_specification[u64::abs_diff](a: u64, b: u64) -> (r: u64)
    ensures r == if a >= b { a - b } else { b - a },
;
// [trusted:assumed-spec] u32::abs_diff is the absolute difference (not used by the current tree; keeps rewrites of height comparisons decidable)
pub assume_specification[u32::abs_diff](a: u32, b: u32) -> (r: u32)
    ensures r == if a >= b { a - b } else { b - a },
;

// [trusted:assumed-spec] usize::overflowing_add: the wrapped sum and whether it wrapped
pub assume_specification[usize::overflowing_add](a: usize, b: usize) -> (r: (usize, bool))
    ensures
        r.1 == (a + b > usize::MAX),
        !r.1 ==> r.0 == a + b,
;

// [trusted:assumed-spec] <[T]>::reverse reverses the slice in place
pub assume_specification<T>[<[T]>::reverse](s: &mut [T])
    ensures final(s)@ == old(s)@.reverse(),
;

// R6: panic!(..) / unreachable!(..) in no-trap mode: a proof obligation that the call site is unreachable
#[verifier::external_body]
fn vp_trap() -> !
    requires false,
{ panic!() }

// R1: format!(..) of a returned message => an opaque string
#[verifier::external_body]
fn vp_format() -> String { unimplemented!() }

fn vp_assert(b: bool)
    requires b,
{}

//@extract file=canister/src/blocktree.rs item="struct Depth"
//@end
//@extract file=canister/src/blocktree.rs item="struct DifficultyBasedDepth"
//@end

impl Depth {
//@extract file=canister/src/blocktree.rs in="impl Depth" item="fn new" props=C03,C04
//@ ret r
//@ spec
//@| ensures r.0 == value,
//@end
//@extract file=canister/src/blocktree.rs in="impl Depth" item="fn get" props=C03,C04
//@ ret r
//@ spec
//@| ensures r == self.0,
//@end
//@extract file=canister/src/blocktree.rs in="impl Depth" item="fn saturating_sub" props=C03 optional=1
//@ ret r
//@ spec
//@| ensures r.0 == if self.0 >= other.0 { (self.0 - other.0) as u64 } else { 0u64 },
//@end
//@rest file=canister/src/blocktree.rs in="impl Depth" except="new,get,saturating_sub" props=C03
}

impl DifficultyBasedDepth {
//@extract file=canister/src/blocktree.rs in="impl DifficultyBasedDepth" item="fn new" props=C02,C03
//@ ret r
//@ spec
//@| ensures r.0 == value,
//@end
//@extract file=canister/src/blocktree.rs in="impl DifficultyBasedDepth" item="fn get" props=C02,C03
//@ ret r
//@ spec
//@| ensures r == self.0,
//@end
}

//@extract file=canister/src/blocktree.rs item="impl Add for Depth" props=C03,C04
//@end
//@extract file=canister/src/blocktree.rs item="impl Add for DifficultyBasedDepth" props=C02,C03
//@end
//@extract file=canister/src/blocktree.rs item="impl Sub for DifficultyBasedDepth" props=C03
//@end

// Contracts of the operator impls (Verus attaches them through the *SpecImpl traits; the
// bodies above are verified against them, overflow included).
impl vstd::std_specs::ops::AddSpecImpl for Depth {
    closed spec fn obeys_add_spec() -> bool { true }
    closed spec fn add_req(self, other: Self) -> bool { self.0 + other.0 <= u64::MAX }
    closed spec fn add_spec(self, other: Self) -> Self { Depth((self.0 + other.0) as u64) }
}
impl vstd::std_specs::ops::AddSpecImpl for DifficultyBasedDepth {
    closed spec fn obeys_add_spec() -> bool { true }
    closed spec fn add_req(self, other: Self) -> bool { self.0 + other.0 <= u128::MAX }
    closed spec fn add_spec(self, other: Self) -> Self { DifficultyBasedDepth((self.0 + other.0) as u128) }
}
impl vstd::std_specs::ops::SubSpecImpl for DifficultyBasedDepth {
    closed spec fn obeys_sub_spec() -> bool { true }
    closed spec fn sub_req(self, other: Self) -> bool { self.0 >= other.0 }
    closed spec fn sub_spec(self, other: Self) -> Self { DifficultyBasedDepth((self.0 - other.0) as u128) }
}


// [trusted:axioms] semantics of #[derive(PartialOrd, Ord)] on one-field tuple structs and of
// the lexicographic order on pairs (std). One trigger per axiom.
mod ax {
    use vstd::prelude::*;
    use super::*;
    use vstd::std_specs::cmp::{OrdSpec, PartialOrdSpec};
    use core::cmp::Ordering;

    pub(crate) open spec fn ord_int(a: int, b: int) -> Ordering {
        if a < b { Ordering::Less } else if a == b { Ordering::Equal } else { Ordering::Greater }
    }

    #[verifier::external_body]
    pub(crate) broadcast proof fn axiom_pair_ord(a: (DifficultyBasedDepth, usize), b: (DifficultyBasedDepth, usize))
        ensures
            <(DifficultyBasedDepth, usize)>::obeys_partial_cmp_spec(),
            #[trigger] a.partial_cmp_spec(&b) == Some(
                if a.0.0 != b.0.0 { ord_int(a.0.0 as int, b.0.0 as int) } else { ord_int(a.1 as int, b.1 as int) }),
    {}

    #[verifier::external_body]
    pub(crate) broadcast proof fn axiom_depth_ord(a: Depth, b: Depth)
        ensures
            Depth::obeys_cmp_spec(),
            #[trigger] a.cmp_spec(&b) == ord_int(a.0 as int, b.0 as int),
    {}

    #[verifier::external_body]
    pub(crate) broadcast proof fn axiom_dbd_ord(a: DifficultyBasedDepth, b: DifficultyBasedDepth)
        ensures
            DifficultyBasedDepth::obeys_cmp_spec(),
            #[trigger] a.cmp_spec(&b) == ord_int(a.0 as int, b.0 as int),
    {}

    #[verifier::external_body]
    pub(crate) broadcast proof fn axiom_depth_partial_ord(a: Depth, b: Depth)
        ensures
            Depth::obeys_partial_cmp_spec(),
            #[trigger] a.partial_cmp_spec(&b) == Some(ord_int(a.0 as int, b.0 as int)),
    {}

    #[verifier::external_body]
    pub(crate) broadcast proof fn axiom_dbd_partial_ord(a: DifficultyBasedDepth, b: DifficultyBasedDepth)
        ensures
            DifficultyBasedDepth::obeys_partial_cmp_spec(),
            #[trigger] a.partial_cmp_spec(&b) == Some(ord_int(a.0 as int, b.0 as int)),
    {}
}
broadcast use {ax::axiom_pair_ord, ax::axiom_depth_ord, ax::axiom_dbd_ord, ax::axiom_depth_partial_ord, ax::axiom_dbd_partial_ord};

