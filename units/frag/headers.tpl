// fragment: canister/src/api/get_block_headers.rs range arithmetic + unstable_blocks::get_block_headers_in_range (C07)
//@extract file=canister/src/api/get_block_headers.rs item="const MAX_BLOCK_HEADERS_PER_RESPONSE" props=C07
//@end

// C07, written from the statement: the documented errors, otherwise (start, min(end or tip, start+99))
spec fn effective_range_spec(start: Height, end: Option<Height>, tip: Height) -> Result<(Height, Height), GetBlockHeadersError> {
    if start > tip { Err(GetBlockHeadersError::StartHeightDoesNotExist { requested: start, chain_height: tip }) }
    else if end matches Some(e) && e < start { Err(GetBlockHeadersError::StartHeightLargerThanEndHeight { start_height: start, end_height: end.unwrap() }) }
    else if end matches Some(e) && e > tip { Err(GetBlockHeadersError::EndHeightDoesNotExist { requested: end.unwrap(), chain_height: tip }) }
    else {
        let e = match end { Some(e) => e, None => tip };
        Ok((start, if e <= start + 99 { e } else { (start + 99) as Height }))
    }
}
spec fn tip_height_spec(s: &State) -> int {
    s.utxos.next_height + s.unstable_blocks.tree.best_path().len() - 1
}

//@extract file=canister/src/api/get_block_headers.rs item="fn verify_and_return_effective_range" props=C07
//@ ret r
//@ r7 ro="vp_state()" type=State
//@ spec
//@| requires state_ranges(&global_state()),
//@| ensures
//@|     r == effective_range_spec(request.start_height, request.end_height, tip_height_spec(&global_state()) as Height),
//@|     r matches Ok(p) ==> p.0 == request.start_height && p.0 <= p.1 <= tip_height_spec(&global_state()) && p.1 - p.0 <= 99,
//@ before "effective_end_height = std::cmp::min("
//@| proof { lemma_best_path_le_depth(&global_state().unstable_blocks.tree); }
//@end

// [trusted:stand-in] std::ops::RangeInclusive<Height> (start()/end() accessors only)
struct HeightRange { lo: Height, hi: Height }
impl HeightRange {
    fn start(&self) -> (r: &Height) ensures *r == self.lo { &self.lo }
    fn end(&self) -> (r: &Height) ensures *r == self.hi { &self.hi }
}
// the unstable part of a range (unstable_blocks.rs:272): which indices of the served branch are returned
//@slice file=canister/src/unstable_blocks.rs in="impl UnstableBlocks" item="fn get_block_headers_in_range" from="if *heights.end() < stable_height {" to="let heights_relative_to_unstable_blocks" props=C07
//@ rewrite R8 "return Default::default\(\);" => "return None;"
//@ rewrite R8 "let heights_relative_to_unstable_blocks = std::ops::RangeInclusive::new\(" => "let heights_relative_to_unstable_blocks = ("
//@ head
//@| // R8 statement slice: `return Default::default()` (the empty iterator) is rendered as None, the index range as a pair
//@| fn get_block_headers_in_range_indices(stable_height: Height, heights: HeightRange) -> (r: Option<(usize, usize)>)
//@|     requires heights.lo <= heights.hi,
//@|     ensures
//@|         // nothing from the unstable blocks iff the whole range is below the stable height
//@|         r.is_none() <==> heights.hi < stable_height,
//@|         // otherwise exactly the indices [start -. stable, end - stable] of the served branch (index 0 = the anchor, whose height IS the stable height)
//@|         r matches Some(p) ==> p.0 == (if heights.lo >= stable_height { heights.lo - stable_height } else { 0 })
//@|             && p.1 == heights.hi - stable_height && p.0 <= p.1,
//@ tail
//@| Some(heights_relative_to_unstable_blocks)
//@end

// get_block_headers_in_range (unstable_blocks.rs:272) as a WHOLE: the headers of the served branch at exactly those indices, in order.
// R19: the `impl Iterator` return becomes the Vec it is collected into (`return Default::default()` => the empty Vec, the final
// `.into_iter()` dropped); `chain[lo..=hi].iter().map(|b| b.header()).collect::<Vec<_>>()` => an index loop from lo to hi
impl UnstableBlocks {
//@extract file=canister/src/unstable_blocks.rs in="impl UnstableBlocks" item="fn get_block_headers_in_range" props=C07,C02
//@ ret r
//@ sigrewrite R19 "heights: std::ops::RangeInclusive<Height>," => "heights: HeightRange,"
//@ sigrewrite R19 "-> impl Iterator<Item = &Header>" => "-> Vec<&Header>"
//@ rewrite R19 "return Default::default\(\);" => "return Vec::new();"
//@ rewrite R19 "let heights_relative_to_unstable_blocks = std::ops::RangeInclusive::new\(" => "let heights_relative_to_unstable_blocks = ("
//@ rewrite R19 "get_main_chain\(self\)\.into_chain\(\)\[heights_relative_to_unstable_blocks\]\s*\.iter\(\)\s*\.map\(\|block\| block\.header\(\)\)\s*\.collect::<Vec<_>>\(\)\s*\.into_iter\(\)" => "let vp_chain = get_main_chain(self).into_chain();\n        let mut vp_out: Vec<&Header> = Vec::new();\n        let mut vp_k: usize = heights_relative_to_unstable_blocks.0;\n        while vp_k <= heights_relative_to_unstable_blocks.1 {\n            let block = vp_chain[vp_k];\n            vp_out.push(block.header());\n            vp_k = vp_k + 1;\n        }\n        vp_out"
//@ spec
//@| requires
//@|     self.tree.wf(),
//@|     heights.lo <= heights.hi,
//@|     // established by verify_and_return_effective_range: the range ends at or below the tip of the served branch
//@|     heights.hi < stable_height + self.tree.best_path().len(),
//@| ensures
//@|     ({
//@|         let chain = self.tree.best_path();
//@|         if heights.hi < stable_height { r@.len() == 0 } else {
//@|             let lo = if heights.lo >= stable_height { heights.lo - stable_height } else { 0 };
//@|             let hi = heights.hi - stable_height;
//@|             // one header per height of the range that is not below the stable height, ascending, taken from the served branch
//@|             &&& r@.len() == hi - lo + 1
//@|             &&& forall|k: int| 0 <= k < r@.len() ==> *(#[trigger] r@[k]) == chain[lo + k].header
//@|         }
//@|     }),
//@ loop 1
//@| invariant
//@|     heights_relative_to_unstable_blocks.0 <= vp_k <= heights_relative_to_unstable_blocks.1 + 1,
//@|     heights_relative_to_unstable_blocks.1 < vp_chain@.len(),
//@|     deref_seq(vp_chain@) =~= self.tree.best_path(),
//@|     vp_out@.len() == vp_k - heights_relative_to_unstable_blocks.0,
//@|     forall|k: int| 0 <= k < vp_out@.len() ==> *(#[trigger] vp_out@[k]) == self.tree.best_path()[heights_relative_to_unstable_blocks.0 + k].header,
//@| decreases heights_relative_to_unstable_blocks.1 + 1 - vp_k,
//@ before "vp_out.push(block.header());"
//@| proof { assert(*block == self.tree.best_path()[vp_k as int]); }
//@end
}

//@lemma fn=lemma_range_composition props=C07
// Composition across the stable boundary: if the stable store holds exactly the heights below the stable height
// (wf_headers) the stable part [start, min(end, sh-1)] and the unstable part [max(start, sh), end] partition [start, end]:
// one header per height, ascending. If the store ALSO holds height sh (as it does while a block is ingested in
// slices) height sh is served twice.
proof fn lemma_range_composition(start: Height, end: Height, sh: Height, stored: Set<Height>)
    requires start <= end,
    ensures
        (forall|h: Height| stored.contains(h) <==> h < sh) ==>
            forall|h: Height| start <= h <= end ==>
                ((stored.contains(h) && start <= h <= end) != (end >= sh && h >= sh && h >= start)),
{}

// ---- get_block_headers_internal as a whole (get_block_headers.rs:74): which range is served and how the two parts are joined ---
//@extract file=canister/src/api/get_block_headers.rs item="struct Stats"
//@ rewrite R2? "#\[derive\(([^\]]*)\)\]" => ""
//@ rewrite R3 "struct Stats" => "struct HeaderStats"
//@end
impl HeaderStats {
    // [trusted:stand-in] #[derive(Default)]: all counters zero
    fn default() -> (r: HeaderStats) { HeaderStats { ins_total: 0, ins_build_block_headers_stable_blocks: 0, ins_build_block_headers_unstable_blocks: 0 } }
}
// the serialised headers each source contributes to [lo, hi]: uninterpreted contents, lengths from the store's domain
// (stable part) and from the verified index computation above (unstable part)
uninterp spec fn stable_headers_spec(s: &State, lo: Height, hi: Height) -> Seq<Vec<u8>>;
uninterp spec fn unstable_headers_spec(s: &State, lo: Height, hi: Height) -> Seq<Vec<u8>>;
// [trusted:stand-in] the two materialisation pipelines (get_block_headers.rs:85-90 and 98-113: boxed iterators, `.map(..).collect()`,
// consensus_encode); R9 turns each `with_state(|s| ..)` pipeline into one call keeping the range arguments
#[verifier::external_body]
fn vp_stable_headers(s: &State, lo: Height, hi: Height) -> (r: Vec<Vec<u8>>)
    ensures
        r@ == stable_headers_spec(s, lo, hi),
        // one header per stored height of the range
        wf_headers(s) && lo <= hi ==> r@.len() == (if lo >= s.utxos.next_height { 0int } else if hi < s.utxos.next_height { hi - lo + 1 } else { s.utxos.next_height - lo }),
{ unimplemented!() }
#[verifier::external_body]
fn vp_unstable_headers(s: &State, lo: Height, hi: Height) -> (r: Vec<Vec<u8>>)
    ensures
        r@ == unstable_headers_spec(s, lo, hi),
        // one header per index of the served branch selected by get_block_headers_in_range_indices
        lo <= hi ==> r@.len() == (if hi < s.utxos.next_height { 0int } else if lo >= s.utxos.next_height { hi - lo + 1 } else { hi - s.utxos.next_height + 1 }),
{ unimplemented!() }
//@extract file=canister/src/api/get_block_headers.rs item="fn get_block_headers_internal" props=C07
//@ ret r
//@ sigrewrite R3 "Stats" => "HeaderStats"
//@ rewrite R3 "let mut stats: Stats = Stats::default\(\);" => "let mut stats: HeaderStats = HeaderStats::default();"
//@ rewrite R9 "with_state\(\|s\| \{\s*s\.stable_block_headers\s*\.get_block_headers_in_range\(std::ops::RangeInclusive::new\((\w+), (\w+)\)\)\s*\.map\(\|header_blob\| header_blob\.into\(\)\)\s*\.collect\(\)\s*\}\);" => "vp_stable_headers(vp_state(), \1, \2);"
//@ rewrite R9 "with_state\(\|s\| \{\s*let unstable_block_headers = &mut s\s*\.unstable_blocks\s*\.get_block_headers_in_range\(\s*s\.stable_height\(\),\s*std::ops::RangeInclusive::new\((\w+), (\w+)\),\s*\).*?\.collect\(\);\s*vec_headers\.append\(unstable_block_headers\)\s*\}\);" => "{ let mut vp_unstable = vp_unstable_headers(vp_state(), \1, \2); let unstable_block_headers = &mut vp_unstable; vec_headers.append(unstable_block_headers) };"
//@ spec
//@| requires state_ranges(&global_state()),
//@| ensures
//@|     ({
//@|         let s = global_state();
//@|         match effective_range_spec(request.start_height, request.end_height, tip_height_spec(&s) as Height) {
//@|             // the documented errors, with the real tip height
//@|             Err(e) => r matches Err(e2) && e2 == e,
//@|             Ok(range) => r matches Ok(p)
//@|                 // the response names the last height it serves
//@|                 && p.0.tip_height == range.1
//@|                 // stable part first, unstable part after it, nothing else
//@|                 && p.0.block_headers@ == stable_headers_spec(&s, range.0, range.1) + unstable_headers_spec(&s, range.0, range.1)
//@|                 // exactly one header per height of the effective range (needs the store to hold exactly the heights below the stable height)
//@|                 && (wf_headers(&s) ==> p.0.block_headers@.len() == range.1 - range.0 + 1),
//@|         }
//@|     }),
//@end
