// fragment: canister/src/api/get_block_headers.rs range arithmetic + unstable_blocks::get_block_headers_in_range (C07)
//@extract file=canister/src/api/get_block_headers.rs item="const MAX_BLOCK_HEADERS_PER_RESPONSE" props=C07
//@end

// C07, written from the statement: the documented errors, otherwise (start, min(end or tip, start+99))
spec fn effective_range_spec(start: Height, end: Option<Height>, tip: Height) -> Result<(Height, Height), GetBlockHeadersError> {
    if start > tip { Err(GetBlockHeadersError::StartHeightDoesNotExist { requested: start, chain_height: tip }) }
    else if end matches Some(e) && e < start { Err(GetBlockHeadersError::StartHeightLargerThanEndHeight { start_height: start, end_height: end.unwrap() }) }
    else if end matches Some(e) && e > tip { Err(GetBlockHeadersError::EndHeightDoesNotExist { requested: end.unwrap(), chain_height: tip }) }
    else {
        let e = match end { Some(e) => e, None => tip };
        Ok((start, if e <= start + 99 { e } else { (start + 99) as Height }))
    }
}
spec fn tip_height_spec(s: &State) -> int {
    s.utxos.next_height + s.unstable_blocks.tree.best_path().len() - 1
}

//@extract file=canister/src/api/get_block_headers.rs item="fn verify_and_return_effective_range" props=C07
//@ ret r
//@ r7 ro="vp_state()" type=State
//@ spec
//@| requires state_ranges(&global_state()),
//@| ensures
//@|     r == effective_range_spec(request.start_height, request.end_height, tip_height_spec(&global_state()) as Height),
//@|     r matches Ok(p) ==> p.0 == request.start_height && p.0 <= p.1 <= tip_height_spec(&global_state()) && p.1 - p.0 <= 99,
//@ before "effective_end_height = std::cmp::min("
//@| proof { lemma_best_path_le_depth(&global_state().unstable_blocks.tree); }
//@end

// [trusted:stand-in] std::ops::RangeInclusive<Height> (start()/end() accessors only)
struct HeightRange { lo: Height, hi: Height }
impl HeightRange {
    fn start(&self) -> (r: &Height) ensures *r == self.lo { &self.lo }
    fn end(&self) -> (r: &Height) ensures *r == self.hi { &self.hi }
}
// the unstable part of a range (unstable_blocks.rs:272): which indices of the served branch are returned
//@slice file=canister/src/unstable_blocks.rs in="impl UnstableBlocks" item="fn get_block_headers_in_range" from="if *heights.end() < stable_height {" to="let heights_relative_to_unstable_blocks" props=C07
//@ rewrite R8 "return Default::default\(\);" => "return None;"
//@ rewrite R8 "let heights_relative_to_unstable_blocks = std::ops::RangeInclusive::new\(" => "let heights_relative_to_unstable_blocks = ("
//@ head
//@| // R8 statement slice: `return Default::default()` (the empty iterator) is rendered as None, the index range as a pair
//@| fn get_block_headers_in_range_indices(stable_height: Height, heights: HeightRange) -> (r: Option<(usize, usize)>)
//@|     requires heights.lo <= heights.hi,
//@|     ensures
//@|         // nothing from the unstable blocks iff the whole range is below the stable height
//@|         r.is_none() <==> heights.hi < stable_height,
//@|         // otherwise exactly the indices [start -. stable, end - stable] of the served branch (index 0 = the anchor, whose height IS the stable height)
//@|         r matches Some(p) ==> p.0 == (if heights.lo >= stable_height { heights.lo - stable_height } else { 0 })
//@|             && p.1 == heights.hi - stable_height && p.0 <= p.1,
//@ tail
//@| Some(heights_relative_to_unstable_blocks)
//@end

//@lemma fn=lemma_range_composition props=C07
// Composition across the stable boundary: if the stable store holds exactly the heights below the stable height
// (wf_headers) the stable part [start, min(end, sh-1)] and the unstable part [max(start, sh), end] partition [start, end]:
// one header per height, ascending. If the store ALSO holds height sh (as it does while a block is ingested in
// slices) height sh is served twice.
proof fn lemma_range_composition(start: Height, end: Height, sh: Height, stored: Set<Height>)
    requires start <= end,
    ensures
        (forall|h: Height| stored.contains(h) <==> h < sh) ==>
            forall|h: Height| start <= h <= end ==>
                ((stored.contains(h) && start <= h <= end) != (end >= sh && h >= sh && h >= start)),
{}
