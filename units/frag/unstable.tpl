// fragment: canister/src/unstable_blocks.rs (+ CachedBlock of blocktree.rs)
// TRUSTED stand-ins for this fragment ------------------------------------------------------
type Height = u32;

//@extract file=interface/src/lib.rs item="enum Network"
//@ rewrite R2? "#\[derive\(([^\]]*)\)\]" => "#[derive(Clone, Copy, PartialEq, Eq, Structural)]"
//@end
//@extract file=interface/src/lib.rs item="enum Flag"
//@ rewrite R2? "#\[derive\(([^\]]*)\)\]" => "#[derive(Clone, Copy, PartialEq, Eq, Structural)]"
//@ rewrite R2 "#\[default\]" => ""
//@end

impl From<RawBlockHash> for BlockHash {
    #[verifier::external_body]
    fn from(h: RawBlockHash) -> (r: BlockHash)
        ensures r == BlockHash(h.0),
    { unimplemented!() }
}

// [trusted:stand-in] MillisatoshiPerByte = u64
type MillisatoshiPerByte = u64;

// [trusted:stand-in] OutPointsCache / NextBlockHeaders: entry-API maps, outside Verus; opaque here
struct OutPointsCache { _p: u8 }
// ghost `offered`: how many times a batch of announced headers has been offered to it (insert_next_block_headers calls)
// ghost `announced`: the (header, height) pairs handed to NextBlockHeaders::insert, in order
struct NextBlockHeaders { _p: u8, offered: Ghost<nat>, announced: Ghost<Seq<(Header, Height)>> }
impl NextBlockHeaders {
    uninterp spec fn max_height_spec(&self) -> Option<Height>;
    // the height under which a header with this hash is stored, if any (hash_to_height_and_header)
    uninterp spec fn height_of_spec(&self, h: BlockHash) -> Option<Height>;
    // [trusted:assumed-contract] NextBlockHeaders::get_height (BTreeMap get + closure): a lookup
    #[verifier::external_body]
    fn get_height(&self, hash: &BlockHash) -> (r: Option<&Height>)
        ensures r.is_some() == self.height_of_spec(*hash).is_some(), r matches Some(p) ==> Some(*p) == self.height_of_spec(*hash),
    { unimplemented!() }
    // [trusted:assumed-contract] NextBlockHeaders::insert (entry-API maps): records the header under the given height
    #[verifier::external_body]
    fn insert(&mut self, block_header: Header, height: Height)
        ensures
            final(self).announced@ == old(self).announced@.push((block_header, height)), final(self).offered@ == old(self).offered@,
            // every stored height is an old one or the new one
            forall|h: BlockHash| (#[trigger] final(self).height_of_spec(h)) matches Some(x) ==> (old(self).height_of_spec(h) == Some(x) || x == height),
    { unimplemented!() }
    spec fn heights_below(&self, b: int) -> bool { forall|h: BlockHash| (#[trigger] self.height_of_spec(h)) matches Some(x) ==> x < b }
    // [trusted:assumed-contract] NextBlockHeaders::get_max_height (BTreeMap last_key_value): opaque value
    #[verifier::external_body]
    fn get_max_height(&self) -> (r: Option<Height>)
        ensures r == self.max_height_spec(),
    { unimplemented!() }
}

//@extract file=canister/src/blocktree.rs item="struct CachedBlock"
//@ rewrite R2? "#\[derive\(([^\]]*)\)\]" => ""
//@ rewrite R3 "cache: Cache,\s*" => ""
//@end

//@extract file=canister/src/blocktree.rs item="impl ChainBlock for CachedBlock" props=C02
//@ rewrite R9 "impl ChainBlock for CachedBlock \{" => "impl ChainBlock for CachedBlock { spec fn sheader(&self) -> Header { self.header } spec fn shash(&self) -> BlockHash { self.block_hash } spec fn sprev(&self) -> BlockHash { BlockHash(self.header.prev_blockhash.0) } spec fn sdiff(&self) -> u128 { self.difficulty }"
//@end

impl CachedBlock {
//@extract file=canister/src/blocktree.rs in="impl CachedBlock" item="fn utxo_delta" props=C02
//@ ret r
//@ spec
//@| ensures r == self.utxo_delta,
//@end
}

impl<Block> BlockTree<Block> {
//@extract file=canister/src/blocktree.rs in="impl<Block> BlockTree<Block>" item="fn root" props=C03
//@ ret r
//@ spec
//@| ensures *r == self.root,
//@end
}

//@extract file=canister/src/unstable_blocks.rs item="struct GenericUnstableBlocks"
//@ rewrite R2? "#\[derive\(([^\]]*)\)\]" => ""
//@end
//@extract file=canister/src/unstable_blocks.rs item="type UnstableBlocks"
//@end

impl UnstableBlocks {
//@extract file=canister/src/unstable_blocks.rs in="impl UnstableBlocks" item="fn stability_threshold" props=C03
//@ ret r
//@ spec
//@| ensures r == self.stability_threshold,
//@end
//@extract file=canister/src/unstable_blocks.rs in="impl UnstableBlocks" item="fn anchor_difficulty" props=C03
//@ ret r
//@ spec
//@| ensures r == self.tree.root.difficulty,
//@end
//@extract file=canister/src/unstable_blocks.rs in="impl UnstableBlocks" item="fn normalized_stability_threshold" props=C03
//@ ret r
//@ spec
//@| requires self.tree.root.difficulty * self.stability_threshold <= u128::MAX,
//@| ensures r == self.tree.root.difficulty * self.stability_threshold,
//@end
//@extract file=canister/src/unstable_blocks.rs in="impl UnstableBlocks" item="fn get_network" props=C03
//@ ret r
//@ spec
//@| ensures r == self.network,
//@end
//@extract file=canister/src/unstable_blocks.rs in="impl UnstableBlocks" item="fn blocks_depth" props=C03,C04
//@ ret r
//@ spec
//@| requires self.tree.wf_depth(),
//@| ensures r.0 == self.tree.sdepth(),
//@end
//@extract file=canister/src/unstable_blocks.rs in="impl UnstableBlocks" item="fn blocks_difficulty_based_depth" props=C03
//@ ret r
//@ spec
//@| requires self.tree.wf(),
//@| ensures r.0 == self.tree.sdbd(),
//@end
//@extract file=canister/src/unstable_blocks.rs in="impl UnstableBlocks" item="fn next_block_headers_max_height" props=C14
//@ ret r
//@ spec
//@| ensures r == self.next_block_headers.max_height_spec(),
//@end
}

//@extract file=canister/src/unstable_blocks.rs item="fn get_main_chain" props=C02
//@ ret r
//@ spec
//@| requires blocks.tree.wf(),
//@| ensures r@ =~= blocks.tree.best_path(),
//@end
//@extract file=canister/src/unstable_blocks.rs item="fn get_main_chain_length" props=C02
//@ ret r
//@ spec
//@| requires blocks.tree.wf(),
//@| ensures r == blocks.tree.best_path().len(),
//@end
//@extract file=canister/src/unstable_blocks.rs item="fn get_block_hashes" props=C13
//@ ret r
//@ spec
//@| ensures r@ =~= blocks.tree.preorder(), r@.len() >= 1, r@[0] == blocks.tree.root.block_hash,
//@end
