// fragment: canister/src/unstable_blocks.rs (+ CachedBlock of blocktree.rs)
// TRUSTED stand-ins for this fragment ------------------------------------------------------
type Height = u32;

//@extract file=interface/src/lib.rs item="enum Network"
//@ rewrite R2? "#\[derive\(([^\]]*)\)\]" => "#[derive(Clone, Copy, PartialEq, Eq, Structural)]"
//@end
//@extract file=interface/src/lib.rs item="enum Flag"
//@ rewrite R2? "#\[derive\(([^\]]*)\)\]" => "#[derive(Clone, Copy, PartialEq, Eq, Structural)]"
//@ rewrite R2 "#\[default\]" => ""
//@end

impl From<RawBlockHash> for BlockHash {
    #[verifier::external_body]
    fn from(h: RawBlockHash) -> (r: BlockHash)
        ensures r == BlockHash(h.0),
    { unimplemented!() }
}

// [trusted:stand-in] MillisatoshiPerByte = u64
type MillisatoshiPerByte = u64;

// [trusted:stand-in] OutPointsCache: entry-API maps; opaque here
struct OutPointsCache { _p: u8 }
// NextBlockHeaders: the REAL struct and methods are verified in fragment nbh.tpl

//@extract file=canister/src/blocktree.rs item="struct CachedBlock"
//@ rewrite R2? "#\[derive\(([^\]]*)\)\]" => ""
//@ rewrite R3 "cache: Cache,\s*" => ""
//@end

//@extract file=canister/src/blocktree.rs item="impl ChainBlock for CachedBlock" props=C02
//@ rewrite R9 "impl ChainBlock for CachedBlock \{" => "impl ChainBlock for CachedBlock { spec fn sheader(&self) -> Header { self.header } spec fn shash(&self) -> BlockHash { self.block_hash } spec fn sprev(&self) -> BlockHash { BlockHash(self.header.prev_blockhash.0) } spec fn sdiff(&self) -> u128 { self.difficulty }"
//@end

impl CachedBlock {
//@extract file=canister/src/blocktree.rs in="impl CachedBlock" item="fn utxo_delta" props=C02
//@ ret r
//@ spec
//@| ensures r == self.utxo_delta,
//@end
}

impl<Block> BlockTree<Block> {
//@extract file=canister/src/blocktree.rs in="impl<Block> BlockTree<Block>" item="fn root" props=C03
//@ ret r
//@ spec
//@| ensures *r == self.root,
//@end
}

// [trusted:stand-in] the block bodies (blocks_cache.rs: `Rc<RefCell<Box<dyn BlocksCache>>>`, ONE instance shared by every CachedBlock of
// the tree — the field `cache` that R3 drops from CachedBlock points to it): the set of hashes whose body is stored. R7: it is passed
// explicitly as the field `vp_bodies` of the unstable blocks. `remove` follows the trait's documented contract (blocks_cache.rs:13):
// "true if the removal is successful, false if it does not exist"
struct BodiesCache { hashes: Ghost<Set<BlockHash>>, _p: u8 }
impl BodiesCache {
    #[verifier::external_body]
    fn remove(&mut self, block_hash: &BlockHash) -> (r: bool)
        ensures r == old(self).hashes@.contains(*block_hash), final(self).hashes@ == old(self).hashes@.remove(*block_hash),
    { unimplemented!() }
}
//@extract file=canister/src/unstable_blocks.rs item="struct GenericUnstableBlocks"
//@ rewrite R2? "#\[derive\(([^\]]*)\)\]" => ""
//@ rewrite R7 "(tip_depths_cache: Vec<usize>,)" => "\1\n    vp_bodies: BodiesCache,"
//@end
//@extract file=canister/src/unstable_blocks.rs item="type UnstableBlocks"
//@end

impl UnstableBlocks {
//@extract file=canister/src/unstable_blocks.rs in="impl UnstableBlocks" item="fn stability_threshold" props=C03
//@ ret r
//@ spec
//@| ensures r == self.stability_threshold,
//@end
//@extract file=canister/src/unstable_blocks.rs in="impl UnstableBlocks" item="fn anchor_difficulty" props=C03
//@ ret r
//@ spec
//@| ensures r == self.tree.root.difficulty,
//@end
//@extract file=canister/src/unstable_blocks.rs in="impl UnstableBlocks" item="fn normalized_stability_threshold" props=C03
//@ ret r
//@ spec
//@| requires self.tree.root.difficulty * self.stability_threshold <= u128::MAX,
//@| ensures r == self.tree.root.difficulty * self.stability_threshold,
//@end
//@extract file=canister/src/unstable_blocks.rs in="impl UnstableBlocks" item="fn get_network" props=C03
//@ ret r
//@ spec
//@| ensures r == self.network,
//@end
//@extract file=canister/src/unstable_blocks.rs in="impl UnstableBlocks" item="fn blocks_depth" props=C03,C04
//@ ret r
//@ spec
//@| requires self.tree.wf_depth(),
//@| ensures r.0 == self.tree.sdepth(),
//@end
//@extract file=canister/src/unstable_blocks.rs in="impl UnstableBlocks" item="fn blocks_difficulty_based_depth" props=C03
//@ ret r
//@ spec
//@| requires self.tree.wf(),
//@| ensures r.0 == self.tree.sdbd(),
//@end
//@extract file=canister/src/unstable_blocks.rs in="impl UnstableBlocks" item="fn next_block_headers_max_height" props=C14
//@ ret r
//@ spec
//@| requires self.next_block_headers.wf(),
//@| ensures r == self.next_block_headers.max_height_spec(),
//@end
}

//@extract file=canister/src/unstable_blocks.rs item="fn get_main_chain" props=C02
//@ ret r
//@ spec
//@| requires blocks.tree.wf(),
//@| ensures r@ =~= blocks.tree.best_path(),
//@end
//@extract file=canister/src/unstable_blocks.rs item="fn get_main_chain_length" props=C02
//@ ret r
//@ spec
//@| requires blocks.tree.wf(),
//@| ensures r == blocks.tree.best_path().len(),
//@end
//@extract file=canister/src/unstable_blocks.rs item="fn get_block_hashes" props=C13
//@ ret r
//@ spec
//@| ensures r@ =~= blocks.tree.preorder(), r@.len() >= 1, r@[0] == blocks.tree.root.block_hash,
//@end
