// fragment: canister/src/api/fee_percentiles.rs + types.rs::fee_rate_per_vbyte (C15)
//@extract file=canister/src/types.rs item="fn fee_rate_per_vbyte" props=C15
//@ ret r
//@ spec
//@| requires
//@|     // [assumption, stated] fee < 2^64/1000 satoshi (any real fee)
//@|     1000 * fee_satoshi <= u64::MAX,
//@| ensures
//@|     // millisatoshi per virtual byte, rounded down; nothing for a zero-size transaction
//@|     vsize == 0 ==> r.is_none(),
//@|     vsize > 0 ==> r == Some(((1000 * fee_satoshi) / (vsize as int)) as u64),
//@end

// nearest-rank index (C15, written from the statement): percentile p of n sorted values is the value of rank ceil(p*n/100),
// i.e. index max(0, ceil(p*n/100) - 1); index 0 = minimum, index 100 = maximum
spec fn ceil_div_spec(a: int, b: int) -> int { if a % b == 0 { a / b } else { a / b + 1 } }
spec fn nearest_rank_index(p: int, n: int) -> int {
    let r = ceil_div_spec(p * n, 100);
    if r - 1 > 0 { r - 1 } else { 0 }
}

//@slice file=canister/src/api/fee_percentiles.rs item="fn percentiles" from="let ceil_div =" to="let ceil_div =" props=C15
//@ rewrite R8 "let ceil_div = \|a, b\| (.*?);" => "\1"
//@ head
//@| // R8 slice: the body of the closure `ceil_div` of `percentiles`
//@| fn percentiles_ceil_div(a: u32, b: u32) -> (r: u32)
//@|     requires b > 0, a < 0xffff_fff0,
//@|     ensures r == ceil_div_spec(a as int, b as int),
//@end
//@slice file=canister/src/api/fee_percentiles.rs item="fn percentiles" block_after=".map(|p| {" props=C15
//@ rewrite R8 "ceil_div\(" => "percentiles_ceil_div("
//@ head
//@| // R8 slice: the body of the closure mapped over 0..=100 in `percentiles`
//@| #[allow(non_snake_case)]
//@| fn percentiles_pick(values: &Vec<u64>, p: u32, MAX_PERCENTILE: u32) -> (r: u64)
//@|     requires
//@|         MAX_PERCENTILE == 100, p <= 100,
//@|         // [assumption, stated] at most 2^25 fee rates (the repo keeps 10,000)
//@|         1 <= values@.len() <= 0x200_0000,
//@|     ensures
//@|         0 <= nearest_rank_index(p as int, values@.len() as int) < values@.len(),
//@|         r == values@[nearest_rank_index(p as int, values@.len() as int)],
//@ before "let ordinal_rank ="
//@| proof { lemma_rank_bounds(p as int, values@.len() as int); }
//@end
//@slice file=canister/src/api/fee_percentiles.rs item="fn percentiles" from="const MAX_PERCENTILE: u32" to="const MAX_PERCENTILE: u32" props=C15
//@ head
//@| fn percentiles_max_percentile() -> (r: u32)
//@|     ensures r == 100,
//@ tail
//@| MAX_PERCENTILE
//@end

proof fn lemma_mul_bounds(p: int, q: int, n: int)
    requires 0 <= p <= q, 0 <= n,
    ensures 0 <= p * n <= q * n,
{
    assert(0 <= p * n <= q * n) by(nonlinear_arith) requires 0 <= p <= q, 0 <= n;
}
proof fn lemma_rank_bounds(p: int, n: int)
    requires 0 <= p <= 100, 1 <= n <= 0x200_0000,
    ensures
        0 <= p * n <= 100 * n < 0xffff_fff0,
        0 <= ceil_div_spec(p * n, 100) <= n,
        0 <= nearest_rank_index(p, n) < n,
        p == 0 ==> nearest_rank_index(p, n) == 0,
        p == 100 ==> nearest_rank_index(p, n) == n - 1,
{
    lemma_mul_bounds(p, 100, n);
    let x = p * n;
    // division by the constant 100 is linear arithmetic for the solver
    assert(x == 100 * (x / 100) + x % 100 && 0 <= x % 100 < 100);
    if p == 100 { assert(x == 100 * n); }
    if p == 0 { assert(x == 0) by(nonlinear_arith) requires p == 0, x == p * n; }
}
//@lemma fn=lemma_rank_monotone props=C15
// the 101 values are non-decreasing: the index is monotone in p (and the values are sorted)
proof fn lemma_rank_monotone(p: int, q: int, n: int)
    requires 0 <= p <= q <= 100, 1 <= n <= 0x200_0000,
    ensures nearest_rank_index(p, n) <= nearest_rank_index(q, n),
{
    lemma_mul_bounds(p, q, n);
    let x = p * n;
    let y = q * n;
    assert(x == 100 * (x / 100) + x % 100 && 0 <= x % 100 < 100);
    assert(y == 100 * (y / 100) + y % 100 && 0 <= y % 100 < 100);
}

// ---- the result cache keyed by the tip hash (fee_percentiles.rs:49-87) --------------------------------------------------
// fee rates of the most recent up to n non-coinbase transactions of the served chain, most recent block first:
// written from the statement of C15
// the rates one block contributes: the insertion-time cache if present, otherwise recomputed from its transactions
uninterp spec fn recomputed_rates_spec(b: CachedBlock, ub: &UnstableBlocks) -> Seq<u64>;
spec fn rates_of(b: CachedBlock, ub: &UnstableBlocks) -> Seq<u64> {
    match b.fee_rates { Some(v) => v@, None => recomputed_rates_spec(b, ub) }
}
// all rates of the blocks chain[k..], the most recent block first
spec fn recent_rates(chain: Seq<CachedBlock>, ub: &UnstableBlocks, k: int) -> Seq<u64>
    decreases chain.len() - k
{
    if k >= chain.len() || k < 0 { Seq::empty() } else { recent_rates(chain, ub, k + 1) + rates_of(chain[k], ub) }
}
spec fn take_rates(s: Seq<u64>, n: int) -> Seq<u64> { if n >= s.len() { s } else { s.subrange(0, n) } }
spec fn fees_per_byte_spec(chain: Seq<CachedBlock>, ub: &UnstableBlocks, n: u32) -> Seq<u64> {
    take_rates(recent_rates(chain, ub, 0), n as int)
}
proof fn lemma_take_prefix(p: Seq<u64>, s: Seq<u64>, n: int)
    requires 0 <= n <= p.len() <= s.len(), s.subrange(0, p.len() as int) == p,
    ensures take_rates(p, n) == take_rates(s, n),
{
    assert(take_rates(p, n) =~= take_rates(s, n));
}
proof fn lemma_recent_prefix(chain: Seq<CachedBlock>, ub: &UnstableBlocks, i: int, j: int)
    requires 0 <= j <= i <= chain.len(),
    ensures
        recent_rates(chain, ub, i).len() <= recent_rates(chain, ub, j).len(),
        recent_rates(chain, ub, j).subrange(0, recent_rates(chain, ub, i).len() as int) == recent_rates(chain, ub, i),
    decreases i - j
{
    if j < i {
        lemma_recent_prefix(chain, ub, i, j + 1);
        assert(recent_rates(chain, ub, j) == recent_rates(chain, ub, j + 1) + rates_of(chain[j], ub));
        assert(recent_rates(chain, ub, j).subrange(0, recent_rates(chain, ub, i).len() as int)
            =~= recent_rates(chain, ub, j + 1).subrange(0, recent_rates(chain, ub, i).len() as int));
    } else {
        assert(recent_rates(chain, ub, j).subrange(0, recent_rates(chain, ub, i).len() as int) =~= recent_rates(chain, ub, i));
    }
}
impl CachedBlock {
    // [trusted:assumed-contract] CachedBlock::fee_rates (blocktree.rs:61, `self.fee_rates.as_deref()`; Option::as_deref has no vstd spec)
    #[verifier::external_body]
    fn fee_rates(&self) -> (r: Option<&[MillisatoshiPerByte]>)
        ensures r.is_some() == self.fee_rates.is_some(), r matches Some(s) ==> s@ == self.fee_rates.unwrap()@,
    { unimplemented!() }
}
// [trusted:assumed-contract] the post-upgrade fallback `block.block().txdata().iter().filter_map(|tx| get_tx_fee_per_byte(tx, ..)).collect()`
// (fee_percentiles.rs:110-116, closure pipeline over the dependency's Transaction type): a function of the block and the tree
#[verifier::external_body]
fn vp_recompute_fee_rates(block: &CachedBlock, unstable_blocks: &UnstableBlocks) -> (r: Vec<MillisatoshiPerByte>)
    ensures r@ == recomputed_rates_spec(*block, unstable_blocks),
{ unimplemented!() }

// get_fees_per_byte (fee_percentiles.rs:94) on its real loops. R12 (Cow elimination): `Cow<'_, [T]>` => `&[T]`, `Cow::Borrowed(x)` => `x`,
// `Cow::Owned(e)` => `{ vp_owned = e; vp_owned.as_slice() }` (both arms deref to the same slice); `for &fee in` => `for vp_fee in` + `let fee = *vp_fee;`
//@extract file=canister/src/api/fee_percentiles.rs item="fn get_fees_per_byte" props=C15
//@ ret r
//@ rewrite R12 "let block_fee_rates: Cow<'_, \[MillisatoshiPerByte\]> = match" => "let vp_owned: Vec<MillisatoshiPerByte>;\n        let block_fee_rates: &[MillisatoshiPerByte] = match"
//@ rewrite R12 "Some\(cached\) => Cow::Borrowed\(cached\)," => "Some(cached) => cached,"
//@ rewrite R12 "None => Cow::Owned\(\s*block\s*\.block\(\)\s*\.txdata\(\)\s*\.iter\(\)\s*\.filter_map\(\|tx\| get_tx_fee_per_byte\(tx, unstable_blocks\)\)\s*\.collect\(\),\s*\)," => "None => { vp_owned = vp_recompute_fee_rates(block, unstable_blocks); vp_owned.as_slice() }"
//@ rewrite R12 "for &fee in block_fee_rates\.iter\(\) \{" => "for vp_fee in block_fee_rates.iter() {\n            let fee = *vp_fee;"
//@ spec
//@| ensures r@ == fees_per_byte_spec(deref_seq(main_chain@), unstable_blocks, number_of_transactions),
//@ start
//@| let ghost chain = deref_seq(main_chain@);
//@| let ghost mut started: int = 0;   // blocks whose rates have been taken (completely, or up to the cut)
//@| let ghost mut bi: int = 0;
//@| let ghost mut base: Seq<u64> = Seq::empty();
//@| let ghost mut taken: int = 0;
//@ before "break;" nth=1
//@| proof { lemma_recent_prefix(chain, unstable_blocks, chain.len() - started, 0); }
//@ before "let vp_owned"
//@| proof {
//@|     started = started + 1;
//@|     bi = chain.len() - started;
//@|     base = recent_rates(chain, unstable_blocks, bi + 1);
//@|     taken = 0;
//@| }
//@ before "for vp_fee in"
//@| proof {
//@|     assert(**block == chain[bi]);
//@|     assert(block_fee_rates@ == rates_of(chain[bi], unstable_blocks));
//@|     assert(recent_rates(chain, unstable_blocks, bi) == base + block_fee_rates@);
//@|     assert(block_fee_rates@.subrange(0, 0) =~= Seq::<u64>::empty());
//@|     assert(base + block_fee_rates@.subrange(0, 0) =~= base);
//@| }
//@ before "break;" nth=2
//@| proof {
//@|     let p = base + block_fee_rates@.subrange(0, taken);
//@|     let w = base + block_fee_rates@;
//@|     assert(w.subrange(0, p.len() as int) =~= p);
//@|     lemma_take_prefix(p, w, number_of_transactions as int);
//@| }
//@ after "fees.push(fee);"
//@| proof {
//@|     assert(base + block_fee_rates@.subrange(0, taken + 1) =~= (base + block_fee_rates@.subrange(0, taken)).push(fee));
//@|     taken = taken + 1;
//@| }
//@ loop 1 binder=itb
//@| invariant_except_break
//@|     started == itb.index@,
//@| invariant
//@|     chain == deref_seq(main_chain@),
//@|     0 <= started <= chain.len(),
//@|     tx_count == fees@.len(), tx_count <= number_of_transactions,
//@|     fees@ == take_rates(recent_rates(chain, unstable_blocks, chain.len() - started), number_of_transactions as int),
//@| ensures
//@|     fees@ == take_rates(recent_rates(chain, unstable_blocks, 0), number_of_transactions as int),
//@ loop 2 binder=itf
//@| invariant_except_break
//@|     taken == itf.index@,
//@| invariant
//@|     0 <= taken <= block_fee_rates@.len(),
//@|     tx_count == fees@.len(), tx_count <= number_of_transactions,
//@|     recent_rates(chain, unstable_blocks, bi) == base + block_fee_rates@,
//@|     block_fee_rates@.subrange(0, block_fee_rates@.len() as int) =~= block_fee_rates@,
//@|     fees@ == take_rates(base + block_fee_rates@.subrange(0, taken), number_of_transactions as int),
//@| ensures
//@|     tx_count == fees@.len(), tx_count <= number_of_transactions,
//@|     fees@ == take_rates(recent_rates(chain, unstable_blocks, bi), number_of_transactions as int),
//@end

// [trusted:assumed-spec] <[u64]>::sort_unstable: the ascending permutation of the slice
pub uninterp spec fn sorted_of<T>(s: Seq<T>) -> Seq<T>;
pub assume_specification<T: Ord>[<[T]>::sort_unstable](v: &mut [T])
    ensures final(v)@ == sorted_of(old(v)@),
;
spec fn sorted_u64(s: Seq<u64>) -> Seq<u64> { sorted_of(s) }
#[verifier::external_body]
proof fn axiom_sorted_u64(s: Seq<u64>)
    ensures
        sorted_u64(s).len() == s.len(),
        sorted_u64(s).to_multiset() == s.to_multiset(),
        forall|i: int, j: int| 0 <= i <= j < s.len() ==> sorted_u64(s)[i] <= sorted_u64(s)[j],
{}
// C15, from the statement: nothing for no values; otherwise exactly 101 values, the p-th being the nearest-rank percentile p of
// the sorted values (index 0 = minimum, 100 = maximum)
spec fn percentiles_spec(values: Seq<u64>) -> Seq<u64> {
    if values.len() == 0 { Seq::empty() }
    else { Seq::new(101, |p: int| sorted_u64(values)[nearest_rank_index(p, values.len() as int)]) }
}
//@lemma fn=lemma_percentiles_non_decreasing props=C15
proof fn lemma_percentiles_non_decreasing(values: Seq<u64>)
    requires 1 <= values.len() <= 0x200_0000,
    ensures
        percentiles_spec(values).len() == 101,
        forall|p: int, q: int| 0 <= p <= q <= 100 ==> percentiles_spec(values)[p] <= percentiles_spec(values)[q],
{
    axiom_sorted_u64(values);
    assert forall|p: int, q: int| 0 <= p <= q <= 100 implies percentiles_spec(values)[p] <= percentiles_spec(values)[q] by {
        lemma_rank_bounds(p, values.len() as int);
        lemma_rank_bounds(q, values.len() as int);
        lemma_rank_monotone(p, q, values.len() as int);
    }
}
// percentiles (fee_percentiles.rs:160) as a whole. R18: the closure `ceil_div` is the verified slice percentiles_ceil_div;
// `(0..N).map(|p| { e }).collect()` => a loop pushing `e` for p in 0..N
//@extract file=canister/src/api/fee_percentiles.rs item="fn percentiles" props=C15
//@ ret r
//@ rewrite R18 "let ceil_div = \|a, b\| (.*?);\n" => ""
//@ rewrite R18 "ceil_div\(" => "percentiles_ceil_div("
//@ rewrite R18 "\(0\.\.MAX_PERCENTILE \+ 1\)\s*\.map\(\|p\| \{(.*?)\n        \}\)\s*\.collect\(\)" => "{ let mut vp_out: Vec<u64> = Vec::new();\n    for p in 0..MAX_PERCENTILE + 1 {\n        let vp_v = {\1\n        };\n        vp_out.push(vp_v);\n    }\n    vp_out }"
//@ spec
//@| requires
//@|     // [assumption, stated] at most 2^25 fee rates (the repo keeps 10,000)
//@|     values@.len() <= 0x200_0000,
//@| ensures r@ =~= percentiles_spec(values@),
//@ loop 1 binder=itp
//@| invariant
//@|     MAX_PERCENTILE == 100,
//@|     1 <= values@.len() <= 0x200_0000,
//@|     values@ == sorted_u64(vp_in),
//@|     vp_in.len() == values@.len(),
//@|     vp_out@.len() == itp.index@,
//@|     forall|k: int| 0 <= k < itp.index@ ==> vp_out@[k] == sorted_u64(vp_in)[nearest_rank_index(k, vp_in.len() as int)],
//@ before "values.sort_unstable();"
//@| let ghost vp_in = values@;
//@| proof { axiom_sorted_u64(vp_in); }
//@ before "let ordinal_rank ="
//@| proof { lemma_rank_bounds(p as int, values@.len() as int); }
//@end
// [trusted:assumed-spec] Vec<u64>::clone
impl Clone for FeePercentilesCache {
    #[verifier::external_body]
    fn clone(&self) -> (r: Self) ensures r == *self { unimplemented!() }
}

//@extract file=canister/src/api/fee_percentiles.rs item="fn get_current_fee_percentiles_with_number_of_transactions" props=C15,C02
//@ ret r
//@ spec
//@| requires
//@|     old(state).unstable_blocks.tree.wf(),
//@|     // [assumption, stated] at most 2^25 fee rates are requested (the repo asks for 10,000)
//@|     number_of_transactions <= 0x200_0000,
//@| ensures
//@|     ({ let tip = old(state).unstable_blocks.tree.best_path().last().block_hash;
//@|        let fresh = fees_per_byte_spec(old(state).unstable_blocks.tree.best_path(), &old(state).unstable_blocks, number_of_transactions);
//@|        match old(state).fee_percentiles_cache {
//@|            // kept until the tip of the served chain changes
//@|            Some(c) if c.tip_block_hash == tip => r@ == c.fee_percentiles@ && *final(state) == *old(state),
//@|            // no fee-paying transaction: the previous answer is kept (and the cache is left alone)
//@|            Some(c) if fresh.len() == 0 => r@ == c.fee_percentiles@ && *final(state) == *old(state),
//@|            // otherwise computed for the new tip and cached under it
//@|            _ => r@ == percentiles_spec(fresh)
//@|                 && (final(state).fee_percentiles_cache matches Some(n) && n.tip_block_hash == tip && n.fee_percentiles@ == r@),
//@|        } }),
//@|     final(state).unstable_blocks == old(state).unstable_blocks && final(state).utxos == old(state).utxos,
//@ before "let fee_percentiles = percentiles(fees_per_byte);"
//@| proof { assert(fees_per_byte@.len() <= number_of_transactions); }
//@ before "let tip_block_hash = main_chain.tip().block_hash();"
//@| proof { state.unstable_blocks.tree.lemma_best_key_pos(); state.unstable_blocks.tree.lemma_best_path_len(); }
//@end

// ---- the fee rate of ONE transaction: the post-upgrade recomputation (fee_percentiles.rs:131) and the insertion-time
// ---- computation (outpoints_cache.rs:101) are the same function of (transaction, sum of its input values) -------------------
// [trusted:stand-in] ic_btc_types::Transaction / bitcoin::{TxIn, TxOut, OutPoint}: opaque; sizes and sums are uninterpreted
// functions of the transaction (vsize / total_size / base_size are DIFFERENT functions)
struct BitcoinOutPoint { id: u64 }
struct TxIn { previous_output: BitcoinOutPoint }
struct BitcoinTxOut { id: u64 }
struct Transaction { id: u64 }
// [trusted:stand-in] `(&bitcoin_outpoint).into()` (From<&bitcoin::OutPoint> for ic_btc_types::OutPoint; R9 turns it into this call)
#[verifier::external_body]
fn vp_outpoint_of(o: &BitcoinOutPoint) -> (r: OutPoint) ensures r == outpoint_of(*o) { unimplemented!() }
uninterp spec fn outpoint_of(o: BitcoinOutPoint) -> OutPoint;
impl Transaction {
    uninterp spec fn is_coinbase_spec(&self) -> bool;
    uninterp spec fn input_spec(&self) -> Seq<TxIn>;
    uninterp spec fn output_sum_spec(&self) -> u64;
    uninterp spec fn vsize_spec(&self) -> usize;
    uninterp spec fn total_size_spec(&self) -> usize;
    uninterp spec fn base_size_spec(&self) -> usize;
    #[verifier::external_body] fn is_coinbase(&self) -> (r: bool) ensures r == self.is_coinbase_spec() { unimplemented!() }
    #[verifier::external_body] fn input(&self) -> (r: &[TxIn]) ensures r@ == self.input_spec() { unimplemented!() }
    #[verifier::external_body] fn vsize(&self) -> (r: usize) ensures r == self.vsize_spec() { unimplemented!() }
    #[verifier::external_body] fn total_size(&self) -> (r: usize) ensures r == self.total_size_spec() { unimplemented!() }
    #[verifier::external_body] fn base_size(&self) -> (r: usize) ensures r == self.base_size_spec() { unimplemented!() }
}
// [trusted:stand-in] `tx.output().iter().map(|o| o.value.to_sat()).sum()` (closure pipeline; R9 turns it into this call): the sum of the output values
#[verifier::external_body]
fn vp_output_sum(tx: &Transaction) -> (r: u64) ensures r == tx.output_sum_spec() { unimplemented!() }

// sum of the values of the first n inputs, looked up in the unstable blocks' TxOut cache
spec fn input_sum_spec(tx: &Transaction, ub: &UnstableBlocks, n: int) -> int
    decreases n,
{
    if n <= 0 || n > tx.input_spec().len() { 0 } else { input_sum_spec(tx, ub, n - 1) + value_spec(ub, outpoint_of(tx.input_spec()[n - 1].previous_output)) }
}
// C15, from the statement: fee rate = floor(1000 x (inputs - outputs) / vsize) millisatoshi per VIRTUAL byte; coinbases,
// transactions whose outputs exceed their inputs and zero-size transactions contribute nothing
spec fn tx_rate_spec(tx: &Transaction, input_sum: int) -> Option<u64> {
    if tx.is_coinbase_spec() || input_sum < tx.output_sum_spec() || tx.vsize_spec() == 0 { None }
    else { Some(((1000 * (input_sum - tx.output_sum_spec())) / (tx.vsize_spec() as int)) as u64) }
}

//@extract file=canister/src/api/fee_percentiles.rs item="fn get_tx_fee_per_byte" props=C15
//@ ret r
//@ rewrite R10 "\.unwrap_or_else\(\|\| vp_trap\(\)\)" => ".unwrap()"
//@ rewrite R9 "\(&tx_in\.previous_output\)\.into\(\)" => "vp_outpoint_of(&tx_in.previous_output)"
//@ rewrite R9 "tx\.output\(\)\.iter\(\)\.map\(\|o\| o\.value\.to_sat\(\)\)\.sum\(\)" => "vp_output_sum(tx)"
//@ spec
//@| requires
//@|     // [assumption, stated] the input values of one transaction sum to less than 2^64/1000 satoshi (total supply is 2.1e15)
//@|     1000 * input_sum_spec(tx, unstable_blocks, tx.input_spec().len() as int) <= u64::MAX,
//@|     // the previous outputs a transaction of an unstable block spends are in the TxOut cache (the repo traps otherwise)
//@|     forall|i: int| 0 <= i < tx.input_spec().len() ==> has_tx_out(unstable_blocks, outpoint_of((#[trigger] tx.input_spec()[i]).previous_output)),
//@| ensures
//@|     r == tx_rate_spec(tx, input_sum_spec(tx, unstable_blocks, tx.input_spec().len() as int)),
//@ loop 1 binder=iti
//@| invariant
//@|     input_sum == input_sum_spec(tx, unstable_blocks, iti.index@ as int),
//@|     1000 * input_sum_spec(tx, unstable_blocks, tx.input_spec().len() as int) <= u64::MAX,
//@|     forall|i: int| 0 <= i < tx.input_spec().len() ==> has_tx_out(unstable_blocks, outpoint_of((#[trigger] tx.input_spec()[i]).previous_output)),
//@ before "let outpoint = vp_outpoint_of"
//@| proof {
//@|     lemma_input_sum_mono(tx, unstable_blocks, iti.index@ + 1, tx.input_spec().len() as int);
//@|     assert(*tx_in == tx.input_spec()[iti.index@ as int]);
//@| }
//@end
proof fn lemma_input_sum_mono(tx: &Transaction, ub: &UnstableBlocks, i: int, j: int)
    requires 0 <= i <= j <= tx.input_spec().len(),
    ensures 0 <= input_sum_spec(tx, ub, i) <= input_sum_spec(tx, ub, j),
    decreases j
{
    if i < j { lemma_input_sum_mono(tx, ub, i, j - 1); }
    else if i > 0 { lemma_input_sum_mono(tx, ub, i - 1, i - 1); }
}

// the insertion-time computation (outpoints_cache.rs:101-109): the same function of the transaction and its input sum
//@slice file=canister/src/unstable_blocks/outpoints_cache.rs item="fn insert_outpoints" from="if !tx.is_coinbase() {" nth=2 to_block=1 props=C15 optional=1
//@ rewrite R9 "tx\.output\(\)\.iter\(\)\.map\(\|o\| o\.value\.to_sat\(\)\)\.sum\(\)" => "vp_output_sum(tx)"
//@ head
//@| // R8 slice: the fee-rate statement at the end of insert_outpoints' per-transaction loop
//@| fn insert_outpoints_fee_rate(tx: &Transaction, input_sum: u64, fee_rates: &mut Vec<MillisatoshiPerByte>)
//@|     requires 1000 * input_sum <= u64::MAX,
//@|     ensures
//@|         // exactly the rate the post-upgrade recomputation yields for the same input sum is cached (nothing for None)
//@|         final(fee_rates)@ == (match tx_rate_spec(tx, input_sum as int) { Some(x) => old(fee_rates)@.push(x), None => old(fee_rates)@ }),
//@| {
//@ tail
//@| }
//@end
