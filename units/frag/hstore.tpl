// fragment: canister/src/validation.rs — the canister's HeaderStore (unstable chain + stable store) implements the
// abstract header chain that unit `valid` validates against (C11)

// headers of the stable blocks, by height (what BlockHeaderStore holds when wf_headers is true)
uninterp spec fn stable_headers(s: &BlockHeaderStore) -> Seq<Header>;
impl BlockHeaderStore {
    // [trusted:assumed-contract] BlockHeaderStore::get_with_height / get_with_block_hash (two StableBTreeMaps + consensus_decode):
    // the header stored at that height / the stored header with that hash
    #[verifier::external_body]
    fn get_with_height(&self, height: u32) -> (r: Option<Header>)
        ensures r == (if height < stable_headers(self).len() { Some(stable_headers(self)[height as int]) } else { None }),
    { unimplemented!() }
    #[verifier::external_body]
    fn get_with_block_hash(&self, block_hash: &BlockHash) -> (r: Option<Header>)
        ensures r == chain_lookup(stable_headers(self), *block_hash),
    { unimplemented!() }
}
spec fn chain_lookup(c: Seq<Header>, h: BlockHash) -> Option<Header> {
    if exists|i: int| 0 <= i < c.len() && header_hash(#[trigger] c[i]) == h {
        Some(c[choose|i: int| 0 <= i < c.len() && header_hash(#[trigger] c[i]) == h])
    } else { None }
}
spec fn ctx_headers(chain: Seq<(&Header, BlockHash)>) -> Seq<Header> { Seq::new(chain.len(), |i: int| *chain[i].0) }
// the chain the validator sees: stable headers followed by the unstable chain up to the parent of the candidate
spec fn full_chain(state: &State, chain: Seq<(&Header, BlockHash)>) -> Seq<Header> {
    stable_headers(&state.stable_block_headers) + ctx_headers(chain)
}
// [assumption, stated] the context is well formed: cached hashes are the hashes of their headers, hashes are injective along
// the whole chain, the store holds exactly the stable heights, the unstable part is not empty (it starts at the anchor)
spec fn ctx_wf(state: &State, chain: Seq<(&Header, BlockHash)>) -> bool {
    &&& stable_headers(&state.stable_block_headers).len() == state.utxos.next_height
    &&& 1 <= chain.len() && state.utxos.next_height + chain.len() < u32::MAX
    &&& forall|i: int| 0 <= i < chain.len() ==> (#[trigger] chain[i]).1 == header_hash(*chain[i].0)
    &&& forall|i: int, j: int| 0 <= i < full_chain(state, chain).len() && 0 <= j < full_chain(state, chain).len()
            && header_hash(#[trigger] full_chain(state, chain)[i]) == header_hash(#[trigger] full_chain(state, chain)[j]) ==> i == j
}
proof fn lemma_chain_lookup_at(c: Seq<Header>, i: int)
    requires 0 <= i < c.len(),
        forall|a: int, b: int| 0 <= a < c.len() && 0 <= b < c.len() && header_hash(#[trigger] c[a]) == header_hash(#[trigger] c[b]) ==> a == b,
    ensures chain_lookup(c, header_hash(c[i])) == Some(c[i]),
{
    let h = header_hash(c[i]);
    let j = choose|j: int| 0 <= j < c.len() && header_hash(#[trigger] c[j]) == h;
    assert(header_hash(c[j]) == header_hash(c[i]));
}

//@slice file=canister/src/validation.rs in="impl HeaderStore for ValidationContext<'_>" item="fn height" body=1 props=C11
//@ rewrite R7 "self\.state" => "state"
//@ rewrite R7 "self\.chain" => "chain"
//@ head
//@| // R8 slice: body of <ValidationContext as HeaderStore>::height with `self.state` / `self.chain` as parameters
//@| fn ctx_height(state: &State, chain: &Vec<(&Header, BlockHash)>) -> (r: u32)
//@|     requires ctx_wf(state, chain@),
//@|     ensures r == full_chain(state, chain@).len() - 1,
//@end
// only present when the canister's store OVERRIDES the trait's default `get_initial_hash` (= hash of get_with_height(0)): whatever it
// does, it must name the first header of the chain the validator walks (height 0)
//@slice file=canister/src/validation.rs in="impl HeaderStore for ValidationContext<'_>" item="fn get_initial_hash" body=1 props=C11,C10 optional=1
//@ rewrite R7? "self\.state" => "state"
//@ rewrite R7? "self\.chain" => "chain"
//@ head
//@| fn ctx_get_initial_hash(state: &State, chain: &Vec<(&Header, BlockHash)>) -> (r: RawBlockHash)
//@|     requires ctx_wf(state, chain@),
//@|     ensures BlockHash(r.0) == header_hash(full_chain(state, chain@)[0]),
//@end
//@slice file=canister/src/validation.rs in="impl HeaderStore for ValidationContext<'_>" item="fn get_with_height" body=1 props=C11
//@ rewrite R7 "self\.state" => "state"
//@ rewrite R7 "self\.chain" => "chain"
//@ rewrite R7 "self\.height\(\)" => "ctx_height(state, chain)"
//@ head
//@| fn ctx_get_with_height(state: &State, chain: &Vec<(&Header, BlockHash)>, height: u32) -> (r: Option<Header>)
//@|     requires ctx_wf(state, chain@),
//@|     ensures r == (if height < full_chain(state, chain@).len() { Some(full_chain(state, chain@)[height as int]) } else { None }),
//@end
//@slice file=canister/src/validation.rs in="impl HeaderStore for ValidationContext<'_>" item="fn get_with_block_hash" body=1 props=C11
//@ rewrite R7 "self\.state" => "state"
//@ rewrite R7 "self\.chain" => "chain"
//@ rewrite R3 "ic_btc_types::BlockHash::from\(hash\.as_raw_hash\(\)\.as_byte_array\(\)\.to_vec\(\)\)" => "BlockHash::from(*hash_in)"
//@ head
//@| fn ctx_get_with_block_hash(state: &State, chain: &Vec<(&Header, BlockHash)>, hash_in: &RawBlockHash) -> (r: Option<Header>)
//@|     requires ctx_wf(state, chain@),
//@|     ensures r == chain_lookup(full_chain(state, chain@), BlockHash(hash_in.0)),
//@ loop 1 binder=it
//@| invariant
//@|     ctx_wf(state, chain@),
//@|     hash == BlockHash(vp_raw.0),
//@|     vp_raw == *hash_in,
//@|     forall|i: int| 0 <= i < it.index@ ==> header_hash(*(#[trigger] chain@[i]).0) != hash,
//@ before "let hash ="
//@| let ghost vp_raw = *hash_in;
//@ before "return Some(*item.0);"
//@| proof {
//@|     let fc = full_chain(state, chain@);
//@|     let k = stable_headers(&state.stable_block_headers).len() + it.index@;
//@|     assert(*item == chain@[it.index@]);
//@|     assert(fc[k] == *chain@[it.index@].0);
//@|     assert(header_hash(fc[k]) == hash);
//@|     assert(hash == BlockHash(hash_in.0));
//@|     lemma_chain_lookup_at(fc, k);
//@| }
//@ before "state.stable_block_headers.get_with_block_hash(&hash)"
//@| proof { lemma_lookup_split(state, chain@, hash); }
//@end

proof fn lemma_lookup_split(state: &State, chain: Seq<(&Header, BlockHash)>, h: BlockHash)
    requires ctx_wf(state, chain), forall|i: int| 0 <= i < chain.len() ==> header_hash(*(#[trigger] chain[i]).0) != h,
    ensures chain_lookup(full_chain(state, chain), h) == chain_lookup(stable_headers(&state.stable_block_headers), h),
{
    let st = stable_headers(&state.stable_block_headers);
    let fc = full_chain(state, chain);
    if exists|i: int| 0 <= i < fc.len() && header_hash(#[trigger] fc[i]) == h {
        let i = choose|i: int| 0 <= i < fc.len() && header_hash(#[trigger] fc[i]) == h;
        if i >= st.len() {
            assert(fc[i] == *chain[i - st.len()].0);
            assert(false);
        }
        assert(fc[i] == st[i]);
        let j = choose|j: int| 0 <= j < st.len() && header_hash(#[trigger] st[j]) == h;
        assert(fc[j] == st[j]);
        assert(header_hash(fc[i]) == header_hash(fc[j]));
    } else {
        if exists|j: int| 0 <= j < st.len() && header_hash(#[trigger] st[j]) == h {
            let j = choose|j: int| 0 <= j < st.len() && header_hash(#[trigger] st[j]) == h;
            assert(fc[j] == st[j]);
            assert(header_hash(fc[j]) == h);
            assert(false);
        }
    }
}
