// fragment: canister/src/state.rs (+ guard.rs, lib.rs guards) over stand-ins for the stable structures
// TRUSTED stand-ins -----------------------------------------------------------------------
// [trusted:stand-in] candid::Principal — opaque value
#[derive(Clone, Copy, PartialEq, Eq, Structural)]
struct Principal { id: u64 }

// [trusted:stand-in] ic_btc_types::Block — hash + header + opaque body
struct Block { hash: BlockHash, header: Header, body: u64 }
impl Clone for Block {
    #[verifier::external_body]
    fn clone(&self) -> (r: Self) ensures r == *self { unimplemented!() }
}
impl Block {
    fn block_hash(&self) -> (r: &BlockHash) ensures *r == self.hash { &self.hash }
    fn header(&self) -> (r: &Header) ensures *r == self.header { &self.header }
    fn internal_bitcoin_block(&self) -> (r: &Block) ensures *r == *self { self }
}

impl CachedBlock {
    // [trusted:assumed-contract] CachedBlock::block() (blocktree.rs:52) reads the body from the shared cache: same hash and header
    #[verifier::external_body]
    fn block(&self) -> (r: Block)
        ensures r.hash == self.block_hash, r.header == self.header,
    { unimplemented!() }
}

//@extract file=canister/src/utxo_set.rs item="struct BlockIngestionStats"
//@ rewrite R2? "#\[derive\(([^\]]*)\)\]" => ""
//@end
//@extract file=canister/src/types.rs item="enum Slicing"
//@ rewrite R2? "#\[derive\(([^\]]*)\)\]" => ""
//@end

// [trusted:stand-in] UtxoSet: three StableBTreeMaps + Utxos + Box<dyn FnMut()->bool> are outside both tools.
// Abstract state kept: next_height, network, and the hash of the block whose ingestion is in progress.
struct UtxoSet { next_height: Height, network: Network, ingesting: Option<BlockHash>, opaque: u64 }
impl UtxoSet {
//@extract file=canister/src/utxo_set.rs in="impl UtxoSet" item="fn next_height" props=C02,C03,C07
//@ ret r
//@ spec
//@| ensures r == self.next_height,
//@end
//@extract file=canister/src/utxo_set.rs in="impl UtxoSet" item="fn network" props=C14
//@ ret r
//@ spec
//@| ensures r == self.network,
//@end

    // [trusted:assumed-contract] UtxoSet::ingest_block_continue (utxo_set.rs:103, enumerate().skip() + stable maps):
    // None iff nothing is in progress (state untouched); Paused keeps height and the block in progress;
    // Done returns that block's hash, clears it and increments next_height by exactly one.
    #[verifier::external_body]
    fn ingest_block_continue(&mut self) -> (r: Option<Slicing<(), (BlockHash, BlockIngestionStats)>>)
        ensures
            old(self).ingesting is None ==> r is None && *final(self) == *old(self),
            old(self).ingesting matches Some(h) ==> (match r {
                Some(Slicing::Paused(())) => final(self).next_height == old(self).next_height && final(self).ingesting == Some(h),
                Some(Slicing::Done((hh, _))) => hh == h && final(self).next_height == old(self).next_height + 1 && final(self).ingesting is None,
                None => false,
            }),
            final(self).network == old(self).network,
    { unimplemented!() }

    // [trusted:assumed-contract] UtxoSet::ingest_block (utxo_set.rs:79): traps if a block is in progress (repo assert!);
    // otherwise starts ingesting `block` and behaves like ingest_block_continue.
    #[verifier::external_body]
    fn ingest_block(&mut self, block: Block) -> (r: Slicing<(), (BlockHash, BlockIngestionStats)>)
        requires old(self).ingesting is None, old(self).next_height < u32::MAX,
        ensures
            (match r {
                Slicing::Paused(()) => final(self).next_height == old(self).next_height && final(self).ingesting == Some(block.hash),
                Slicing::Done((hh, _)) => hh == block.hash && final(self).next_height == old(self).next_height + 1 && final(self).ingesting is None,
            }),
            final(self).network == old(self).network,
    { unimplemented!() }
}

// [trusted:stand-in] BlockHeaderStore over two StableBTreeMaps: abstract view = height -> hash of the stored header
struct BlockHeaderStore { by_height: Ghost<Map<Height, BlockHash>>, opaque: u64 }
impl BlockHeaderStore {
    // [trusted:assumed-contract] BlockHeaderStore::insert_block(block, height) (block_header_store.rs:46): records block's header/hash at `height` (map insert, overwriting)
    #[verifier::external_body]
    fn insert_block(&mut self, block: &Block, height: Height)
        ensures final(self).by_height@ == old(self).by_height@.insert(height, block.hash),
    { unimplemented!() }
}

// [trusted:stand-in] Metrics: only the fields touched by verified code; histograms are opaque
struct InstructionHistogram { opaque: u64 }
impl InstructionHistogram {
    #[verifier::external_body]
    fn observe(&mut self, value: u64) { unimplemented!() }
}
struct Metrics { block_insertion: InstructionHistogram, block_ingestion_stats: BlockIngestionStats, opaque: u64 }

// [trusted:stand-in] runtime::performance_counter: abstracted as one arbitrary value per message (the IC counter is
// monotone, so differences never underflow); instruction counts feed only metrics and the variable fee part, whose
// formula is verified for EVERY count
uninterp spec fn perf_spec() -> u64;
#[verifier::external_body]
fn performance_counter() -> (r: u64) ensures r == perf_spec() { unimplemented!() }
// [trusted:stand-in] std::time::Duration
#[derive(Clone, Copy)]
struct Duration { secs: u64, nanos: u32 }
// the time of the current message
uninterp spec fn now_spec() -> Duration;
#[verifier::external_body]
fn duration_since_epoch() -> (r: Duration) ensures r == now_spec() { unimplemented!() }

//@extract file=interface/src/lib.rs item="struct Fees"
//@ rewrite R2? "#\[derive\(([^\]]*)\)\]" => ""
//@end
//@extract file=canister/src/types.rs item="struct BlockHeaderBlob"
//@ rewrite R2? "#\[derive\(([^\]]*)\)\]" => ""
//@end
type BlockBlob = Vec<u8>;
//@extract file=canister/src/types.rs item="struct GetSuccessorsCompleteResponse"
//@ rewrite R2? "#\[derive\(\s*([^\]]*)\)\]" => ""
//@end
//@extract file=canister/src/types.rs item="struct GetSuccessorsPartialResponse"
//@ rewrite R2? "#\[derive\(\s*([^\]]*)\)\]" => ""
//@end
//@extract file=canister/src/state.rs item="enum ResponseToProcess"
//@ rewrite R2? "#\[derive\(([^\]]*)\)\]" => ""
//@end
//@extract file=canister/src/state.rs item="struct SuccessorsRequestStats"
//@ rewrite R2? "#\[derive\(([^\]]*)\)\]" => ""
//@end
//@extract file=canister/src/state.rs item="struct SuccessorsResponseStats"
//@ rewrite R2? "#\[derive\(([^\]]*)\)\]" => ""
//@end
//@extract file=canister/src/state.rs item="struct SyncingState"
//@ rewrite R2? "#\[derive\(([^\]]*)\)\]" => ""
//@end
//@extract file=canister/src/state.rs item="struct FeePercentilesCache"
//@ rewrite R2? "#\[derive\(([^\]]*)\)\]" => ""
//@end
//@extract file=canister/src/state.rs item="struct GenericState"
//@ rewrite R2? "#\[derive\(([^\]]*)\)\]" => ""
//@end
//@extract file=canister/src/state.rs item="type State"
//@end

impl<A> GenericState<A> {
//@extract file=canister/src/state.rs in="impl<A> GenericState<A>" item="fn network" props=C14
//@ ret r
//@ spec
//@| ensures r == self.utxos.network,
//@end
//@extract file=canister/src/state.rs in="impl<A> GenericState<A>" item="fn stable_height" props=C03,C07
//@ ret r
//@ spec
//@| ensures r == self.utxos.next_height,
//@end
}

// ---------------------------------------------------------------------------------------
// SPEC: message-boundary invariant of the state (what every entry point may rely on and must re-establish)
// ---------------------------------------------------------------------------------------
// [assumption, stated] numeric ranges: heights < 2^32 - 2^20 so that stable height + chain length + 100 cannot wrap
spec fn state_ranges(s: &State) -> bool {
    &&& s.unstable_blocks.tree.wf()
    &&& s.unstable_blocks.tree.wf_depth()
    &&& s.utxos.next_height as int + s.unstable_blocks.tree.sdepth() + 0x10_0000 < u32::MAX
}

// C02: tip height = stable height + |served branch| - 1
//@extract file=canister/src/state.rs item="fn main_chain_height" props=C02,C07,C14
//@ ret r
//@ spec
//@| requires state_ranges(state),
//@| ensures r == state.utxos.next_height + state.unstable_blocks.tree.best_path().len() - 1,
//@ start
//@| proof { lemma_best_path_le_depth(&state.unstable_blocks.tree); }
//@end

proof fn lemma_best_path_le_depth(t: &BlockTree<CachedBlock>)
    ensures 1 <= t.best_path().len() <= t.sdepth(),
{
    t.lemma_best_path_is_leaf();
    t.lemma_best_path_len();
    t.lemma_best_is_max(t.best_idx_path());
    t.lemma_dbd_depth_are_max_over_paths(t.best_idx_path());
    t.lemma_best_key_pos();
}

// ---------------------------------------------------------------------------------------
// unstable_blocks::{peek, pop, push}: behind `Rc<RefCell<Box<dyn BlocksCache>>>`, boxed iterators and the
// entry-API OutPointsCache — outside Verus. Their decision function get_stable_child is checked by Kani (bounded).
// ---------------------------------------------------------------------------------------
// which child of the anchor is stable (None if none): uninterpreted here, decided by unstable_blocks::get_stable_child
uninterp spec fn stable_child_spec(b: &UnstableBlocks) -> Option<int>;

// [trusted:assumed-contract] unstable_blocks::get_stable_child (unstable_blocks.rs:383; `.iter().enumerate().map().collect()` +
// sort_by_key are outside Verus): the index of the anchor's stable child. Decided against the property's depth rule by the
// Kani harnesses of group stable_child (bounded in the number of children).
#[verifier::external_body]
fn get_stable_child(blocks: &UnstableBlocks) -> (r: Option<usize>)
    ensures
        r.is_some() <==> stable_child_spec(blocks).is_some(),
        r matches Some(i) ==> stable_child_spec(blocks) == Some(i as int) && i < blocks.tree.children@.len(),
{ unimplemented!() }

// [trusted:stand-in] the cache-side effects of pop: boxed iterators / entry-API maps / Rc<RefCell<..>> caches. They touch only
// the cache fields named in their signatures (&mut self), never the tree.
impl OutPointsCache {
    #[verifier::external_body]
    fn remove(&mut self, block: &Block) { unimplemented!() }
}
impl NextBlockHeaders {
    #[verifier::external_body]
    fn remove_until_height(&mut self, until_height: Height)
        ensures final(self).offered@ == old(self).offered@,
    { unimplemented!() }
}
impl BlockTree<CachedBlock> {
    // [trusted:stand-in] BlockTree::blocks (boxed `once().chain(flat_map())` iterator): all blocks of the subtree, as a vector
    #[verifier::external_body]
    fn blocks(&self) -> (r: Vec<&CachedBlock>) { unimplemented!() }
    // [trusted:stand-in] BlockTree::remove_from_cache: drops the subtree's bodies from the shared cache (consumes the subtree)
    #[verifier::external_body]
    fn remove_from_cache(self) { unimplemented!() }
    // [trusted:stand-in] BlockTree::tip_depths (explicit stack walk): opaque vector, only stored in the tip-depth cache
    #[verifier::external_body]
    fn tip_depths(&self) -> (r: Vec<usize>) { unimplemented!() }
//@extract file=canister/src/blocktree.rs in="impl BlockTree<CachedBlock>" item="fn into_root_and_remove_from_cache" props=C03
//@ ret r
//@ spec
//@| ensures r.hash == self.root.block_hash, r.header == self.root.header,
//@end
}
impl UnstableBlocks {
//@extract file=canister/src/unstable_blocks.rs in="impl UnstableBlocks" item="fn refresh_tip_depths_cache" props=C03
//@ spec
//@| ensures
//@|     final(self).tree == old(self).tree, final(self).stability_threshold == old(self).stability_threshold,
//@|     final(self).network == old(self).network, final(self).next_block_headers == old(self).next_block_headers,
//@|     final(self).outpoints_cache == old(self).outpoints_cache,
//@end
}

// unstable_blocks::peek (unstable_blocks.rs:299): Some(anchor) iff a stable child exists
//@extract file=canister/src/unstable_blocks.rs item="fn peek" props=C03
//@ ret r
//@ rewrite R9 "\.map\(\|_\| blocks\.tree\.root\(\)\)" => ".map(|vp_i: usize| -> (vp_b: &CachedBlock) ensures *vp_b == blocks.tree.root { blocks.tree.root() })"
//@ spec
//@| ensures
//@|     r.is_some() <==> stable_child_spec(blocks).is_some(),
//@|     r matches Some(b) ==> *b == blocks.tree.root,
//@end

// unstable_blocks::pop (unstable_blocks.rs:306): if a stable child exists, the tree becomes that child's subtree (siblings
// discarded) and the old anchor block is returned; otherwise None and nothing changes.
//@extract file=canister/src/unstable_blocks.rs item="fn pop" props=C03
//@ ret r
//@ spec
//@| ensures
//@|     r.is_some() <==> stable_child_spec(old(blocks)).is_some(),
//@|     r.is_none() ==> *final(blocks) == *old(blocks),
//@|     r matches Some(b) ==> b.hash == old(blocks).tree.root.block_hash && b.header == old(blocks).tree.root.header
//@|         && 0 <= stable_child_spec(old(blocks)).unwrap() < old(blocks).tree.children@.len()
//@|         && final(blocks).tree == old(blocks).tree.children@[stable_child_spec(old(blocks)).unwrap()]
//@|         && final(blocks).stability_threshold == old(blocks).stability_threshold
//@|         && final(blocks).network == old(blocks).network,
//@ loop 1 binder=itb
//@| invariant
//@|     blocks.tree == old(blocks).tree.children@[stable_child_idx as int],
//@|     tree.root == old(blocks).tree.root,
//@|     blocks.stability_threshold == old(blocks).stability_threshold, blocks.network == old(blocks).network,
//@end

// the tree after a new leaf `b` has been appended below the first block with hash b.sprev()
uninterp spec fn tree_extended(t: BlockTree<CachedBlock>, hash: BlockHash, header: Header) -> BlockTree<CachedBlock>;

// [trusted:assumed-contract] unstable_blocks::push (unstable_blocks.rs:328): Err iff the parent is not in the tree
// (then nothing changes); on Ok the block is appended as the last child of its parent.
#[verifier::external_body]
fn push(blocks: &mut UnstableBlocks, utxos: &UtxoSet, block: Block) -> (r: Result<(), BlockDoesNotExtendTree>)
    ensures
        r.is_ok() <==> old(blocks).tree.contains(BlockHash(block.header.prev_blockhash.0)),
        r.is_err() ==> *final(blocks) == *old(blocks),
        r.is_ok() ==> final(blocks).tree == tree_extended(old(blocks).tree, block.hash, block.header)
            && final(blocks).stability_threshold == old(blocks).stability_threshold
            && final(blocks).network == old(blocks).network
            && final(blocks).next_block_headers.offered@ == old(blocks).next_block_headers.offered@,
{ unimplemented!() }

//@extract file=canister/src/blocktree.rs item="struct BlockDoesNotExtendTree"
//@end

// module paths used by the extracted code
mod unstable_blocks {
    pub(crate) use super::{get_main_chain, get_main_chain_length, get_block_hashes, get_chain_with_tip, peek, pop, push};
}

// ---------------------------------------------------------------------------------------
// C03 / C07: ingestion of stable blocks
// ---------------------------------------------------------------------------------------
// wf_headers (C07): the header store holds exactly one header per height below the stable height — on EVERY exit
spec fn wf_headers(s: &State) -> bool {
    forall|h: Height| s.stable_block_headers.by_height@.dom().contains(h) <==> h < s.utxos.next_height
}
// C03: "the block recorded at a stable height never changes": every entry of `a` below height n is still in `b`, unchanged
spec fn headers_below_unchanged(a: Map<Height, BlockHash>, b: Map<Height, BlockHash>, n: Height) -> bool {
    forall|h: Height| h < n && #[trigger] a.dom().contains(h) ==> b.dom().contains(h) && b[h] == a[h]
}
// C03: a block in progress is the current anchor
spec fn wf_ingesting(s: &State) -> bool {
    s.utxos.ingesting matches Some(h) ==> h == s.unstable_blocks.tree.root.block_hash && stable_child_spec(&s.unstable_blocks).is_some()
}

proof fn lemma_child_depth_smaller(t: &BlockTree<CachedBlock>, i: int)
    requires 0 <= i < t.children@.len(),
    ensures t.children@[i].sdepth() < t.sdepth(),
{
    BlockTree::<CachedBlock>::lemma_max_child_depth_mono(t.children@, t.children@.len() as int, t.children@.len() as int);
}

//@extract file=canister/src/state.rs item="fn ingest_stable_blocks_into_utxoset" props=C03
//@ ret r
//@ rewrite R9 "fn pop_block\(state: &mut State, ingested_block_hash: BlockHash\)( -> [\w:<>]+)? \{" => "fn pop_block(state: &mut State, ingested_block_hash: BlockHash)\1 requires stable_child_spec(&old(state).unstable_blocks).is_some(), old(state).unstable_blocks.tree.root.block_hash == ingested_block_hash, old(state).utxos.next_height >= 1, ensures final(state).utxos == old(state).utxos, headers_below_unchanged(old(state).stable_block_headers.by_height@, final(state).stable_block_headers.by_height@, (old(state).utxos.next_height - 1) as Height), final(state).metrics == old(state).metrics, 0 <= stable_child_spec(&old(state).unstable_blocks).unwrap() < old(state).unstable_blocks.tree.children@.len(), final(state).unstable_blocks.tree == old(state).unstable_blocks.tree.children@[stable_child_spec(&old(state).unstable_blocks).unwrap()], {"
//@ spec
//@| requires
//@|     wf_ingesting(old(state)),
//@|     old(state).utxos.next_height as int + old(state).unstable_blocks.tree.sdepth() + 0x10_0000 < u32::MAX,
//@| ensures
//@|     // stable height never decreases
//@|     final(state).utxos.next_height >= old(state).utxos.next_height,
//@|     // the block recorded at a stable height never changes: entries below the old stable height are untouched
//@|     headers_below_unchanged(old(state).stable_block_headers.by_height@, final(state).stable_block_headers.by_height@, old(state).utxos.next_height),
//@|     // whenever a stable child exists the advance happens at this opportunity: Done(_) leaves nothing to ingest
//@|     r is Done ==> stable_child_spec(&final(state).unstable_blocks).is_none() && final(state).utxos.ingesting is None,
//@|     // nothing to do => nothing changes (losing forks are discarded only when the anchor advances)
//@|     r == Slicing::<(), bool>::Done(false) ==> final(state).utxos.next_height == old(state).utxos.next_height
//@|         && final(state).unstable_blocks == old(state).unstable_blocks,
//@|     // the anchor only ever moves to one of its (transitive first-level) children: stable height counts the pops
//@|     wf_ingesting(final(state)),
//@ loop 1
//@| invariant
//@|     state.utxos.ingesting is None,
//@|     state.utxos.next_height >= old(state).utxos.next_height,
//@|     state.utxos.next_height as int + state.unstable_blocks.tree.sdepth() + 0x10_0000 < u32::MAX,
//@|     headers_below_unchanged(old(state).stable_block_headers.by_height@, state.stable_block_headers.by_height@, old(state).utxos.next_height),
//@|     !did_work ==> state.utxos.next_height == old(state).utxos.next_height && state.unstable_blocks == old(state).unstable_blocks,
//@| ensures
//@|     stable_child_spec(&state.unstable_blocks).is_none(),
//@| decreases state.unstable_blocks.tree.sdepth(),
//@ after "pop_block(state, ingested_block_hash);" nth=2
//@| proof {
//@|     lemma_child_depth_smaller(&vp_loop_blocks.tree, stable_child_spec(&vp_loop_blocks).unwrap());
//@|     state.unstable_blocks.tree.lemma_depth_pos();
//@| }
//@ after "pop_block(state, ingested_block_hash);" nth=1
//@| proof { lemma_child_depth_smaller(&vp_pre_blocks.tree, stable_child_spec(&vp_pre_blocks).unwrap()); }
//@ before "let block = new_stable_block.block();"
//@| let ghost vp_loop_blocks = state.unstable_blocks;
//@| proof { state.unstable_blocks.tree.lemma_depth_pos(); }
//@ before "match state.utxos.ingest_block_continue() {"
//@| let ghost vp_pre_blocks = state.unstable_blocks;
//@end

//@extract file=canister/src/state.rs item="fn ingest_stable_blocks_into_utxoset" props=C07 rename=ingest_stable_blocks_into_utxoset_c07
//@ ret r
//@ rewrite R9 "fn pop_block\(state: &mut State, ingested_block_hash: BlockHash\)( -> [\w:<>]+)? \{" => "fn pop_block(state: &mut State, ingested_block_hash: BlockHash)\1 requires stable_child_spec(&old(state).unstable_blocks).is_some(), old(state).unstable_blocks.tree.root.block_hash == ingested_block_hash, old(state).utxos.next_height >= 1, ensures final(state).utxos == old(state).utxos, final(state).stable_block_headers.by_height@ == old(state).stable_block_headers.by_height@.insert((old(state).utxos.next_height - 1) as Height, ingested_block_hash), final(state).metrics == old(state).metrics, 0 <= stable_child_spec(&old(state).unstable_blocks).unwrap() < old(state).unstable_blocks.tree.children@.len(), final(state).unstable_blocks.tree == old(state).unstable_blocks.tree.children@[stable_child_spec(&old(state).unstable_blocks).unwrap()], {"
//@ spec
//@| requires
//@|     wf_ingesting(old(state)),
//@|     wf_headers(old(state)),
//@|     old(state).utxos.next_height as int + old(state).unstable_blocks.tree.sdepth() + 0x10_0000 < u32::MAX,
//@| ensures
//@|     // C07: at EVERY exit (also the paused ones) the store holds exactly the headers below the stable height,
//@|     // so a range query composes one header per height across the stable/unstable boundary
//@|     wf_headers(final(state)),
//@ loop 1
//@| invariant
//@|     state.utxos.ingesting is None,
//@|     state.utxos.next_height >= old(state).utxos.next_height,
//@|     state.utxos.next_height as int + state.unstable_blocks.tree.sdepth() + 0x10_0000 < u32::MAX,
//@|     headers_below_unchanged(old(state).stable_block_headers.by_height@, state.stable_block_headers.by_height@, old(state).utxos.next_height),
//@|     !did_work ==> state.utxos.next_height == old(state).utxos.next_height && state.unstable_blocks == old(state).unstable_blocks,
//@|     wf_headers(state),
//@| ensures
//@|     stable_child_spec(&state.unstable_blocks).is_none(),
//@| decreases state.unstable_blocks.tree.sdepth(),
//@ after "pop_block(state, ingested_block_hash);" nth=2
//@| proof {
//@|     lemma_child_depth_smaller(&vp_loop_blocks.tree, stable_child_spec(&vp_loop_blocks).unwrap());
//@|     state.unstable_blocks.tree.lemma_depth_pos();
//@| }
//@ after "pop_block(state, ingested_block_hash);" nth=1
//@| proof { lemma_child_depth_smaller(&vp_pre_blocks.tree, stable_child_spec(&vp_pre_blocks).unwrap()); }
//@ before "let block = new_stable_block.block();"
//@| let ghost vp_loop_blocks = state.unstable_blocks;
//@| proof { state.unstable_blocks.tree.lemma_depth_pos(); }
//@ before "match state.utxos.ingest_block_continue() {"
//@| let ghost vp_pre_blocks = state.unstable_blocks;
//@end

// ---------------------------------------------------------------------------------------
// C10: admission of a block
// ---------------------------------------------------------------------------------------
//@extract file=canister/src/validation.rs item="enum ValidationContextError"
//@ rewrite R2? "#\[derive\(([^\]]*)\)\]" => ""
//@end
// [trusted:stand-in] ic_btc_validation::{ValidateBlockError, BlockValidator}: proved against the consensus spec in unit `valid`;
// here only "validate_block is a function of (context chain, block, time) that does not touch the state"
struct ValidateBlockError { code: u8 }
//@extract file=canister/src/state.rs item="enum InsertBlockError"
//@ rewrite R2? "#\[derive\(([^\]]*)\)\]" => ""
//@end
//@extract file=canister/src/state.rs item="impl From<ValidationContextError> for InsertBlockError"
//@end
//@extract file=canister/src/state.rs item="impl From<ValidateBlockError> for InsertBlockError"
//@end
impl vstd::std_specs::convert::FromSpecImpl<ValidationContextError> for InsertBlockError {
    closed spec fn obeys_from_spec() -> bool { true }
    closed spec fn from_spec(v: ValidationContextError) -> Self { InsertBlockError::InvalidContext(v) }
}
impl vstd::std_specs::convert::FromSpecImpl<ValidateBlockError> for InsertBlockError {
    closed spec fn obeys_from_spec() -> bool { true }
    closed spec fn from_spec(v: ValidateBlockError) -> Self { InsertBlockError::InvalidBlock(v) }
}

// [trusted:stand-in] bitcoin::Network as produced by into_bitcoin_network
#[derive(Clone, Copy, PartialEq, Eq, Structural)]
enum BitcoinNetwork { Bitcoin, Testnet4, Regtest }
//@extract file=canister/src/types.rs item="fn into_bitcoin_network" props=C10
//@ ret r
//@ spec
//@| ensures r == (match network { Network::Mainnet => BitcoinNetwork::Bitcoin, Network::Testnet => BitcoinNetwork::Testnet4, Network::Regtest => BitcoinNetwork::Regtest }),
//@end

// the parent of `header` is the anchor or an unstable block, and `header` is not already one of that parent's children
spec fn ctx_error_spec(s: &State, header: Header, hash: BlockHash) -> Option<ValidationContextError> {
    let parent = BlockHash(header.prev_blockhash.0);
    if !s.unstable_blocks.tree.contains(parent) { Some(ValidationContextError::BlockDoesNotExtendTree(hash)) }
    else if exists|i: int| 0 <= i < s.unstable_blocks.tree.subtree_at(s.unstable_blocks.tree.idx_path_to(parent)).children@.len()
        && (#[trigger] s.unstable_blocks.tree.subtree_at(s.unstable_blocks.tree.idx_path_to(parent)).children@[i]).root.block_hash == hash
        { Some(ValidationContextError::AlreadyKnown(hash)) }
    else { None }
}
uninterp spec fn header_hash(h: Header) -> BlockHash;
uninterp spec fn block_valid_spec(s: &State, block: &Block, now: Duration) -> Option<ValidateBlockError>;

// unstable_blocks::get_chain_with_tip (unstable_blocks.rs:369): the tree's verified lookup
//@extract file=canister/src/unstable_blocks.rs item="fn get_chain_with_tip" props=C10
//@ ret res
//@ spec
//@| ensures
//@|     res.is_some() <==> blocks.tree.contains(*tip),
//@|     res matches Some(p) ==> p.0@ =~= blocks.tree.path_blocks(blocks.tree.idx_path_to(*tip))
//@|         && deref_seq(p.1@) =~= blocks.tree.subtree_at(blocks.tree.idx_path_to(*tip)).child_roots(),
//@end
mod ic_btc_types {
    pub(crate) use super::BlockHash;
}
impl Header {
    // [trusted:stand-in] bitcoin::block::Header::block_hash (double SHA-256 of the 80 header bytes): a function of the header
    #[verifier::external_body]
    fn block_hash(&self) -> (r: RawBlockHash) ensures BlockHash(r.0) == header_hash(*self) { unimplemented!() }
}
// ValidationContext::new (validation.rs:22) up to the construction of the context: connected to the tree? already a child of
// its parent? R15 (`any` desugaring): `if xs.iter().any(|c| p) {` => `let mut vp_any = false; for c in xs.iter() { if p { vp_any = true; break; } } if vp_any {`
//@slice file=canister/src/validation.rs in="impl<'a> ValidationContext<'a>" item="fn new" to_before="let chain = chain" props=C10
//@ rewrite R15 "if tip_successors\s*\.iter\(\)\s*\.any\(\|(\w+)\| (\w+\.block_hash\(\) == &current_block_hash)\)\s*\{" => "let mut vp_any = false;\n        for \1 in tip_successors.iter() {\n            if \2 {\n                vp_any = true;\n                break;\n            }\n            proof { vp_seen = vp_seen + 1; }\n        }\n        if vp_any {"
//@ head
//@| // R8 slice: the admission checks of ValidationContext::new
//@| fn validation_context_new_checks(state: &State, header: &Header) -> (r: Result<(), ValidationContextError>)
//@|     ensures
//@|         // BlockDoesNotExtendTree iff the parent is neither the anchor nor an unstable block; AlreadyKnown iff the block is
//@|         // already one of its parent's children; otherwise the context is built
//@|         r == (match ctx_error_spec(state, *header, header_hash(*header)) { Some(e) => Err::<(), ValidationContextError>(e), None => Ok(()) }),
//@| {
//@ tail
//@|     proof {
//@|         let t = state.unstable_blocks.tree;
//@|         let node = t.subtree_at(t.idx_path_to(prev_block_hash));
//@|         assert(tip_successors@.len() == node.children@.len());
//@|         assert forall|i: int| 0 <= i < node.children@.len() implies (#[trigger] node.children@[i]).root.block_hash != current_block_hash by {
//@|             assert(tip_successors@[i].block_hash == node.children@[i].root.block_hash);
//@|         }
//@|     }
//@|     Ok(())
//@| }
//@ before "vp_any = true;"
//@| proof {
//@|     assert(0 <= vp_seen < tip_successors@.len() && tip_successors@[vp_seen].block_hash == current_block_hash);
//@| }
//@ before "if vp_any {"
//@| proof {
//@|     // the successors handed back are exactly the children of the parent's node
//@|     let t = state.unstable_blocks.tree;
//@|     let node = t.subtree_at(t.idx_path_to(prev_block_hash));
//@|     assert(deref_seq(tip_successors@) =~= node.child_roots());
//@|     assert forall|j: int| 0 <= j < tip_successors@.len() implies (#[trigger] tip_successors@[j]).block_hash == node.children@[j].root.block_hash by {
//@|         assert(deref_seq(tip_successors@)[j] == node.child_roots()[j]);
//@|     }
//@| }
//@ before "let mut vp_any = false;"
//@| let ghost mut vp_seen: int = 0;
//@ loop 1 binder=its
//@| invariant_except_break
//@|     !vp_any,
//@| invariant
//@|     0 <= vp_seen <= tip_successors@.len(),
//@|     !vp_any ==> vp_seen == its.index@,
//@|     forall|j: int| 0 <= j < vp_seen ==> (#[trigger] tip_successors@[j]).block_hash != current_block_hash,
//@|     vp_any ==> (vp_seen < tip_successors@.len() && tip_successors@[vp_seen].block_hash == current_block_hash),
//@| ensures
//@|     vp_any <==> exists|j: int| 0 <= j < tip_successors@.len() && (#[trigger] tip_successors@[j]).block_hash == current_block_hash,
//@end

struct ValidationContext<'a> { state: &'a State, header: Header }
impl<'a> ValidationContext<'a> {
    // [trusted:assumed-contract] ValidationContext::new (validation.rs:22) as seen by insert_block: its admission checks are
    // VERIFIED above as the slice validation_context_new_checks against the same ctx_error_spec; what stays assumed is the
    // glue of the two halves (the `.map(..).collect()` pipeline building `chain` cannot fail) and c.state == state.
    #[verifier::external_body]
    fn new(state: &'a State, header: &Header) -> (r: Result<ValidationContext<'a>, ValidationContextError>)
        ensures
            r matches Ok(c) ==> ctx_error_spec(state, *header, header_hash(*header)).is_none() && c.state == state && c.header == *header,
            r matches Err(e) ==> ctx_error_spec(state, *header, header_hash(*header)) == Some(e),
    { unimplemented!() }
}
struct BlockValidator<'a> { ctx: ValidationContext<'a>, network: BitcoinNetwork }
impl<'a> BlockValidator<'a> {
    #[verifier::external_body]
    fn new(ctx: ValidationContext<'a>, network: BitcoinNetwork) -> (r: BlockValidator<'a>)
        ensures r.ctx == ctx, r.network == network,
    { unimplemented!() }
    // [trusted:assumed-contract] BlockValidator::validate_block: pure function of (state behind the context, block, time) — its
    // meaning is what unit `valid` proves (C11, C12)
    #[verifier::external_body]
    fn validate_block(&self, block: &Block, now: Duration) -> (r: Result<(), ValidateBlockError>)
        ensures
            r.is_ok() <==> block_valid_spec(self.ctx.state, block, now).is_none(),
            r matches Err(e) ==> block_valid_spec(self.ctx.state, block, now) == Some(e),
    { unimplemented!() }
}

//@extract file=canister/src/state.rs item="fn insert_block" props=C10
//@ ret r
//@ spec
//@| requires
//@|     header_hash(block.header) == block.hash,
//@| ensures
//@|     // admitted iff new, connected and valid
//@|     r.is_ok() <==> (ctx_error_spec(old(state), block.header, block.hash).is_none()
//@|                     && block_valid_spec(old(state), &block, now_spec()).is_none()),
//@|     // rejects are atomic: nothing at all changes
//@|     r.is_err() ==> *final(state) == *old(state),
//@|     // on success exactly that block is appended below its parent; nothing else but the insertion histogram changes
//@|     r.is_ok() ==> final(state).unstable_blocks.tree == tree_extended(old(state).unstable_blocks.tree, block.hash, block.header)
//@|         && final(state).utxos == old(state).utxos
//@|         && final(state).stable_block_headers == old(state).stable_block_headers
//@|         && final(state).syncing_state == old(state).syncing_state
//@|         && final(state).fees == old(state).fees
//@|         && final(state).api_access == old(state).api_access
//@|         && final(state).unstable_blocks.next_block_headers.offered@ == old(state).unstable_blocks.next_block_headers.offered@,
//@end

// ---------------------------------------------------------------------------------------
// The single thread-local state (lib.rs:52-66). Rule R7: `with_state(|s| E)` => `{ let s: &State = vp_state(); E }`;
// `with_state_mut(|s| B)` in a function extracted state-passing => `{ let s: &mut State = &mut *vp_st; B }`.
// ---------------------------------------------------------------------------------------
uninterp spec fn global_state() -> State;
// [trusted:stand-in] the thread-local STATE read through with_state
#[verifier::external_body]
fn vp_state() -> (r: &'static State)
    ensures *r == global_state(),
{ unimplemented!() }
// R6 (refusal mode): panic!(..) => vp_refuse(): diverges (the call traps and the IC rolls the message back)
#[verifier::external_body]
fn vp_refuse() -> ! { panic!() }

//@extract file=canister/src/lib.rs item="const SYNCED_THRESHOLD" props=C14
//@end

// [trusted:assumed-spec] std::cmp::max on u32 via the generic spec above (u32 obeys cmp spec in vstd)

// ---- C14 guards, refusal mode: if the guard returns, its condition held ----------------------
//@extract file=canister/src/lib.rs item="fn verify_network" props=C14 mode=refuse
//@ r7 ro="vp_state()" type=State
//@ spec
//@| ensures global_state().utxos.network == network,
//@end
//@extract file=canister/src/lib.rs item="fn verify_api_access" props=C14 mode=refuse
//@ r7 ro="vp_state()" type=State
//@ spec
//@| ensures global_state().api_access != Flag::Disabled,
//@end
//@extract file=canister/src/lib.rs item="fn is_synced" props=C14
//@ ret r
//@ r7 ro="vp_state()" type=State
//@ spec
//@| requires state_ranges(&global_state()),
//@| ensures r == synced_spec(&global_state()),
//@ start
//@| proof { lemma_best_path_le_depth(&global_state().unstable_blocks.tree); }
//@end
//@extract file=canister/src/lib.rs item="fn verify_synced" props=C14 mode=refuse
//@ r7 ro="vp_state()" type=State
//@ spec
//@| requires state_ranges(&global_state()),
//@| ensures global_state().disable_api_if_not_fully_synced != Flag::Disabled ==> synced_spec(&global_state()),
//@end

// C14: "the highest validated announced header is at most 2 above the best-chain height"
spec fn synced_spec(s: &State) -> bool {
    let tip = s.utxos.next_height + s.unstable_blocks.tree.best_path().len() - 1;
    match s.unstable_blocks.next_block_headers.max_height_spec() {
        Some(m) => m <= tip + 2,
        None => true,
    }
}
// what every gated data endpoint may assume once its three guards have returned
spec fn gate_spec(s: &State, network: Network, sync_rule: bool) -> bool {
    &&& s.api_access != Flag::Disabled
    &&& s.utxos.network == network
    &&& (sync_rule && s.disable_api_if_not_fully_synced != Flag::Disabled ==> synced_spec(s))
}

// ---------------------------------------------------------------------------------------
// C02: get_blockchain_info describes the last block of the served branch
// ---------------------------------------------------------------------------------------
// [trusted:stand-in] ic_btc_interface::BlockchainInfo (same field names)
struct BlockchainInfo { height: Height, block_hash: Vec<u8>, timestamp: u32, difficulty: u128, utxos_length: u64 }
impl BlockHash {
    // [trusted:stand-in] BlockHash::to_vec: the 32 bytes of the hash (here: an injective image of the stand-in value)
    uninterp spec fn bytes_spec(&self) -> Seq<u8>;
    #[verifier::external_body]
    fn to_vec(&self) -> (r: Vec<u8>) ensures r@ == self.bytes_spec() { unimplemented!() }
}
impl UtxoSet {
    // [trusted:stand-in] UtxoSet::utxos_len (stable map length)
    #[verifier::external_body]
    fn utxos_len(&self) -> (r: u64) ensures r < 0x4000_0000_0000_0000 { unimplemented!() }
}
// sum of the per-block UTXO deltas of the first n blocks of a chain
spec fn delta_sum(c: Seq<CachedBlock>, n: int) -> int
    decreases n,
{
    if n <= 0 || n > c.len() { 0 } else { delta_sum(c, n - 1) + c[n - 1].utxo_delta }
}
// [assumption, stated] the running UTXO count stays within i64
spec fn deltas_in_range(base: int, c: Seq<CachedBlock>) -> bool {
    forall|n: int| 0 <= n <= c.len() ==> -0x4000_0000_0000_0000 < #[trigger] (base + delta_sum(c, n)) < 0x4000_0000_0000_0000
}

//@extract file=canister/src/state.rs item="fn blockchain_info" props=C02
//@ ret r
//@ sigrewrite R3 "crate::types::BlockchainInfo" => "BlockchainInfo"
//@ rewrite R3 "crate::types::BlockchainInfo" => "BlockchainInfo"
//@ rewrite R4 "for block in main_chain\.into_chain\(\) \{" => "let vp_chain = main_chain.into_chain(); for block in it: vp_chain.iter() {"
//@ spec
//@| requires
//@|     state_ranges(state),
//@|     forall|b: int| deltas_in_range(b, state.unstable_blocks.tree.best_path()),
//@| ensures
//@|     ({ let tip = state.unstable_blocks.tree.best_path().last();
//@|        // height, hash, timestamp and difficulty describe the last block of the served branch
//@|        &&& r.height == state.utxos.next_height + state.unstable_blocks.tree.best_path().len() - 1
//@|        &&& r.block_hash@ == tip.block_hash.bytes_spec()
//@|        &&& r.timestamp == tip.header.time
//@|        &&& r.difficulty == tip.difficulty }),
//@ loop 1
//@| invariant
//@|     deref_seq(vp_chain@) =~= state.unstable_blocks.tree.best_path(),
//@|     utxos_length == vp_base + delta_sum(state.unstable_blocks.tree.best_path(), it.index@),
//@|     deltas_in_range(vp_base, state.unstable_blocks.tree.best_path()),
//@ before "utxos_length += block.utxo_delta();"
//@| proof {
//@|     let c = state.unstable_blocks.tree.best_path();
//@|     assert(*block == c[it.index@]);
//@|     assert(delta_sum(c, it.index@ + 1) == delta_sum(c, it.index@) + c[it.index@].utxo_delta);
//@|     assert(-0x4000_0000_0000_0000 < vp_base + delta_sum(c, it.index@ + 1) < 0x4000_0000_0000_0000);
//@|     assert(-0x4000_0000_0000_0000 < vp_base + delta_sum(c, it.index@) < 0x4000_0000_0000_0000);
//@| }
//@ before "let vp_chain = main_chain.into_chain();"
//@| let ghost vp_base = utxos_length as int;
//@| proof { state.unstable_blocks.tree.lemma_best_key_pos(); state.unstable_blocks.tree.lemma_best_path_len(); }
//@end
