// fragment: canister/src/state.rs (+ guard.rs, lib.rs guards) over stand-ins for the stable structures
// TRUSTED stand-ins -----------------------------------------------------------------------
// [trusted:stand-in] candid::Principal — opaque value
#[derive(Clone, Copy, PartialEq, Eq, Structural)]
struct Principal { id: u64 }

// [trusted:stand-in] ic_btc_types::Block — hash + header + opaque body
struct Block { hash: BlockHash, header: Header, body: u64 }
impl Clone for Block {
    #[verifier::external_body]
    fn clone(&self) -> (r: Self) ensures r == *self { unimplemented!() }
}
impl Block {
    fn block_hash(&self) -> (r: &BlockHash) ensures *r == self.hash { &self.hash }
    fn header(&self) -> (r: &Header) ensures *r == self.header { &self.header }
    fn internal_bitcoin_block(&self) -> (r: &Block) ensures *r == *self { self }
}

impl CachedBlock {
    // [trusted:assumed-contract] CachedBlock::block() (blocktree.rs:52) reads the body from the shared cache: same hash and header
    #[verifier::external_body]
    fn block(&self) -> (r: Block)
        ensures r.hash == self.block_hash, r.header == self.header,
    { unimplemented!() }
}

//@extract file=canister/src/utxo_set.rs item="struct BlockIngestionStats"
//@ rewrite R2? "#\[derive\(([^\]]*)\)\]" => ""
//@end
//@extract file=canister/src/types.rs item="enum Slicing"
//@ rewrite R2? "#\[derive\(([^\]]*)\)\]" => ""
//@end

// [trusted:stand-in] UtxoSet: three StableBTreeMaps + Utxos + Box<dyn FnMut()->bool> are outside both tools.
// Abstract state kept: next_height, network, and the hash of the block whose ingestion is in progress.
struct UtxoSet { next_height: Height, network: Network, ingesting: Option<BlockHash>, opaque: u64 }
impl UtxoSet {
//@extract file=canister/src/utxo_set.rs in="impl UtxoSet" item="fn next_height" props=C02,C03,C07
//@ ret r
//@ spec
//@| ensures r == self.next_height,
//@end
//@extract file=canister/src/utxo_set.rs in="impl UtxoSet" item="fn network" props=C14
//@ ret r
//@ spec
//@| ensures r == self.network,
//@end

    // [trusted:assumed-contract] UtxoSet::ingest_block_continue (utxo_set.rs:103, enumerate().skip() + stable maps):
    // None iff nothing is in progress (state untouched); Paused keeps height and the block in progress;
    // Done returns that block's hash, clears it and increments next_height by exactly one.
    #[verifier::external_body]
    fn ingest_block_continue(&mut self) -> (r: Option<Slicing<(), (BlockHash, BlockIngestionStats)>>)
        ensures
            old(self).ingesting is None ==> r is None && *final(self) == *old(self),
            old(self).ingesting matches Some(h) ==> (match r {
                Some(Slicing::Paused(())) => final(self).next_height == old(self).next_height && final(self).ingesting == Some(h),
                Some(Slicing::Done((hh, _))) => hh == h && final(self).next_height == old(self).next_height + 1 && final(self).ingesting is None,
                None => false,
            }),
            final(self).network == old(self).network,
    { unimplemented!() }

    // [trusted:assumed-contract] UtxoSet::ingest_block (utxo_set.rs:79): traps if a block is in progress (repo assert!);
    // otherwise starts ingesting `block` and behaves like ingest_block_continue.
    #[verifier::external_body]
    fn ingest_block(&mut self, block: Block) -> (r: Slicing<(), (BlockHash, BlockIngestionStats)>)
        requires old(self).ingesting is None, old(self).next_height < u32::MAX,
        ensures
            (match r {
                Slicing::Paused(()) => final(self).next_height == old(self).next_height && final(self).ingesting == Some(block.hash),
                Slicing::Done((hh, _)) => hh == block.hash && final(self).next_height == old(self).next_height + 1 && final(self).ingesting is None,
            }),
            final(self).network == old(self).network,
    { unimplemented!() }
}

// [trusted:stand-in] BlockHeaderStore over two StableBTreeMaps: abstract view = height -> hash of the stored header
struct BlockHeaderStore { by_height: Ghost<Map<Height, BlockHash>>, opaque: u64 }
impl BlockHeaderStore {
    // [trusted:assumed-contract] BlockHeaderStore::insert_block(block, height) (block_header_store.rs:46): records block's header/hash at `height` (map insert, overwriting)
    #[verifier::external_body]
    fn insert_block(&mut self, block: &Block, height: Height)
        ensures final(self).by_height@ == old(self).by_height@.insert(height, block.hash),
    { unimplemented!() }
}

// [trusted:stand-in] Metrics: only the fields touched by verified code; histograms are opaque
struct InstructionHistogram { opaque: u64 }
impl InstructionHistogram {
    #[verifier::external_body]
    fn observe(&mut self, value: u64) { unimplemented!() }
}
struct Metrics { block_insertion: InstructionHistogram, block_ingestion_stats: BlockIngestionStats, opaque: u64 }

// [trusted:stand-in] runtime::performance_counter: abstracted as one arbitrary value per message (the IC counter is
// monotone, so differences never underflow); instruction counts feed only metrics and the variable fee part, whose
// formula is verified for EVERY count
uninterp spec fn perf_spec() -> u64;
#[verifier::external_body]
fn performance_counter() -> (r: u64) ensures r == perf_spec() { unimplemented!() }
// [trusted:stand-in] std::time::Duration
#[derive(Clone, Copy)]
struct Duration { secs: u64, nanos: u32 }
// the time of the current message
uninterp spec fn now_spec() -> Duration;
#[verifier::external_body]
fn duration_since_epoch() -> (r: Duration) ensures r == now_spec() { unimplemented!() }

//@extract file=interface/src/lib.rs item="struct Fees"
//@ rewrite R2? "#\[derive\(([^\]]*)\)\]" => ""
//@end
//@extract file=canister/src/types.rs item="struct BlockHeaderBlob"
//@ rewrite R2? "#\[derive\(([^\]]*)\)\]" => ""
//@end
type BlockBlob = Vec<u8>;
//@extract file=canister/src/types.rs item="struct GetSuccessorsCompleteResponse"
//@ rewrite R2? "#\[derive\(\s*([^\]]*)\)\]" => ""
//@end
//@extract file=canister/src/types.rs item="struct GetSuccessorsPartialResponse"
//@ rewrite R2? "#\[derive\(\s*([^\]]*)\)\]" => ""
//@end
//@extract file=canister/src/state.rs item="enum ResponseToProcess"
//@ rewrite R2? "#\[derive\(([^\]]*)\)\]" => ""
//@end
//@extract file=canister/src/state.rs item="struct SuccessorsRequestStats"
//@ rewrite R2? "#\[derive\(([^\]]*)\)\]" => ""
//@end
//@extract file=canister/src/state.rs item="struct SuccessorsResponseStats"
//@ rewrite R2? "#\[derive\(([^\]]*)\)\]" => ""
//@end
//@extract file=canister/src/state.rs item="struct SyncingState"
//@ rewrite R2? "#\[derive\(([^\]]*)\)\]" => ""
//@end
//@extract file=canister/src/state.rs item="struct FeePercentilesCache"
//@ rewrite R2? "#\[derive\(([^\]]*)\)\]" => ""
//@end
//@extract file=canister/src/state.rs item="struct GenericState"
//@ rewrite R2? "#\[derive\(([^\]]*)\)\]" => ""
//@end
//@extract file=canister/src/state.rs item="type State"
//@end

impl<A> GenericState<A> {
//@extract file=canister/src/state.rs in="impl<A> GenericState<A>" item="fn network" props=C14
//@ ret r
//@ spec
//@| ensures r == self.utxos.network,
//@end
//@extract file=canister/src/state.rs in="impl<A> GenericState<A>" item="fn stable_height" props=C03,C07
//@ ret r
//@ spec
//@| ensures r == self.utxos.next_height,
//@end
}

// ---------------------------------------------------------------------------------------
// SPEC: message-boundary invariant of the state (what every entry point may rely on and must re-establish)
// ---------------------------------------------------------------------------------------
// [assumption, stated] numeric ranges: heights < 2^32 - 2^20 so that stable height + chain length + 100 cannot wrap
spec fn state_ranges(s: &State) -> bool {
    &&& s.unstable_blocks.tree.wf()
    &&& s.unstable_blocks.tree.wf_depth()
    &&& s.utxos.next_height as int + s.unstable_blocks.tree.sdepth() + 0x10_0000 < u32::MAX
    // representation invariant of the announced headers (established by every verified mutator: insert_next_block_headers, pop)
    &&& s.unstable_blocks.next_block_headers.wf()
}

// C02: tip height = stable height + |served branch| - 1
//@extract file=canister/src/state.rs item="fn main_chain_height" props=C02,C07,C14
//@ ret r
//@ spec
//@| requires state_ranges(state),
//@| ensures r == state.utxos.next_height + state.unstable_blocks.tree.best_path().len() - 1,
//@ start
//@| proof { lemma_best_path_le_depth(&state.unstable_blocks.tree); }
//@end

proof fn lemma_best_path_le_depth(t: &BlockTree<CachedBlock>)
    ensures 1 <= t.best_path().len() <= t.sdepth(),
{
    t.lemma_best_path_is_leaf();
    t.lemma_best_path_len();
    t.lemma_best_is_max(t.best_idx_path());
    t.lemma_dbd_depth_are_max_over_paths(t.best_idx_path());
    t.lemma_best_key_pos();
}

// ---------------------------------------------------------------------------------------
// unstable_blocks::{peek, pop, push}: behind `Rc<RefCell<Box<dyn BlocksCache>>>`, boxed iterators and the
// entry-API OutPointsCache — outside Verus. Their decision function get_stable_child is checked by Kani (bounded).
// ---------------------------------------------------------------------------------------
// which child of the anchor is stable (None if none). Written from the statement of C03: the candidate is the heaviest child
// (most accumulated difficulty below it; the later-arrived one among equals); it is stable if (testnets only) it is at least
// `bound` deep and at least `bound` deeper than EVERY other child, or if it carries at least threshold x difficulty(anchor)
// and leads EVERY other child by at least as much.
spec fn child_dbd(b: &UnstableBlocks, i: int) -> int { b.tree.children@[i].sdbd() }
spec fn child_depth(b: &UnstableBlocks, i: int) -> int { b.tree.children@[i].sdepth() }
spec fn heaviest_child(b: &UnstableBlocks, n: int) -> int
    decreases n
{
    if n <= 0 { -1 } else {
        let h = heaviest_child(b, n - 1);
        if h < 0 || child_dbd(b, n - 1) >= child_dbd(b, h) { n - 1 } else { h }
    }
}
spec fn sat_sub_int(a: int, b: int) -> int { if a >= b { a - b } else { 0 } }
uninterp spec fn blocks_count_spec(b: &UnstableBlocks) -> usize;
uninterp spec fn depth_bound_spec(total_unstable_blocks: usize, stability_threshold: u32) -> Depth;
spec fn testnet_like(n: Network) -> bool { n == Network::Testnet || n == Network::Regtest }
spec fn sc_t(b: &UnstableBlocks) -> int { b.tree.root.difficulty * b.stability_threshold }
spec fn sc_bound(b: &UnstableBlocks) -> int { depth_bound_spec(blocks_count_spec(b), b.stability_threshold).0 as int }
// depth rule (testnets): at least `bound` deep and at least `bound` deeper than EVERY other child
spec fn depth_rule(b: &UnstableBlocks, h: int) -> bool {
    &&& testnet_like(b.network)
    &&& child_depth(b, h) >= sc_bound(b)
    &&& forall|s: int| 0 <= s < b.tree.children@.len() && s != h ==> sat_sub_int(child_depth(b, h), #[trigger] child_depth(b, s)) >= sc_bound(b)
}
// difficulty rule: carries threshold x difficulty(anchor) and leads EVERY other child by as much
spec fn too_close(b: &UnstableBlocks, h: int) -> bool {
    exists|s: int| 0 <= s < b.tree.children@.len() && s != h && child_dbd(b, h) - (#[trigger] child_dbd(b, s)) < sc_t(b)
}
spec fn stable_child_spec(b: &UnstableBlocks) -> Option<int> {
    let n = b.tree.children@.len() as int;
    if n == 0 { None } else {
        let h = heaviest_child(b, n);
        if depth_rule(b, h) { Some(h) }
        else if child_dbd(b, h) < sc_t(b) { None }
        else if too_close(b, h) { None }
        else { Some(h) }
    }
}
proof fn lemma_heaviest_child(b: &UnstableBlocks, n: int)
    requires 0 < n <= b.tree.children@.len(),
    ensures
        0 <= heaviest_child(b, n) < n,
        forall|s: int| 0 <= s < n ==> (#[trigger] child_dbd(b, s)) <= child_dbd(b, heaviest_child(b, n)),
        forall|s: int| heaviest_child(b, n) < s < n ==> (#[trigger] child_dbd(b, s)) < child_dbd(b, heaviest_child(b, n)),
    decreases n
{
    if n > 1 { lemma_heaviest_child(b, n - 1); } else { assert(heaviest_child(b, 0) == -1); }
}
proof fn lemma_heaviest_child_unique(b: &UnstableBlocks, n: int, k: int)
    requires 0 < n <= b.tree.children@.len(), 0 <= k < n,
        forall|s: int| 0 <= s < n ==> (#[trigger] child_dbd(b, s)) <= child_dbd(b, k),
        forall|s: int| k < s < n ==> (#[trigger] child_dbd(b, s)) < child_dbd(b, k),
    ensures heaviest_child(b, n) == k,
{
    lemma_heaviest_child(b, n);
    let h = heaviest_child(b, n);
    if h < k { assert(child_dbd(b, k) < child_dbd(b, h)); assert(child_dbd(b, h) <= child_dbd(b, k)); }
    if h > k { assert(child_dbd(b, h) < child_dbd(b, k)); assert(child_dbd(b, k) <= child_dbd(b, h)); }
}
//@lemma fn=lemma_stable_child_never_early props=C03
// C03 "never early": the anchor advances only to a child that satisfies one of the two rules against EVERY sibling
proof fn lemma_stable_child_never_early(b: &UnstableBlocks)
    requires stable_child_spec(b) is Some,
    ensures ({
        let c = stable_child_spec(b).unwrap();
        let n = b.tree.children@.len() as int;
        &&& 0 <= c < n
        &&& ((child_dbd(b, c) >= sc_t(b) && forall|s: int| 0 <= s < n && s != c ==> child_dbd(b, c) - (#[trigger] child_dbd(b, s)) >= sc_t(b))
             || depth_rule(b, c))
    }),
{
    lemma_heaviest_child(b, b.tree.children@.len() as int);
}
//@lemma fn=lemma_stable_child_never_withheld props=C03
// C03 "never withheld": a child that carries threshold x difficulty(anchor) (>= 1) and leads every sibling by as much makes the anchor advance
proof fn lemma_stable_child_never_withheld(b: &UnstableBlocks, c: int)
    requires
        0 <= c < b.tree.children@.len(),
        sc_t(b) >= 1,
        child_dbd(b, c) >= sc_t(b),
        forall|s: int| 0 <= s < b.tree.children@.len() && s != c ==> child_dbd(b, c) - (#[trigger] child_dbd(b, s)) >= sc_t(b),
    ensures stable_child_spec(b) is Some,
{
    let n = b.tree.children@.len() as int;
    lemma_heaviest_child(b, n);
    let h = heaviest_child(b, n);
    if h != c { assert(child_dbd(b, c) - child_dbd(b, h) >= 1); }
}

spec fn has_entry(v: Seq<(DifficultyBasedDepth, usize)>, s: int) -> bool { exists|p: int| 0 <= p < v.len() && (#[trigger] v[p]).1 == s }
// the vector get_stable_child sorts: one (difficulty-based depth, index) pair per child, ascending by depth, the later child last among equals
spec fn sorted_pairs(b: &UnstableBlocks, v: Seq<(DifficultyBasedDepth, usize)>) -> bool {
    let n = b.tree.children@.len() as int;
    &&& v.len() == n
    &&& forall|p: int| 0 <= p < n ==> 0 <= (#[trigger] v[p]).1 < n && v[p].0.0 == child_dbd(b, v[p].1 as int)
    &&& forall|s: int| 0 <= s < n ==> #[trigger] has_entry(v, s)
    &&& forall|i: int, j: int| 0 <= i < j < n ==> v[i].0.0 <= v[j].0.0
    &&& forall|i: int, j: int| 0 <= i < j < n && v[i].0.0 == v[j].0.0 ==> v[i].1 < v[j].1
}
proof fn lemma_sorted_pairs(b: &UnstableBlocks, orig: Seq<(DifficultyBasedDepth, usize)>, v: Seq<(DifficultyBasedDepth, usize)>)
    requires
        orig =~= dbd_pairs(b),
        b.tree.children@.len() <= usize::MAX,
        forall|i: int| 0 <= i < b.tree.children@.len() ==> 0 <= #[trigger] child_dbd(b, i) <= u128::MAX,
        orig.to_multiset() == v.to_multiset(), orig.len() == v.len(),
        forall|i: int, j: int| 0 <= i < j < v.len() ==> v[i].0.0 <= v[j].0.0,
        forall|i: int, j: int| 0 <= i < j < v.len() && v[i].0.0 == v[j].0.0 ==> v[i].1 < v[j].1,
    ensures sorted_pairs(b, v),
{
    let n = b.tree.children@.len() as int;
    lemma_perm_pairs(orig, v);
    assert forall|p: int| 0 <= p < n implies 0 <= (#[trigger] v[p]).1 < n && v[p].0.0 == child_dbd(b, v[p].1 as int) by {
        assert(orig.contains(v[p]));
        let k = choose|k: int| 0 <= k < orig.len() && orig[k] == v[p];
        assert(orig[k] == dbd_pairs(b)[k]);
    }
    assert forall|s: int| 0 <= s < n implies #[trigger] has_entry(v, s) by {
        assert(orig[s] == dbd_pairs(b)[s]);
        assert(v.contains(orig[s]));
        let p = choose|p: int| 0 <= p < v.len() && v[p] == orig[s];
        assert(v[p].1 == s);
    }
}
// the last entry is the heaviest child; the one before it bounds every other child
proof fn lemma_last_is_heaviest(b: &UnstableBlocks, v: Seq<(DifficultyBasedDepth, usize)>)
    requires sorted_pairs(b, v), v.len() >= 1,
    ensures heaviest_child(b, v.len() as int) == v[v.len() - 1].1,
{
    let n = v.len() as int;
    let k = v[n - 1].1 as int;
    assert forall|s: int| 0 <= s < n implies (#[trigger] child_dbd(b, s)) <= child_dbd(b, k) by {
        assert(has_entry(v, s));
        let p = choose|p: int| 0 <= p < v.len() && (#[trigger] v[p]).1 == s;
        if p < n - 1 { assert(v[p].0.0 <= v[n - 1].0.0); }
    }
    assert forall|s: int| k < s < n implies (#[trigger] child_dbd(b, s)) < child_dbd(b, k) by {
        assert(has_entry(v, s));
        let p = choose|p: int| 0 <= p < v.len() && (#[trigger] v[p]).1 == s;
        if p < n - 1 { assert(v[p].0.0 <= v[n - 1].0.0); if v[p].0.0 == v[n - 1].0.0 { assert(v[p].1 < v[n - 1].1); } }
    }
    lemma_heaviest_child_unique(b, n, k);
}
proof fn lemma_second_bounds_others(b: &UnstableBlocks, v: Seq<(DifficultyBasedDepth, usize)>)
    requires sorted_pairs(b, v), v.len() >= 2,
    ensures
        v[v.len() - 2].1 != v[v.len() - 1].1,
        forall|s: int| 0 <= s < v.len() && s != v[v.len() - 1].1 ==> (#[trigger] child_dbd(b, s)) <= v[v.len() - 2].0.0,
{
    let n = v.len() as int;
    let h = v[n - 1].1 as int;
    if v[n - 2].1 == v[n - 1].1 { assert(v[n - 2].0.0 == v[n - 1].0.0); assert(v[n - 2].1 < v[n - 1].1); }
    assert forall|s: int| 0 <= s < n && s != h implies (#[trigger] child_dbd(b, s)) <= v[n - 2].0.0 by {
        assert(has_entry(v, s));
        let p = choose|p: int| 0 <= p < v.len() && (#[trigger] v[p]).1 == s;
        assert(p != n - 1);
        if p < n - 2 { assert(v[p].0.0 <= v[n - 2].0.0); }
    }
}
// the decision, from facts about the heaviest child h
proof fn lemma_decide_depth(b: &UnstableBlocks, h: int)
    requires b.tree.children@.len() > 0, h == heaviest_child(b, b.tree.children@.len() as int), depth_rule(b, h),
    ensures stable_child_spec(b) == Some(h),
{}
proof fn lemma_decide_light(b: &UnstableBlocks, h: int)
    requires b.tree.children@.len() > 0, h == heaviest_child(b, b.tree.children@.len() as int), !depth_rule(b, h), child_dbd(b, h) < sc_t(b),
    ensures stable_child_spec(b) is None,
{}
proof fn lemma_decide_close(b: &UnstableBlocks, h: int, s: int)
    requires b.tree.children@.len() > 0, h == heaviest_child(b, b.tree.children@.len() as int), !depth_rule(b, h),
        0 <= s < b.tree.children@.len(), s != h, child_dbd(b, h) - child_dbd(b, s) < sc_t(b),
    ensures stable_child_spec(b) is None,
{}
proof fn lemma_decide_some(b: &UnstableBlocks, h: int)
    requires b.tree.children@.len() > 0, h == heaviest_child(b, b.tree.children@.len() as int), child_dbd(b, h) >= sc_t(b),
        forall|s: int| 0 <= s < b.tree.children@.len() && s != h ==> child_dbd(b, h) - (#[trigger] child_dbd(b, s)) >= sc_t(b),
    ensures stable_child_spec(b) == Some(h),
{}

// [trusted:stand-in] blocks_count (recursive `.map().sum()` over the tree): an opaque count, only fed to the depth bound;
// testnet_unstable_max_depth_difference (f64 interpolation): an uninterpreted function of its two arguments — its range
// min(threshold, 499) <= D <= 500 is the Kani-proved contract c03_depth_bound_contract and is not needed here
#[verifier::external_body]
fn blocks_count(blocks: &UnstableBlocks) -> (r: usize) ensures r == blocks_count_spec(blocks) { unimplemented!() }
#[verifier::external_body]
fn testnet_unstable_max_depth_difference(total_unstable_blocks: usize, stability_threshold: u32) -> (r: Depth)
    ensures r == depth_bound_spec(total_unstable_blocks, stability_threshold),
{ unimplemented!() }
impl<Block> BlockTree<Block> {
//@extract file=canister/src/blocktree.rs in="impl<Block> BlockTree<Block>" item="fn children" props=C03
//@ ret r
//@ spec
//@| ensures r@ == self.children@,
//@end
}
spec fn dbd_pairs(b: &UnstableBlocks) -> Seq<(DifficultyBasedDepth, usize)> {
    Seq::new(b.tree.children@.len(), |i: int| (DifficultyBasedDepth(child_dbd(b, i) as u128), i as usize))
}
// [trusted:assumed-spec] `v.sort_by_key(|(d, _)| *d)` (std's stable sort; R16 turns the call into this one): a permutation, sorted by
// the first component; stability, for an input whose second components increase with the position: equal keys stay in that order
#[verifier::external_body]
fn vp_sort_by_key_first(v: &mut Vec<(DifficultyBasedDepth, usize)>)
    ensures
        final(v)@.to_multiset() == old(v)@.to_multiset(),
        final(v)@.len() == old(v)@.len(),
        forall|i: int, j: int| 0 <= i < j < final(v)@.len() ==> final(v)@[i].0.0 <= final(v)@[j].0.0,
        (forall|i: int, j: int| 0 <= i < j < old(v)@.len() ==> old(v)@[i].1 < old(v)@[j].1)
            ==> (forall|i: int, j: int| 0 <= i < j < final(v)@.len() && final(v)@[i].0.0 == final(v)@[j].0.0 ==> final(v)@[i].1 < final(v)@[j].1),
{ unimplemented!() }
proof fn lemma_perm_pairs(orig: Seq<(DifficultyBasedDepth, usize)>, sorted: Seq<(DifficultyBasedDepth, usize)>)
    requires orig.to_multiset() == sorted.to_multiset(),
    ensures
        forall|p: int| 0 <= p < sorted.len() ==> orig.contains(#[trigger] sorted[p]),
        forall|i: int| 0 <= i < orig.len() ==> sorted.contains(#[trigger] orig[i]),
{
    orig.to_multiset_ensures();
    sorted.to_multiset_ensures();
    assert forall|p: int| 0 <= p < sorted.len() implies orig.contains(#[trigger] sorted[p]) by {
        assert(sorted.contains(sorted[p]));
        assert(sorted.to_multiset().count(sorted[p]) > 0);
    }
    assert forall|i: int| 0 <= i < orig.len() implies sorted.contains(#[trigger] orig[i]) by {
        assert(orig.contains(orig[i]));
        assert(orig.to_multiset().count(orig[i]) > 0);
    }
}

// what get_stable_child needs of the tree: the well-formedness of the depth functions (C02/C03) and, for every block that can
// become the anchor, threshold x difficulty < 2^128 ([assumption, stated] as part of tree_ok)
impl BlockTree<CachedBlock> {
    spec fn difficulties_small(&self, threshold: u32) -> bool
        decreases self
    {
        &&& self.root.difficulty * threshold <= u128::MAX
        &&& forall|i: int| 0 <= i < self.children@.len() ==> (#[trigger] self.children@[i]).difficulties_small(threshold)
    }
}
spec fn tree_ok(b: &UnstableBlocks) -> bool {
    b.tree.wf() && b.tree.wf_depth() && b.tree.difficulties_small(b.stability_threshold) && b.next_block_headers.wf() && bodies_exact(b)
}
proof fn lemma_tree_ok_child(a: &UnstableBlocks, b: &UnstableBlocks, i: int)
    requires tree_ok(a), 0 <= i < a.tree.children@.len(), b.tree == a.tree.children@[i], b.stability_threshold == a.stability_threshold, b.next_block_headers.wf(), bodies_exact(b),
    ensures tree_ok(b),
{
    assert(a.tree.children@[i].wf());
    assert(a.tree.children@[i].wf_depth());
    assert(a.tree.children@[i].difficulties_small(a.stability_threshold));
}
// unstable_blocks::get_stable_child (unstable_blocks.rs:383) on its real decision logic, for ANY number of children.
// R16 (pipeline desugaring): `xs.iter().enumerate().map(|(i, x)| e).collect()` => a loop pushing `e` with a counter;
// `v.sort_by_key(|(d, _)| *d)` => vp_sort_by_key_first(&mut v); `v.iter().filter(|(_, i)| p).map(|(_, i)| e).max().unwrap_or(z)` => a loop
// keeping the maximum (std::cmp::max, i.e. the later one among equals, as Iterator::max does)
//@extract file=canister/src/unstable_blocks.rs item="fn get_stable_child" props=C03
//@ ret r
//@ rewrite R16 "let mut difficulty_based_depths: Vec<_> = blocks\s*\.tree\s*\.children\(\)\s*\.iter\(\)\s*\.enumerate\(\)\s*\.map\(\|\((\w+), (\w+)\)\| (\(.*?\))\)\s*\.collect\(\);" => "let mut difficulty_based_depths: Vec<(DifficultyBasedDepth, usize)> = Vec::new();\n    let mut vp_idx: usize = 0;\n    for \2 in blocks.tree.children().iter() {\n        let \1 = vp_idx;\n        difficulty_based_depths.push(\3);\n        vp_idx = vp_idx + 1;\n    }\n    let ghost vp_orig = difficulty_based_depths@;"
//@ rewrite R16 "difficulty_based_depths\.sort_by_key\(\|\(difficulty_based_depth, _\)\| \*difficulty_based_depth\);" => "vp_sort_by_key_first(&mut difficulty_based_depths);"
//@ rewrite R16 "let second_deepest_depth = difficulty_based_depths\s*\.iter\(\)\s*\.filter\(\|\(_, idx\)\| idx != child_idx\)\s*\.map\(\|\(_, idx\)\| (blocks\.tree\.children\(\)\[\*idx\]\.depth\(\))\)\s*\.max\(\)\s*\.unwrap_or\((Depth::new\(0\))\);" => "let mut vp_max: Option<Depth> = None;\n            for vp_e in difficulty_based_depths.iter() {\n                let idx = &vp_e.1;\n                if idx != child_idx {\n                    let vp_d = \1;\n                    vp_max = match vp_max { None => Some(vp_d), Some(vp_m) => Some(std::cmp::max(vp_m, vp_d)) };\n                }\n            }\n            let second_deepest_depth = vp_max.unwrap_or(\2);"
//@ spec
//@| requires tree_ok(blocks),
//@| ensures
//@|     r.is_some() <==> stable_child_spec(blocks).is_some(),
//@|     r matches Some(i) ==> stable_child_spec(blocks) == Some(i as int) && i < blocks.tree.children@.len(),
//@ start
//@| let ghost vp_n = blocks.tree.children@.len() as int;
//@| let ghost mut vp_h: int = 0;
//@ loop 1 binder=itc
//@| invariant
//@|     vp_idx == itc.index@,
//@|     blocks.tree.wf(), blocks.tree.wf_depth(),
//@|     difficulty_based_depths@ =~= dbd_pairs(blocks).subrange(0, itc.index@ as int),
//@|     forall|i: int| 0 <= i < itc.index@ ==> 0 <= #[trigger] child_dbd(blocks, i) <= u128::MAX,
//@ before "difficulty_based_depths.push("
//@| proof {
//@|     assert(itc.index@ < blocks.tree.children@.len());
//@|     assert(blocks.tree.children@.len() == blocks.tree.children.len());
//@|     assert(*child == blocks.tree.children@[itc.index@ as int]);
//@|     assert(blocks.tree.children@[itc.index@ as int].wf());
//@| }
//@ before "vp_sort_by_key_first(&mut difficulty_based_depths);"
//@| proof {
//@|     assert(vp_orig =~= dbd_pairs(blocks));
//@|     assert(forall|i: int| 0 <= i < vp_n ==> 0 <= #[trigger] child_dbd(blocks, i) <= u128::MAX);
//@|     assert(blocks.tree.children@.len() == blocks.tree.children.len());
//@|     assert(forall|i: int, j: int| 0 <= i < j < vp_orig.len() ==> vp_orig[i].1 < vp_orig[j].1);
//@| }
//@ after "vp_sort_by_key_first(&mut difficulty_based_depths);"
//@| let ghost vp_v = difficulty_based_depths@;
//@| proof { lemma_sorted_pairs(blocks, vp_orig, vp_v); }
//@ before "let (difficulty_based_deepest_depth, child_idx) = difficulty_based_depths.last()?;"
//@| proof { assert(difficulty_based_stability_threshold.0 == sc_t(blocks)); assert(network == blocks.network); }
//@ before "let max_depth_difference ="
//@| proof {
//@|     assert(vp_v[vp_n - 1] == (*difficulty_based_deepest_depth, *child_idx));
//@|     lemma_last_is_heaviest(blocks, vp_v);
//@|     vp_h = *child_idx as int;
//@|     assert(0 <= vp_h < vp_n && child_dbd(blocks, vp_h) == difficulty_based_deepest_depth.0);
//@| }
//@ before "if deepest_depth >= max_depth_difference {"
//@| proof {
//@|     assert(blocks.tree.children@[vp_h].wf_depth());
//@|     assert(deepest_depth.0 == child_depth(blocks, vp_h));
//@|     assert(max_depth_difference.0 == sc_bound(blocks));
//@|     if deepest_depth.0 < max_depth_difference.0 { assert(!depth_rule(blocks, vp_h)); }
//@| }
//@ before "if network == Network::Testnet || network == Network::Regtest {"
//@| proof {
//@|     if !testnet_like(blocks.network) { assert(!depth_rule(blocks, vp_h)); }
//@| }
//@ loop 2 binder=ite
//@| invariant
//@|     vp_v == difficulty_based_depths@, vp_n == blocks.tree.children@.len(), 0 <= vp_h < vp_n, vp_h == *child_idx,
//@|     blocks.tree.wf_depth(), sorted_pairs(blocks, vp_v),
//@|     // vp_max is the greatest depth among the entries seen whose child differs from the leader
//@|     forall|p: int| 0 <= p < ite.index@ && vp_v[p].1 != vp_h ==> vp_max.is_some() && child_depth(blocks, (#[trigger] vp_v[p]).1 as int) <= vp_max.unwrap().0,
//@|     vp_max matches Some(m) ==> exists|p: int| 0 <= p < ite.index@ && vp_v[p].1 != vp_h && child_depth(blocks, (#[trigger] vp_v[p]).1 as int) == m.0,
//@ after "let idx = &vp_e.1;"
//@| proof {
//@|     assert(*vp_e == vp_v[ite.index@ as int]);
//@|     assert(0 <= vp_v[ite.index@ as int].1 < vp_n);
//@|     assert(blocks.tree.children@.len() == blocks.tree.children.len());
//@|     assert(blocks.tree.children@[*idx as int].wf_depth());
//@| }
//@ after "let second_deepest_depth = vp_max.unwrap_or("
//@| proof {
//@|     // the loop's maximum is the greatest depth among the OTHER children
//@|     assert forall|s: int| 0 <= s < vp_n && s != vp_h implies child_depth(blocks, s) <= second_deepest_depth.0 by {
//@|         assert(has_entry(vp_v, s));
//@|         let p = choose|p: int| 0 <= p < vp_v.len() && (#[trigger] vp_v[p]).1 == s;
//@|     }
//@|     if sat_sub_int(deepest_depth.0 as int, second_deepest_depth.0 as int) >= max_depth_difference.0 {
//@|         assert(depth_rule(blocks, vp_h));
//@|         lemma_decide_depth(blocks, vp_h);
//@|     } else {
//@|         // some other child is too close in depth
//@|         if vp_max is Some {
//@|             let p = choose|p: int| 0 <= p < vp_n && vp_v[p].1 != vp_h && child_depth(blocks, (#[trigger] vp_v[p]).1 as int) == vp_max.unwrap().0;
//@|             let s = vp_v[p].1 as int;
//@|             assert(0 <= s < vp_n && s != vp_h && sat_sub_int(child_depth(blocks, vp_h), child_depth(blocks, s)) < sc_bound(blocks));
//@|         }
//@|         assert(!depth_rule(blocks, vp_h));
//@|     }
//@| }
//@ before "if *difficulty_based_deepest_depth < difficulty_based_stability_threshold {"
//@| proof {
//@|     assert(!depth_rule(blocks, vp_h));
//@|     if difficulty_based_deepest_depth.0 < difficulty_based_stability_threshold.0 { lemma_decide_light(blocks, vp_h); }
//@| }
//@ before "if *difficulty_based_deepest_depth - *difficulty_based_second_deepest_depth"
//@| proof {
//@|     lemma_second_bounds_others(blocks, vp_v);
//@|     assert(vp_v[vp_n - 2].0 == *difficulty_based_second_deepest_depth);
//@|     let s2 = vp_v[vp_n - 2].1 as int;
//@|     if difficulty_based_deepest_depth.0 - difficulty_based_second_deepest_depth.0 < difficulty_based_stability_threshold.0 {
//@|         lemma_decide_close(blocks, vp_h, s2);
//@|     }
//@| }
//@ before "if difficulty_based_depths.len() >= 2 {"
//@| proof {
//@|     assert(!(difficulty_based_deepest_depth.0 < difficulty_based_stability_threshold.0));
//@|     assert(child_dbd(blocks, vp_h) >= sc_t(blocks));
//@| }
//@ before "Some(*child_idx)" nth=2
//@| proof {
//@|     assert(child_dbd(blocks, vp_h) >= sc_t(blocks));
//@|     if vp_n >= 2 {
//@|         lemma_second_bounds_others(blocks, vp_v);
//@|         assert(difficulty_based_depths@[vp_n - 2] == vp_v[vp_n - 2]);
//@|         assert(difficulty_based_deepest_depth.0 - vp_v[vp_n - 2].0.0 >= sc_t(blocks));
//@|     }
//@|     assert forall|s: int| 0 <= s < vp_n && s != vp_h implies child_dbd(blocks, vp_h) - (#[trigger] child_dbd(blocks, s)) >= sc_t(blocks) by {}
//@|     lemma_decide_some(blocks, vp_h);
//@| }
//@end

// [trusted:stand-in] the cache-side effects of pop: boxed iterators / entry-API maps / Rc<RefCell<..>> caches. They touch only
// the cache fields named in their signatures (&mut self), never the tree.
impl OutPointsCache {
    #[verifier::external_body]
    fn remove(&mut self, block: &Block) { unimplemented!() }
}
impl BlockTree<CachedBlock> {
    // [trusted:stand-in] BlockTree::blocks (boxed `once().chain(flat_map())` iterator): all blocks of the subtree, as a vector
    #[verifier::external_body]
    fn blocks(&self) -> (r: Vec<&CachedBlock>) { unimplemented!() }
    // [trusted:stand-in] BlockTree::tip_depths (explicit stack walk): opaque vector, only stored in the tip-depth cache
    #[verifier::external_body]
    fn tip_depths(&self) -> (r: Vec<usize>) { unimplemented!() }
//@extract file=canister/src/blocktree.rs in="impl BlockTree<CachedBlock>" item="fn into_root_and_remove_from_cache" props=C03,C20
//@ ret r
//@ sigrewrite R7 "fn into_root_and_remove_from_cache\(self\)" => "fn into_root_and_remove_from_cache(self, vp_bodies: &mut BodiesCache)"
//@ rewrite R7 "self\.remove_from_cache\(\)" => "self.remove_from_cache(vp_bodies)"
//@ spec
//@| requires self.distinct(), forall|h: BlockHash| #[trigger] self.contains(h) ==> old(vp_bodies).hashes@.contains(h),
//@| ensures
//@|     r.hash == self.root.block_hash, r.header == self.root.header,
//@|     forall|h: BlockHash| #[trigger] final(vp_bodies).hashes@.contains(h) <==> (old(vp_bodies).hashes@.contains(h) && !self.contains(h)),
//@end
}
impl UnstableBlocks {
//@extract file=canister/src/unstable_blocks.rs in="impl UnstableBlocks" item="fn refresh_tip_depths_cache" props=C03
//@ spec
//@| ensures
//@|     final(self).tree == old(self).tree, final(self).stability_threshold == old(self).stability_threshold,
//@|     final(self).network == old(self).network, final(self).next_block_headers == old(self).next_block_headers,
//@|     final(self).outpoints_cache == old(self).outpoints_cache, final(self).vp_bodies == old(self).vp_bodies,
//@end
}

// unstable_blocks::peek (unstable_blocks.rs:299): Some(anchor) iff a stable child exists
//@extract file=canister/src/unstable_blocks.rs item="fn peek" props=C03
//@ ret r
//@ rewrite R9 "\.map\(\|_\| blocks\.tree\.root\(\)\)" => ".map(|vp_i: usize| -> (vp_b: &CachedBlock) ensures *vp_b == blocks.tree.root { blocks.tree.root() })"
//@ spec
//@| requires tree_ok(blocks),
//@| ensures
//@|     r.is_some() <==> stable_child_spec(blocks).is_some(),
//@|     r matches Some(b) ==> *b == blocks.tree.root,
//@end

// unstable_blocks::pop (unstable_blocks.rs:306): if a stable child exists, the tree becomes that child's subtree (siblings
// discarded) and the old anchor block is returned; otherwise None and nothing changes.
//@extract file=canister/src/unstable_blocks.rs item="fn pop" props=C03
//@ ret r
//@ spec
//@| requires tree_ok(old(blocks)), stable_height < u32::MAX,
//@| ensures
//@|     r.is_some() <==> stable_child_spec(old(blocks)).is_some(),
//@|     r.is_none() ==> *final(blocks) == *old(blocks),
//@|     // C20: the stored block bodies stay exactly the blocks of the tree (the old anchor and the discarded forks are released)
//@|     bodies_exact(final(blocks)),
//@|     // C20: the announced headers at or below the new stable height are dropped, the others are kept, the indexes stay in step
//@|     final(blocks).next_block_headers.wf(),
//@|     final(blocks).next_block_headers.offered@ == old(blocks).next_block_headers.offered@,
//@|     r.is_some() ==> (forall|h: BlockHash| #[trigger] final(blocks).next_block_headers@.contains_key(h) <==>
//@|         (old(blocks).next_block_headers@.contains_key(h) && old(blocks).next_block_headers@[h].0 > stable_height))
//@|       && (forall|h: BlockHash| #[trigger] final(blocks).next_block_headers@.contains_key(h) ==> final(blocks).next_block_headers@[h] == old(blocks).next_block_headers@[h]),
//@|     r matches Some(b) ==> b.hash == old(blocks).tree.root.block_hash && b.header == old(blocks).tree.root.header
//@|         && 0 <= stable_child_spec(old(blocks)).unwrap() < old(blocks).tree.children@.len()
//@|         && final(blocks).tree == old(blocks).tree.children@[stable_child_spec(old(blocks)).unwrap()]
//@|         && final(blocks).stability_threshold == old(blocks).stability_threshold
//@|         && final(blocks).network == old(blocks).network,
//@ loopbefore 1
//@| // the loop releases cached outpoints only: the announced headers and the block bodies are whatever they were when it began
//@| let ghost vp_nbh0 = blocks.next_block_headers; let ghost vp_bodies0 = blocks.vp_bodies;
//@ loop 1 binder=itb
//@| invariant
//@|     blocks.tree == old(blocks).tree.children@[stable_child_idx as int],
//@|     tree.root == old(blocks).tree.root,
//@|     blocks.stability_threshold == old(blocks).stability_threshold, blocks.network == old(blocks).network,
//@|     blocks.next_block_headers == vp_nbh0,
//@|     blocks.vp_bodies == vp_bodies0,
//@|     tree.distinct(), forall|h: BlockHash| #[trigger] tree.contains(h) <==> (old(blocks).tree.contains(h) && !old(blocks).tree.children@[stable_child_idx as int].contains(h)),
//@ rewrite R7 "tree\.into_root_and_remove_from_cache\(\)" => "tree.into_root_and_remove_from_cache(&mut blocks.vp_bodies)"
//@ after "std::mem::swap(&mut tree, &mut blocks.tree);"
//@| proof { BlockTree::<CachedBlock>::lemma_rest_after_remove_child(&old(blocks).tree, &tree, stable_child_idx as int); }
//@ finish ret=1
//@| proof {
//@|     assert forall|h: BlockHash| #[trigger] blocks.vp_bodies.hashes@.contains(h) <==> blocks.tree.contains(h) by {
//@|         if vp_ret is Some && blocks.tree.contains(h) { assert(old(blocks).tree.children@[stable_child_spec(old(blocks)).unwrap()].contains(h)); assert(old(blocks).tree.contains(h)); }
//@|     }
//@| }
//@end

impl BlockTree<CachedBlock> {
    // [trusted:assumed-contract] BlockTree::find_mut (blocktree.rs:571; recursion through `iter_mut`, returning a `&mut` into the tree):
    // the first subtree (preorder) whose root has the hash, with its distance from the root; the borrow is the only way the tree can
    // change (if the borrowed subtree is left as it is, so is the tree)
    #[verifier::external_body]
    fn find_mut<'a>(&'a mut self, blockhash: &BlockHash) -> (r: Option<(&'a mut BlockTree<CachedBlock>, u32)>)
        ensures
            r is Some <==> old(self).contains(*blockhash),
            r matches Some(p) ==> *p.0 == old(self).subtree_at(old(self).idx_path_to(*blockhash)) && p.1 == old(self).idx_path_to(*blockhash).len()
                && (*final(p.0) == *p.0 ==> *final(self) == *old(self)),
            r is None ==> *final(self) == *old(self),
    { unimplemented!() }
}
// the tree after a new leaf `b` has been appended below the first block with hash b.sprev()
uninterp spec fn tree_extended(t: BlockTree<CachedBlock>, hash: BlockHash, header: Header) -> BlockTree<CachedBlock>;

// [trusted:assumed-contract] unstable_blocks::push (unstable_blocks.rs:328): Err iff the parent is not in the tree
// (then nothing changes); on Ok the block is appended as the last child of its parent.
#[verifier::external_body]
fn push(blocks: &mut UnstableBlocks, utxos: &UtxoSet, block: Block) -> (r: Result<(), BlockDoesNotExtendTree>)
    ensures
        r.is_ok() <==> old(blocks).tree.contains(BlockHash(block.header.prev_blockhash.0)),
        r.is_err() ==> *final(blocks) == *old(blocks),
        r.is_ok() ==> final(blocks).tree == tree_extended(old(blocks).tree, block.hash, block.header)
            && final(blocks).stability_threshold == old(blocks).stability_threshold
            && final(blocks).network == old(blocks).network
            && final(blocks).next_block_headers.offered@ == old(blocks).next_block_headers.offered@,
        // one leaf more: the tree grows by at most one level; the arrived block's announced header (if any) is removed, none is added
        old(blocks).tree.wf_depth() ==> final(blocks).tree.wf_depth(),
        final(blocks).tree.sdepth() <= old(blocks).tree.sdepth() + 1,
        forall|b: int| old(blocks).next_block_headers.heights_below(b) ==> final(blocks).next_block_headers.heights_below(b),
        // C20: the arrived block's announced header is dropped (NextBlockHeaders::remove, verified), the others are kept
        old(blocks).next_block_headers.wf() ==> final(blocks).next_block_headers.wf(),
        // C20 (assumed here): extend_cached stores the new block's body; the validation context has refused a block that is already in the tree
        bodies_exact(old(blocks)) ==> bodies_exact(final(blocks)),
        r.is_ok() ==> final(blocks).next_block_headers@ == old(blocks).next_block_headers@.remove(block.hash),
{ unimplemented!() }
// [assumption, stated] heights (stable + unstable, announced) stay below 2^31 - 2^17 + slack
spec fn heights_in_range(s: &State, slack: int) -> bool {
    &&& s.unstable_blocks.tree.wf_depth()
    &&& s.utxos.next_height as int + s.unstable_blocks.tree.sdepth() <= 0x7ffe_0000 + slack
    &&& s.unstable_blocks.next_block_headers.heights_below(0x7ffe_0000 + slack)
    &&& s.unstable_blocks.next_block_headers.wf()
}

//@extract file=canister/src/blocktree.rs item="struct BlockDoesNotExtendTree"
//@end

// module paths used by the extracted code
mod unstable_blocks {
    pub(crate) use super::{get_main_chain, get_main_chain_length, get_block_hashes, get_chain_with_tip, peek, pop, push};
}

// ---------------------------------------------------------------------------------------
// C03 / C07: ingestion of stable blocks
// ---------------------------------------------------------------------------------------
// wf_headers (C07): the header store holds exactly one header per height below the stable height — on EVERY exit
spec fn wf_headers(s: &State) -> bool {
    forall|h: Height| s.stable_block_headers.by_height@.dom().contains(h) <==> h < s.utxos.next_height
}
// C03: "the block recorded at a stable height never changes": every entry of `a` below height n is still in `b`, unchanged
spec fn headers_below_unchanged(a: Map<Height, BlockHash>, b: Map<Height, BlockHash>, n: Height) -> bool {
    forall|h: Height| h < n && #[trigger] a.dom().contains(h) ==> b.dom().contains(h) && b[h] == a[h]
}
// C03: a block in progress is the current anchor
spec fn wf_ingesting(s: &State) -> bool {
    s.utxos.ingesting matches Some(h) ==> h == s.unstable_blocks.tree.root.block_hash
}

proof fn lemma_child_depth_smaller(t: &BlockTree<CachedBlock>, i: int)
    requires 0 <= i < t.children@.len(),
    ensures t.children@[i].sdepth() < t.sdepth(),
{
    BlockTree::<CachedBlock>::lemma_max_child_depth_mono(t.children@, t.children@.len() as int, t.children@.len() as int);
}

//@extract file=canister/src/state.rs item="fn ingest_stable_blocks_into_utxoset" props=C03,C08
//@ ret r
//@ rewrite R10? "(unstable_blocks::pop\([^()]*\))\s*\.expect\(\"[^\"]*\"\)" => "(match \1 { Some(vp_b) => vp_b, None => vp_refuse() })"
//@ rewrite R9 "fn pop_block\(state: &mut State, ingested_block_hash: BlockHash\)( -> [\w:<>]+)? \{" => "fn pop_block(state: &mut State, ingested_block_hash: BlockHash)\1 requires tree_ok(&old(state).unstable_blocks), old(state).unstable_blocks.tree.root.block_hash == ingested_block_hash, old(state).utxos.next_height >= 1, old(state).utxos.next_height < u32::MAX, ensures final(state).utxos == old(state).utxos, final(state).unstable_blocks.next_block_headers.wf(), bodies_exact(&final(state).unstable_blocks), headers_below_unchanged(old(state).stable_block_headers.by_height@, final(state).stable_block_headers.by_height@, (old(state).utxos.next_height - 1) as Height), final(state).metrics == old(state).metrics, final(state).unstable_blocks.stability_threshold == old(state).unstable_blocks.stability_threshold, 0 <= stable_child_spec(&old(state).unstable_blocks).unwrap() < old(state).unstable_blocks.tree.children@.len(), final(state).unstable_blocks.tree == old(state).unstable_blocks.tree.children@[stable_child_spec(&old(state).unstable_blocks).unwrap()], {"
//@ spec
//@| requires
//@|     wf_ingesting(old(state)),
//@|     tree_ok(&old(state).unstable_blocks),
//@|     old(state).utxos.next_height as int + old(state).unstable_blocks.tree.sdepth() + 0x10_0000 < u32::MAX,
//@| ensures
//@|     tree_ok(&final(state).unstable_blocks),
//@|     // stable height never decreases
//@|     final(state).utxos.next_height >= old(state).utxos.next_height,
//@|     // the block recorded at a stable height never changes: entries below the old stable height are untouched
//@|     headers_below_unchanged(old(state).stable_block_headers.by_height@, final(state).stable_block_headers.by_height@, old(state).utxos.next_height),
//@|     // whenever a stable child exists the advance happens at this opportunity: Done(_) leaves nothing to ingest
//@|     r is Done ==> stable_child_spec(&final(state).unstable_blocks).is_none() && final(state).utxos.ingesting is None,
//@|     // nothing to do => nothing changes (losing forks are discarded only when the anchor advances)
//@|     r == Slicing::<(), bool>::Done(false) ==> final(state).utxos.next_height == old(state).utxos.next_height
//@|         && final(state).unstable_blocks == old(state).unstable_blocks,
//@|     // the anchor only ever moves to one of its (transitive first-level) children: stable height counts the pops
//@|     wf_ingesting(final(state)),
//@ loop 1
//@| invariant
//@|     state.utxos.ingesting is None,
//@|     tree_ok(&state.unstable_blocks),
//@|     state.utxos.next_height >= old(state).utxos.next_height,
//@|     state.utxos.next_height as int + state.unstable_blocks.tree.sdepth() + 0x10_0000 < u32::MAX,
//@|     headers_below_unchanged(old(state).stable_block_headers.by_height@, state.stable_block_headers.by_height@, old(state).utxos.next_height),
//@|     !did_work ==> state.utxos.next_height == old(state).utxos.next_height && state.unstable_blocks == old(state).unstable_blocks,
//@| ensures
//@|     stable_child_spec(&state.unstable_blocks).is_none(),
//@| decreases state.unstable_blocks.tree.sdepth(),
//@ after "pop_block(state, ingested_block_hash);" nth=2
//@| proof {
//@|     lemma_child_depth_smaller(&vp_loop_blocks.tree, stable_child_spec(&vp_loop_blocks).unwrap());
//@|     lemma_tree_ok_child(&vp_loop_blocks, &state.unstable_blocks, stable_child_spec(&vp_loop_blocks).unwrap());
//@|     state.unstable_blocks.tree.lemma_depth_pos();
//@| }
//@ after "pop_block(state, ingested_block_hash);" nth=1
//@| proof {
//@|     lemma_child_depth_smaller(&vp_pre_blocks.tree, stable_child_spec(&vp_pre_blocks).unwrap());
//@|     lemma_tree_ok_child(&vp_pre_blocks, &state.unstable_blocks, stable_child_spec(&vp_pre_blocks).unwrap());
//@| }
//@ before "let block = new_stable_block.block();"
//@| let ghost vp_loop_blocks = state.unstable_blocks;
//@| proof { state.unstable_blocks.tree.lemma_depth_pos(); }
//@ before "match state.utxos.ingest_block_continue() {"
//@| let ghost vp_pre_blocks = state.unstable_blocks;
//@| proof { state.unstable_blocks.tree.lemma_depth_pos(); }
//@end

//@extract file=canister/src/state.rs item="fn ingest_stable_blocks_into_utxoset" props=C07 rename=ingest_stable_blocks_into_utxoset_c07
//@ ret r
//@ rewrite R10? "(unstable_blocks::pop\([^()]*\))\s*\.expect\(\"[^\"]*\"\)" => "(match \1 { Some(vp_b) => vp_b, None => vp_refuse() })"
//@ rewrite R9 "fn pop_block\(state: &mut State, ingested_block_hash: BlockHash\)( -> [\w:<>]+)? \{" => "fn pop_block(state: &mut State, ingested_block_hash: BlockHash)\1 requires tree_ok(&old(state).unstable_blocks), old(state).unstable_blocks.tree.root.block_hash == ingested_block_hash, old(state).utxos.next_height >= 1, old(state).utxos.next_height < u32::MAX, ensures final(state).utxos == old(state).utxos, final(state).unstable_blocks.next_block_headers.wf(), bodies_exact(&final(state).unstable_blocks), final(state).stable_block_headers.by_height@ == old(state).stable_block_headers.by_height@.insert((old(state).utxos.next_height - 1) as Height, ingested_block_hash), final(state).metrics == old(state).metrics, final(state).unstable_blocks.stability_threshold == old(state).unstable_blocks.stability_threshold, 0 <= stable_child_spec(&old(state).unstable_blocks).unwrap() < old(state).unstable_blocks.tree.children@.len(), final(state).unstable_blocks.tree == old(state).unstable_blocks.tree.children@[stable_child_spec(&old(state).unstable_blocks).unwrap()], {"
//@ spec
//@| requires
//@|     wf_ingesting(old(state)),
//@|     wf_headers(old(state)),
//@|     tree_ok(&old(state).unstable_blocks),
//@|     old(state).utxos.next_height as int + old(state).unstable_blocks.tree.sdepth() + 0x10_0000 < u32::MAX,
//@| ensures
//@|     // C07: at EVERY exit (also the paused ones) the store holds exactly the headers below the stable height,
//@|     // so a range query composes one header per height across the stable/unstable boundary
//@|     wf_headers(final(state)),
//@ loop 1
//@| invariant
//@|     state.utxos.ingesting is None,
//@|     tree_ok(&state.unstable_blocks),
//@|     state.utxos.next_height >= old(state).utxos.next_height,
//@|     state.utxos.next_height as int + state.unstable_blocks.tree.sdepth() + 0x10_0000 < u32::MAX,
//@|     headers_below_unchanged(old(state).stable_block_headers.by_height@, state.stable_block_headers.by_height@, old(state).utxos.next_height),
//@|     !did_work ==> state.utxos.next_height == old(state).utxos.next_height && state.unstable_blocks == old(state).unstable_blocks,
//@|     wf_headers(state),
//@| ensures
//@|     stable_child_spec(&state.unstable_blocks).is_none(),
//@| decreases state.unstable_blocks.tree.sdepth(),
//@ after "pop_block(state, ingested_block_hash);" nth=2
//@| proof {
//@|     lemma_child_depth_smaller(&vp_loop_blocks.tree, stable_child_spec(&vp_loop_blocks).unwrap());
//@|     lemma_tree_ok_child(&vp_loop_blocks, &state.unstable_blocks, stable_child_spec(&vp_loop_blocks).unwrap());
//@|     state.unstable_blocks.tree.lemma_depth_pos();
//@| }
//@ after "pop_block(state, ingested_block_hash);" nth=1
//@| proof {
//@|     lemma_child_depth_smaller(&vp_pre_blocks.tree, stable_child_spec(&vp_pre_blocks).unwrap());
//@|     lemma_tree_ok_child(&vp_pre_blocks, &state.unstable_blocks, stable_child_spec(&vp_pre_blocks).unwrap());
//@| }
//@ before "let block = new_stable_block.block();"
//@| let ghost vp_loop_blocks = state.unstable_blocks;
//@| proof { state.unstable_blocks.tree.lemma_depth_pos(); }
//@ before "match state.utxos.ingest_block_continue() {"
//@| let ghost vp_pre_blocks = state.unstable_blocks;
//@| proof { state.unstable_blocks.tree.lemma_depth_pos(); }
//@end

// ---------------------------------------------------------------------------------------
// C10: admission of a block
// ---------------------------------------------------------------------------------------
//@extract file=canister/src/validation.rs item="enum ValidationContextError"
//@ rewrite R2? "#\[derive\(([^\]]*)\)\]" => ""
//@end
// [trusted:stand-in] ic_btc_validation::{ValidateBlockError, BlockValidator}: proved against the consensus spec in unit `valid`;
// here only "validate_block is a function of (context chain, block, time) that does not touch the state"
struct ValidateBlockError { code: u8 }
//@extract file=canister/src/state.rs item="enum InsertBlockError"
//@ rewrite R2? "#\[derive\(([^\]]*)\)\]" => ""
//@end
//@extract file=canister/src/state.rs item="impl From<ValidationContextError> for InsertBlockError"
//@end
//@extract file=canister/src/state.rs item="impl From<ValidateBlockError> for InsertBlockError"
//@end
impl vstd::std_specs::convert::FromSpecImpl<ValidationContextError> for InsertBlockError {
    closed spec fn obeys_from_spec() -> bool { true }
    closed spec fn from_spec(v: ValidationContextError) -> Self { InsertBlockError::InvalidContext(v) }
}
impl vstd::std_specs::convert::FromSpecImpl<ValidateBlockError> for InsertBlockError {
    closed spec fn obeys_from_spec() -> bool { true }
    closed spec fn from_spec(v: ValidateBlockError) -> Self { InsertBlockError::InvalidBlock(v) }
}

// [trusted:stand-in] bitcoin::Network as produced by into_bitcoin_network
#[derive(Clone, Copy, PartialEq, Eq, Structural)]
enum BitcoinNetwork { Bitcoin, Testnet4, Regtest }
//@extract file=canister/src/types.rs item="fn into_bitcoin_network" props=C10
//@ ret r
//@ spec
//@| ensures r == (match network { Network::Mainnet => BitcoinNetwork::Bitcoin, Network::Testnet => BitcoinNetwork::Testnet4, Network::Regtest => BitcoinNetwork::Regtest }),
//@end

// the parent of `header` is the anchor or an unstable block, and `header` is not already one of that parent's children
spec fn ctx_error_spec(s: &State, header: Header, hash: BlockHash) -> Option<ValidationContextError> {
    let parent = BlockHash(header.prev_blockhash.0);
    if !s.unstable_blocks.tree.contains(parent) { Some(ValidationContextError::BlockDoesNotExtendTree(hash)) }
    else if exists|i: int| 0 <= i < s.unstable_blocks.tree.subtree_at(s.unstable_blocks.tree.idx_path_to(parent)).children@.len()
        && (#[trigger] s.unstable_blocks.tree.subtree_at(s.unstable_blocks.tree.idx_path_to(parent)).children@[i]).root.block_hash == hash
        { Some(ValidationContextError::AlreadyKnown(hash)) }
    else { None }
}
uninterp spec fn header_hash(h: Header) -> BlockHash;
uninterp spec fn block_valid_spec(s: &State, block: &Block, now: Duration) -> Option<ValidateBlockError>;

// unstable_blocks::get_chain_with_tip (unstable_blocks.rs:369): the tree's verified lookup
//@extract file=canister/src/unstable_blocks.rs item="fn get_chain_with_tip" props=C10
//@ ret res
//@ spec
//@| ensures
//@|     res.is_some() <==> blocks.tree.contains(*tip),
//@|     res matches Some(p) ==> p.0@ =~= blocks.tree.path_blocks(blocks.tree.idx_path_to(*tip))
//@|         && deref_seq(p.1@) =~= blocks.tree.subtree_at(blocks.tree.idx_path_to(*tip)).child_roots(),
//@end
mod ic_btc_types {
    pub(crate) use super::BlockHash;
}
impl Header {
    // [trusted:stand-in] bitcoin::block::Header::block_hash (double SHA-256 of the 80 header bytes): a function of the header
    #[verifier::external_body]
    fn block_hash(&self) -> (r: RawBlockHash) ensures BlockHash(r.0) == header_hash(*self) { unimplemented!() }
}
// ValidationContext::new (validation.rs:22) up to the construction of the context: connected to the tree? already a child of
// its parent? R15 (`any` desugaring): `if xs.iter().any(|c| p) {` => `let mut vp_any = false; for c in xs.iter() { if p { vp_any = true; break; } } if vp_any {`
//@slice file=canister/src/validation.rs in="impl<'a> ValidationContext<'a>" item="fn new" to_before="let chain = chain" props=C10
//@ rewrite R15 "if tip_successors\s*\.iter\(\)\s*\.any\(\|(\w+)\| (\w+\.block_hash\(\) == &current_block_hash)\)\s*\{" => "let mut vp_any = false;\n        for \1 in tip_successors.iter() {\n            if \2 {\n                vp_any = true;\n                break;\n            }\n            proof { vp_seen = vp_seen + 1; }\n        }\n        if vp_any {"
//@ head
//@| // R8 slice: the admission checks of ValidationContext::new
//@| fn validation_context_new_checks(state: &State, header: &Header) -> (r: Result<(), ValidationContextError>)
//@|     ensures
//@|         // BlockDoesNotExtendTree iff the parent is neither the anchor nor an unstable block; AlreadyKnown iff the block is
//@|         // already one of its parent's children; otherwise the context is built
//@|         r == (match ctx_error_spec(state, *header, header_hash(*header)) { Some(e) => Err::<(), ValidationContextError>(e), None => Ok(()) }),
//@| {
//@ tail
//@|     proof {
//@|         let t = state.unstable_blocks.tree;
//@|         let node = t.subtree_at(t.idx_path_to(prev_block_hash));
//@|         assert(tip_successors@.len() == node.children@.len());
//@|         assert forall|i: int| 0 <= i < node.children@.len() implies (#[trigger] node.children@[i]).root.block_hash != current_block_hash by {
//@|             assert(tip_successors@[i].block_hash == node.children@[i].root.block_hash);
//@|         }
//@|     }
//@|     Ok(())
//@| }
//@ before "vp_any = true;"
//@| proof {
//@|     assert(0 <= vp_seen < tip_successors@.len() && tip_successors@[vp_seen].block_hash == current_block_hash);
//@| }
//@ before "if vp_any {"
//@| proof {
//@|     // the successors handed back are exactly the children of the parent's node
//@|     let t = state.unstable_blocks.tree;
//@|     let node = t.subtree_at(t.idx_path_to(prev_block_hash));
//@|     assert(deref_seq(tip_successors@) =~= node.child_roots());
//@|     assert forall|j: int| 0 <= j < tip_successors@.len() implies (#[trigger] tip_successors@[j]).block_hash == node.children@[j].root.block_hash by {
//@|         assert(deref_seq(tip_successors@)[j] == node.child_roots()[j]);
//@|     }
//@| }
//@ before "let mut vp_any = false;"
//@| let ghost mut vp_seen: int = 0;
//@ loop 1 binder=its
//@| invariant_except_break
//@|     !vp_any,
//@| invariant
//@|     0 <= vp_seen <= tip_successors@.len(),
//@|     !vp_any ==> vp_seen == its.index@,
//@|     forall|j: int| 0 <= j < vp_seen ==> (#[trigger] tip_successors@[j]).block_hash != current_block_hash,
//@|     vp_any ==> (vp_seen < tip_successors@.len() && tip_successors@[vp_seen].block_hash == current_block_hash),
//@| ensures
//@|     vp_any <==> exists|j: int| 0 <= j < tip_successors@.len() && (#[trigger] tip_successors@[j]).block_hash == current_block_hash,
//@end

// ValidationContext::new, second half (validation.rs:37-43): the header chain handed to the validator is the branch from the anchor
// to the parent, each header with the hash cached for its block. R16: `xs.iter().map(|b| e).collect()` => a loop pushing `e`
//@slice file=canister/src/validation.rs in="impl<'a> ValidationContext<'a>" item="fn new" from="let chain = chain" props=C10,C11
//@ rewrite R16 "let chain = chain\s*\.into_chain\(\)\s*\.iter\(\)\s*\.map\(\|block\| (\(.*?\))\)\s*\.collect\(\);" => "let vp_blocks = chain.into_chain();\n        let mut vp_out: Vec<(&'a Header, BlockHash)> = Vec::new();\n        for block in vp_blocks.iter() {\n            vp_out.push(\1);\n        }\n        let chain = vp_out;"
//@ head
//@| // R8 slice: the statement that turns the block chain into the (header, hash) chain of the context
//@| fn validation_context_new_chain<'a>(chain: BlockChain<'a, CachedBlock>) -> (r: Vec<(&'a Header, BlockHash)>)
//@|     ensures
//@|         r@.len() == chain@.len(),
//@|         forall|i: int| 0 <= i < r@.len() ==> *(#[trigger] r@[i]).0 == chain@[i].header && r@[i].1 == chain@[i].block_hash,
//@| {
//@|     let ghost vp_chain_view = chain@;
//@ tail
//@|     chain
//@| }
//@ loop 1 binder=itb
//@| invariant
//@|     deref_seq(vp_blocks@) =~= vp_chain_view,
//@|     vp_out@.len() == itb.index@,
//@|     forall|i: int| 0 <= i < itb.index@ ==> *(#[trigger] vp_out@[i]).0 == vp_chain_view[i].header && vp_out@[i].1 == vp_chain_view[i].block_hash,
//@ before "vp_out.push("
//@| proof { assert(**block == vp_chain_view[itb.index@ as int]); }
//@end

struct ValidationContext<'a> { state: &'a State, header: Header }
impl<'a> ValidationContext<'a> {
    // [trusted:assumed-contract] ValidationContext::new (validation.rs:22) as seen by insert_block: its admission checks are
    // VERIFIED above as the slice validation_context_new_checks against the same ctx_error_spec; what stays assumed is the
    // glue of the two halves (the `.map(..).collect()` pipeline building `chain` cannot fail) and c.state == state.
    #[verifier::external_body]
    fn new(state: &'a State, header: &Header) -> (r: Result<ValidationContext<'a>, ValidationContextError>)
        ensures
            r matches Ok(c) ==> ctx_error_spec(state, *header, header_hash(*header)).is_none() && c.state == state && c.header == *header,
            r matches Err(e) ==> ctx_error_spec(state, *header, header_hash(*header)) == Some(e),
    { unimplemented!() }
}
struct BlockValidator<'a> { ctx: ValidationContext<'a>, network: BitcoinNetwork }
impl<'a> BlockValidator<'a> {
    #[verifier::external_body]
    fn new(ctx: ValidationContext<'a>, network: BitcoinNetwork) -> (r: BlockValidator<'a>)
        ensures r.ctx == ctx, r.network == network,
    { unimplemented!() }
    // [trusted:assumed-contract] BlockValidator::validate_block: pure function of (state behind the context, block, time) — its
    // meaning is what unit `valid` proves (C11, C12)
    #[verifier::external_body]
    fn validate_block(&self, block: &Block, now: Duration) -> (r: Result<(), ValidateBlockError>)
        ensures
            r.is_ok() <==> block_valid_spec(self.ctx.state, block, now).is_none(),
            r matches Err(e) ==> block_valid_spec(self.ctx.state, block, now) == Some(e),
    { unimplemented!() }
}

//@extract file=canister/src/state.rs item="fn insert_block" props=C10,C12
//@ ret r
//@ spec
//@| requires
//@|     header_hash(block.header) == block.hash,
//@| ensures
//@|     // admitted iff new, connected and valid
//@|     r.is_ok() <==> (ctx_error_spec(old(state), block.header, block.hash).is_none()
//@|                     && block_valid_spec(old(state), &block, now_spec()).is_none()),
//@|     // rejects are atomic: nothing at all changes
//@|     r.is_err() ==> *final(state) == *old(state),
//@|     // on success exactly that block is appended below its parent; nothing else but the insertion histogram changes
//@|     r.is_ok() ==> final(state).unstable_blocks.tree == tree_extended(old(state).unstable_blocks.tree, block.hash, block.header)
//@|         && final(state).utxos == old(state).utxos
//@|         && final(state).stable_block_headers == old(state).stable_block_headers
//@|         && final(state).syncing_state == old(state).syncing_state
//@|         && final(state).fees == old(state).fees
//@|         && final(state).api_access == old(state).api_access
//@|         && final(state).unstable_blocks.next_block_headers.offered@ == old(state).unstable_blocks.next_block_headers.offered@,
//@|     // an admitted block raises the heights by at most one
//@|     forall|k: int| heights_in_range(old(state), k) ==> heights_in_range(final(state), k + 1),
//@end

// ---------------------------------------------------------------------------------------
// The single thread-local state (lib.rs:52-66). Rule R7: `with_state(|s| E)` => `{ let s: &State = vp_state(); E }`;
// `with_state_mut(|s| B)` in a function extracted state-passing => `{ let s: &mut State = &mut *vp_st; B }`.
// ---------------------------------------------------------------------------------------
uninterp spec fn global_state() -> State;
// [trusted:stand-in] the thread-local STATE read through with_state
#[verifier::external_body]
fn vp_state() -> (r: &'static State)
    ensures *r == global_state(),
{ unimplemented!() }
// R6 (refusal mode): panic!(..) => vp_refuse(): diverges (the call traps and the IC rolls the message back)
#[verifier::external_body]
fn vp_refuse() -> ! { panic!() }

//@extract file=canister/src/lib.rs item="const SYNCED_THRESHOLD" props=C14
//@end

// [trusted:assumed-spec] std::cmp::max on u32 via the generic spec above (u32 obeys cmp spec in vstd)

// ---- C14 guards, refusal mode: if the guard returns, its condition held ----------------------
//@extract file=canister/src/lib.rs item="fn verify_network" props=C14 mode=refuse
//@ r7 ro="vp_state()" type=State
//@ spec
//@| ensures global_state().utxos.network == network,
//@end
//@extract file=canister/src/lib.rs item="fn verify_api_access" props=C14 mode=refuse
//@ r7 ro="vp_state()" type=State
//@ spec
//@| ensures global_state().api_access != Flag::Disabled,
//@end
//@extract file=canister/src/lib.rs item="fn is_synced" props=C14
//@ ret r
//@ r7 ro="vp_state()" type=State
//@ spec
//@| requires state_ranges(&global_state()),
//@| ensures r == synced_spec(&global_state()),
//@ start
//@| proof { lemma_best_path_le_depth(&global_state().unstable_blocks.tree); }
//@end
//@extract file=canister/src/lib.rs item="fn verify_synced" props=C14 mode=refuse
//@ r7 ro="vp_state()" type=State
//@ spec
//@| requires state_ranges(&global_state()),
//@| ensures global_state().disable_api_if_not_fully_synced != Flag::Disabled ==> synced_spec(&global_state()),
//@end

// C14: "the highest validated announced header is at most 2 above the best-chain height"
spec fn synced_spec(s: &State) -> bool {
    let tip = s.utxos.next_height + s.unstable_blocks.tree.best_path().len() - 1;
    match s.unstable_blocks.next_block_headers.max_height_spec() {
        Some(m) => m <= tip + 2,
        None => true,
    }
}
// what every gated data endpoint may assume once its three guards have returned
spec fn gate_spec(s: &State, network: Network, sync_rule: bool) -> bool {
    &&& s.api_access != Flag::Disabled
    &&& s.utxos.network == network
    &&& (sync_rule && s.disable_api_if_not_fully_synced != Flag::Disabled ==> synced_spec(s))
}

// ---------------------------------------------------------------------------------------
// C02: get_blockchain_info describes the last block of the served branch
// ---------------------------------------------------------------------------------------
// [trusted:stand-in] ic_btc_interface::BlockchainInfo (same field names)
struct BlockchainInfo { height: Height, block_hash: Vec<u8>, timestamp: u32, difficulty: u128, utxos_length: u64 }
impl BlockHash {
    // [trusted:stand-in] BlockHash::to_vec: the 32 bytes of the hash (here: an injective image of the stand-in value)
    uninterp spec fn bytes_spec(&self) -> Seq<u8>;
    #[verifier::external_body]
    fn to_vec(&self) -> (r: Vec<u8>) ensures r@ == self.bytes_spec() { unimplemented!() }
}
impl UtxoSet {
    // [trusted:stand-in] UtxoSet::utxos_len (stable map length)
    #[verifier::external_body]
    fn utxos_len(&self) -> (r: u64) ensures r < 0x4000_0000_0000_0000 { unimplemented!() }
}
// sum of the per-block UTXO deltas of the first n blocks of a chain
spec fn delta_sum(c: Seq<CachedBlock>, n: int) -> int
    decreases n,
{
    if n <= 0 || n > c.len() { 0 } else { delta_sum(c, n - 1) + c[n - 1].utxo_delta }
}
// [assumption, stated] the running UTXO count stays within i64
spec fn deltas_in_range(base: int, c: Seq<CachedBlock>) -> bool {
    forall|n: int| 0 <= n <= c.len() ==> -0x4000_0000_0000_0000 < #[trigger] (base + delta_sum(c, n)) < 0x4000_0000_0000_0000
}

//@extract file=canister/src/state.rs item="fn blockchain_info" props=C02
//@ ret r
//@ sigrewrite R3 "crate::types::BlockchainInfo" => "BlockchainInfo"
//@ rewrite R3 "crate::types::BlockchainInfo" => "BlockchainInfo"
//@ rewrite R4 "for block in main_chain\.into_chain\(\) \{" => "let vp_chain = main_chain.into_chain(); for block in it: vp_chain.iter() {"
//@ spec
//@| requires
//@|     state_ranges(state),
//@|     forall|b: int| deltas_in_range(b, state.unstable_blocks.tree.best_path()),
//@| ensures
//@|     ({ let tip = state.unstable_blocks.tree.best_path().last();
//@|        // height, hash, timestamp and difficulty describe the last block of the served branch
//@|        &&& r.height == state.utxos.next_height + state.unstable_blocks.tree.best_path().len() - 1
//@|        &&& r.block_hash@ == tip.block_hash.bytes_spec()
//@|        &&& r.timestamp == tip.header.time
//@|        &&& r.difficulty == tip.difficulty }),
//@ loop 1
//@| invariant
//@|     deref_seq(vp_chain@) =~= state.unstable_blocks.tree.best_path(),
//@|     utxos_length == vp_base + delta_sum(state.unstable_blocks.tree.best_path(), it.index@),
//@|     deltas_in_range(vp_base, state.unstable_blocks.tree.best_path()),
//@ before "utxos_length += block.utxo_delta();"
//@| proof {
//@|     let c = state.unstable_blocks.tree.best_path();
//@|     assert(*block == c[it.index@]);
//@|     assert(delta_sum(c, it.index@ + 1) == delta_sum(c, it.index@) + c[it.index@].utxo_delta);
//@|     assert(-0x4000_0000_0000_0000 < vp_base + delta_sum(c, it.index@ + 1) < 0x4000_0000_0000_0000);
//@|     assert(-0x4000_0000_0000_0000 < vp_base + delta_sum(c, it.index@) < 0x4000_0000_0000_0000);
//@| }
//@ before "let vp_chain = main_chain.into_chain();"
//@| let ghost vp_base = utxos_length as int;
//@| proof { state.unstable_blocks.tree.lemma_best_key_pos(); state.unstable_blocks.tree.lemma_best_path_len(); }
//@end
