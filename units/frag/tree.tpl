// fragment: canister/src/blocktree.rs — spec functions, lemmas and contracts (C02 C03 C04 C06 C13)
//@extract file=canister/src/blocktree.rs item="trait ChainBlock"
//@ rewrite R9 "fn header\(&self\) -> &Header;" => "spec fn sheader(&self) -> Header; fn header(&self) -> (r: &Header) ensures *r == self.sheader();"
//@ rewrite R9 "fn block_hash\(&self\) -> &BlockHash;" => "spec fn shash(&self) -> BlockHash; fn block_hash(&self) -> (r: &BlockHash) ensures *r == self.shash();"
//@ rewrite R9 "fn prev_block_hash\(&self\) -> BlockHash;" => "spec fn sprev(&self) -> BlockHash; fn prev_block_hash(&self) -> (r: BlockHash) ensures r == self.sprev();"
//@ rewrite R9 "fn difficulty\(&self\) -> u128;" => "spec fn sdiff(&self) -> u128; fn difficulty(&self) -> (r: u128) ensures r == self.sdiff();"
//@end

//@extract file=canister/src/blocktree.rs item="struct BlockChain"
//@end
//@extract file=canister/src/blocktree.rs item="struct BlockTree"
//@end

// ---------------------------------------------------------------------------------------
// SPEC (written from the statements of C02 / C03 / C04, not from the code)
// ---------------------------------------------------------------------------------------

// key of a branch: (accumulated difficulty, number of blocks); a beats b iff heavier, or equally heavy and longer
spec fn key_gt(a: (int, int), b: (int, int)) -> bool {
    a.0 > b.0 || (a.0 == b.0 && a.1 > b.1)
}

spec fn deref_seq<B>(s: Seq<&B>) -> Seq<B> {
    Seq::new(s.len(), |i: int| *s[i])
}

spec fn rev_refs<B>(s: Seq<&B>) -> Seq<B> {
    Seq::new(s.len(), |i: int| *s[s.len() - 1 - i])
}

impl<'a, Block> BlockChain<'a, Block> {
    // abstract view: the chain as a sequence of blocks, first block first
    spec fn view(&self) -> Seq<Block> {
        seq![*self.first] + deref_seq(self.successors@)
    }
//@extract file=canister/src/blocktree.rs in="impl<'a, Block> BlockChain<'a, Block>" item="fn new" props=C02
//@ ret r
//@ spec
//@| ensures r@ =~= seq![*first],
//@end
//@extract file=canister/src/blocktree.rs in="impl<'a, Block> BlockChain<'a, Block>" item="fn new_with_successors" props=C02
//@ ret r
//@ spec
//@| ensures r@ =~= seq![*first] + deref_seq(successors@),
//@end
//@extract file=canister/src/blocktree.rs in="impl<'a, Block> BlockChain<'a, Block>" item="fn len" props=C02,C04,C07
//@ ret r
//@ spec
//@| requires self@.len() <= usize::MAX,
//@| ensures r == self@.len(),
//@end
//@extract file=canister/src/blocktree.rs in="impl<'a, Block> BlockChain<'a, Block>" item="fn first" props=C02
//@ ret r
//@ spec
//@| ensures *r == self@[0],
//@end
//@extract file=canister/src/blocktree.rs in="impl<'a, Block> BlockChain<'a, Block>" item="fn tip" props=C02
//@ ret r
//@ spec
//@| ensures *r == self@[self@.len() - 1],
//@end
//@extract file=canister/src/blocktree.rs in="impl<'a, Block> BlockChain<'a, Block>" item="fn get" props=C07
//@ ret r
//@ spec
//@| ensures
//@|     index < self@.len() ==> r.is_some() && *r.unwrap() == self@[index as int],
//@|     index >= self@.len() ==> r.is_none(),
//@end
}

impl<Block: ChainBlock> BlockTree<Block> {
    // ---- C02: the branch to serve -----------------------------------------------------
    // best (difficulty, length) among the first n children, earlier child kept on ties; (0,0) if none
    spec fn best_child_key(cs: Seq<BlockTree<Block>>, n: int) -> (int, int)
        decreases cs, n
    {
        if n <= 0 || n > cs.len() { (0, 0) } else {
            let prev = Self::best_child_key(cs, n - 1);
            let k = cs[n - 1].best_key();
            if key_gt(k, prev) { k } else { prev }
        }
    }
    spec fn best_child_idx(cs: Seq<BlockTree<Block>>, n: int) -> int
        decreases cs, n
    {
        if n <= 0 || n > cs.len() { -1 } else {
            let prev = Self::best_child_key(cs, n - 1);
            let k = cs[n - 1].best_key();
            if key_gt(k, prev) { n - 1 } else { Self::best_child_idx(cs, n - 1) }
        }
    }
    spec fn best_key(&self) -> (int, int)
        decreases self
    {
        let b = Self::best_child_key(self.children@, self.children@.len() as int);
        (self.root.sdiff() + b.0, 1 + b.1)
    }
    // the branch served: root first
    spec fn best_path(&self) -> Seq<Block>
        decreases self
    {
        let i = Self::best_child_idx(self.children@, self.children@.len() as int);
        if 0 <= i < self.children@.len() { seq![self.root] + self.children@[i].best_path() } else { seq![self.root] }
    }
    // same, as a sequence of child indices
    spec fn best_idx_path(&self) -> Seq<int>
        decreases self
    {
        let i = Self::best_child_idx(self.children@, self.children@.len() as int);
        if 0 <= i < self.children@.len() { seq![i] + self.children@[i].best_idx_path() } else { Seq::empty() }
    }

    // [assumption, stated] machine-integer ranges: accumulated difficulty of every branch < 2^128, lengths fit usize
    spec fn wf(&self) -> bool
        decreases self
    {
        self.best_key().0 <= u128::MAX && self.best_key().1 <= usize::MAX
        && forall|i: int| 0 <= i < self.children@.len() ==> (#[trigger] self.children@[i]).wf()
    }

    // ---- independent oracle: ALL root-to-leaf branches, as child-index paths --------------
    spec fn is_leaf_path(&self, p: Seq<int>) -> bool
        decreases self
    {
        if self.children@.len() == 0 { p.len() == 0 }
        else { p.len() > 0 && 0 <= p[0] < self.children@.len() && self.children@[p[0]].is_leaf_path(p.skip(1)) }
    }
    spec fn path_key(&self, p: Seq<int>) -> (int, int)
        decreases self
    {
        if p.len() > 0 && 0 <= p[0] < self.children@.len() {
            let k = self.children@[p[0]].path_key(p.skip(1));
            (self.root.sdiff() + k.0, 1 + k.1)
        } else { (self.root.sdiff() as int, 1) }
    }
    spec fn path_blocks(&self, p: Seq<int>) -> Seq<Block>
        decreases self
    {
        if p.len() > 0 && 0 <= p[0] < self.children@.len() {
            seq![self.root] + self.children@[p[0]].path_blocks(p.skip(1))
        } else { seq![self.root] }
    }

    proof fn lemma_best_child_bounds(cs: Seq<BlockTree<Block>>, n: int)
        requires 0 <= n <= cs.len(),
        ensures
            Self::best_child_key(cs, n).0 >= 0, Self::best_child_key(cs, n).1 >= 0,
            forall|i: int| 0 <= i < n ==> !key_gt((#[trigger] cs[i]).best_key(), Self::best_child_key(cs, n)),
            n > 0 ==> 0 <= Self::best_child_idx(cs, n) < n
                && cs[Self::best_child_idx(cs, n)].best_key() == Self::best_child_key(cs, n),
            n > 0 ==> forall|i: int| 0 <= i < Self::best_child_idx(cs, n) ==>
                key_gt(Self::best_child_key(cs, n), (#[trigger] cs[i]).best_key()),
            n == 0 ==> Self::best_child_idx(cs, n) == -1,
        decreases n,
    {
        if n > 0 {
            Self::lemma_best_child_bounds(cs, n - 1);
            cs[n - 1].lemma_best_key_pos();
        }
    }
    proof fn lemma_best_key_pos(&self)
        ensures self.best_key().0 >= 0, self.best_key().1 >= 1,
        decreases self,
    {
        Self::lemma_best_child_pos(self.children@, self.children@.len() as int);
    }
    proof fn lemma_best_child_pos(cs: Seq<BlockTree<Block>>, n: int)
        requires 0 <= n <= cs.len(),
        ensures Self::best_child_key(cs, n).0 >= 0, Self::best_child_key(cs, n).1 >= 0,
            n > 0 ==> Self::best_child_key(cs, n).1 >= 1,
        decreases cs, n,
    {
        if n > 0 {
            Self::lemma_best_child_pos(cs, n - 1);
            cs[n - 1].lemma_best_key_pos();
        }
    }

//@lemma fn=lemma_best_is_max props=C02
//@lemma fn=lemma_best_path_is_leaf props=C02
//@lemma fn=lemma_best_path_len props=C02
    // C02 oracle lemma: the served branch is a root-to-leaf branch, its key is the maximum over ALL
    // root-to-leaf branches, and among the branches attaining that maximum it is the first in
    // child (arrival) order.
    proof fn lemma_best_is_max(&self, p: Seq<int>)
        requires self.is_leaf_path(p),
        ensures
            self.is_leaf_path(self.best_idx_path()),
            self.path_key(self.best_idx_path()) == self.best_key(),
            self.path_blocks(self.best_idx_path()) =~= self.best_path(),
            !key_gt(self.path_key(p), self.best_key()),
            self.path_key(p) == self.best_key() ==> lex_le(self.best_idx_path(), p),
        decreases self,
    {
        let cs = self.children@;
        let n = cs.len() as int;
        Self::lemma_best_child_bounds(cs, n);
        if n == 0 {
            assert(p.len() == 0);
        } else {
            let bi = Self::best_child_idx(cs, n);
            let c = p[0];
            cs[c].lemma_best_is_max(p.skip(1));
            // best child's own best path (any leaf path of it will do as witness): use its best_idx_path
            cs[bi].lemma_best_path_is_leaf();
            cs[bi].lemma_best_is_max(cs[bi].best_idx_path());
            assert(self.best_idx_path() =~= seq![bi] + cs[bi].best_idx_path());
            assert(self.best_idx_path().skip(1) =~= cs[bi].best_idx_path());
            assert(!key_gt(cs[c].best_key(), Self::best_child_key(cs, n)));
            if self.path_key(p) == self.best_key() {
                // then child c attains the best child key; bi is the first such child
                assert(cs[c].path_key(p.skip(1)) == Self::best_child_key(cs, n));
                if c < bi {
                    assert(key_gt(Self::best_child_key(cs, n), cs[c].best_key()));
                    assert(false);
                }
                if c == bi {
                    assert(lex_le(cs[bi].best_idx_path(), p.skip(1)));
                }
            }
        }
    }
    proof fn lemma_best_path_is_leaf(&self)
        ensures self.is_leaf_path(self.best_idx_path()),
        decreases self,
    {
        let cs = self.children@;
        let n = cs.len() as int;
        Self::lemma_best_child_bounds(cs, n);
        if n > 0 {
            let bi = Self::best_child_idx(cs, n);
            cs[bi].lemma_best_path_is_leaf();
            assert(self.best_idx_path().skip(1) =~= cs[bi].best_idx_path());
        }
    }

//@extract file=canister/src/blocktree.rs in="impl<Block: ChainBlock> BlockTree<Block>" item="fn main_chain_by_difficulty_inner" props=C02
//@ ret r
//@ spec
//@| requires self.wf(),
//@| ensures
//@|     r.0.0 == self.best_key().0,
//@|     r.1 == self.best_key().1,
//@|     rev_refs(r.2@) =~= self.best_path(),
//@|     r.2@.len() >= 1,
//@| decreases self,
//@ loop 1 binder=it
//@| invariant
//@|     best_key.0.0 == Self::best_child_key(self.children@, it.index@).0,
//@|     best_key.1 == Self::best_child_key(self.children@, it.index@).1,
//@|     self.wf(),
//@|     ({ let i = Self::best_child_idx(self.children@, it.index@);
//@|        if 0 <= i < self.children@.len() { rev_refs(best_chain@) =~= self.children@[i].best_path() } else { best_chain@.len() == 0 } }),
//@ before "let total_difficulty"
//@| proof { Self::lemma_best_child_bounds(self.children@, self.children@.len() as int); }
//@end

//@extract file=canister/src/blocktree.rs in="impl<Block: ChainBlock> BlockTree<Block>" item="fn main_chain_by_difficulty" props=C02
//@ ret r
//@ spec
//@| requires self.wf(),
//@| ensures
//@|     r@ =~= self.best_path(),
//@end

//@extract file=canister/src/blocktree.rs in="impl<Block: ChainBlock> BlockTree<Block>" item="fn main_chain_length_by_difficulty_inner" props=C02
//@ ret r
//@ spec
//@| requires self.wf(),
//@| ensures
//@|     r.0.0 == self.best_key().0,
//@|     r.1 == self.best_key().1,
//@| decreases self,
//@ loop 1 binder=it
//@| invariant
//@|     best_key.0.0 == Self::best_child_key(self.children@, it.index@).0,
//@|     best_key.1 == Self::best_child_key(self.children@, it.index@).1,
//@|     self.wf(),
//@ before "let total_difficulty"
//@| proof { Self::lemma_best_child_bounds(self.children@, self.children@.len() as int); }
//@end

//@extract file=canister/src/blocktree.rs in="impl<Block: ChainBlock> BlockTree<Block>" item="fn main_chain_length_by_difficulty" props=C02
//@ ret r
//@ spec
//@| requires self.wf(),
//@| ensures
//@|     r == self.best_key().1,
//@|     r == self.best_path().len(),
//@ before "self.main_chain_length_by_difficulty_inner().1"
//@| proof { self.lemma_best_path_len(); }
//@end


    // ---- C03 / C04: depths ---------------------------------------------------------------
    // longest root-to-leaf branch, in blocks
    spec fn max_child_depth(cs: Seq<BlockTree<Block>>, n: int) -> int
        decreases cs, n
    {
        if n <= 0 || n > cs.len() { 0 } else {
            let p = Self::max_child_depth(cs, n - 1);
            let d = cs[n - 1].sdepth();
            if d > p { d } else { p }
        }
    }
    spec fn sdepth(&self) -> int
        decreases self
    {
        1 + Self::max_child_depth(self.children@, self.children@.len() as int)
    }
    // heaviest root-to-leaf branch, in accumulated difficulty
    spec fn max_child_dbd(cs: Seq<BlockTree<Block>>, n: int) -> int
        decreases cs, n
    {
        if n <= 0 || n > cs.len() { 0 } else {
            let p = Self::max_child_dbd(cs, n - 1);
            let d = cs[n - 1].sdbd();
            if d > p { d } else { p }
        }
    }
    spec fn sdbd(&self) -> int
        decreases self
    {
        self.root.sdiff() + Self::max_child_dbd(self.children@, self.children@.len() as int)
    }
    // [assumption, stated] tree height < 2^32 (depths are carried in u32 by block_hashes_with_depths_by_heights)
    spec fn wf_depth(&self) -> bool
        decreases self
    {
        self.sdepth() <= u32::MAX
        && forall|i: int| 0 <= i < self.children@.len() ==> (#[trigger] self.children@[i]).wf_depth()
    }

    proof fn lemma_max_child_depth_mono(cs: Seq<BlockTree<Block>>, m: int, n: int)
        requires 0 <= m <= n <= cs.len(),
        ensures 0 <= Self::max_child_depth(cs, m) <= Self::max_child_depth(cs, n),
            forall|i: int| 0 <= i < n ==> (#[trigger] cs[i]).sdepth() <= Self::max_child_depth(cs, n),
        decreases n,
    {
        if n > 0 {
            if m < n { Self::lemma_max_child_depth_mono(cs, m, n - 1); } else { Self::lemma_max_child_depth_mono(cs, m - 1, n - 1); }
        }
    }
    proof fn lemma_max_child_dbd_mono(cs: Seq<BlockTree<Block>>, m: int, n: int)
        requires 0 <= m <= n <= cs.len(),
        ensures 0 <= Self::max_child_dbd(cs, m) <= Self::max_child_dbd(cs, n),
            forall|i: int| 0 <= i < n ==> (#[trigger] cs[i]).sdbd() <= Self::max_child_dbd(cs, n),
        decreases n,
    {
        if n > 0 {
            if m < n { Self::lemma_max_child_dbd_mono(cs, m, n - 1); } else { Self::lemma_max_child_dbd_mono(cs, m - 1, n - 1); }
        }
    }
//@lemma fn=lemma_dbd_is_best_key props=C02,C03
    // the heaviest branch's weight is the first component of the served branch's key
    proof fn lemma_dbd_is_best_key(&self)
        ensures self.sdbd() == self.best_key().0,
        decreases self,
    {
        Self::lemma_child_dbd_is_best_child_key(self.children@, self.children@.len() as int);
    }
    proof fn lemma_child_dbd_is_best_child_key(cs: Seq<BlockTree<Block>>, n: int)
        requires 0 <= n <= cs.len(),
        ensures Self::max_child_dbd(cs, n) == Self::best_child_key(cs, n).0,
        decreases cs, n,
    {
        if n > 0 {
            Self::lemma_child_dbd_is_best_child_key(cs, n - 1);
            cs[n - 1].lemma_dbd_is_best_key();
            cs[n - 1].lemma_best_key_pos();
            Self::lemma_best_child_pos(cs, n - 1);
        }
    }
//@lemma fn=lemma_dbd_depth_are_max_over_paths props=C03,C04
    // oracle: sdbd / sdepth are the maxima of (sum difficulty) / (length) over ALL root-to-leaf branches
    proof fn lemma_dbd_depth_are_max_over_paths(&self, p: Seq<int>)
        requires self.is_leaf_path(p),
        ensures self.path_key(p).0 <= self.sdbd(), self.path_key(p).1 <= self.sdepth(),
        decreases self,
    {
        let cs = self.children@;
        let n = cs.len() as int;
        if n > 0 {
            cs[p[0]].lemma_dbd_depth_are_max_over_paths(p.skip(1));
            Self::lemma_max_child_dbd_mono(cs, n, n);
            Self::lemma_max_child_depth_mono(cs, n, n);
        }
    }
    proof fn lemma_depth_attained(&self) -> (p: Seq<int>)
        ensures self.is_leaf_path(p), self.path_key(p).1 == self.sdepth(),
        decreases self,
    {
        let cs = self.children@;
        let n = cs.len() as int;
        if n == 0 { Seq::empty() } else {
            let i = Self::lemma_max_child_depth_witness(cs, n);
            let q = cs[i].lemma_depth_attained();
            let p = seq![i] + q;
            assert(p.skip(1) =~= q);
            p
        }
    }
    proof fn lemma_max_child_depth_witness(cs: Seq<BlockTree<Block>>, n: int) -> (i: int)
        requires 0 < n <= cs.len(),
        ensures 0 <= i < n, cs[i].sdepth() == Self::max_child_depth(cs, n),
        decreases n,
    {
        cs[n - 1].lemma_depth_pos();
        assert(Self::max_child_depth(cs, 0) == 0);
        if n == 1 { assert(Self::max_child_depth(cs, 1) == cs[0].sdepth()); 0 } else {
            let j = Self::lemma_max_child_depth_witness(cs, n - 1);
            if cs[n - 1].sdepth() > Self::max_child_depth(cs, n - 1) { n - 1 } else { j }
        }
    }
    proof fn lemma_depth_pos(&self)
        ensures self.sdepth() >= 1, self.sdbd() >= 0,
        decreases self,
    {
        Self::lemma_max_child_depth_mono(self.children@, 0, self.children@.len() as int);
        Self::lemma_max_child_dbd_mono(self.children@, 0, self.children@.len() as int);
    }
//@lemma fn=lemma_leading_child_is_served props=C03
    // C03 "the new anchor lies on the chain being served": a child whose heaviest branch leads every
    // sibling's by a positive margin is the child the served branch goes through.
    proof fn lemma_leading_child_is_served(&self, c: int, margin: int)
        requires
            0 <= c < self.children@.len(),
            margin > 0,
            forall|j: int| 0 <= j < self.children@.len() && j != c ==>
                self.children@[c].sdbd() - (#[trigger] self.children@[j]).sdbd() >= margin,
        ensures
            Self::best_child_idx(self.children@, self.children@.len() as int) == c,
            self.best_path().len() >= 2 && self.best_path()[1] == self.children@[c].root,
    {
        let cs = self.children@;
        let n = cs.len() as int;
        Self::lemma_best_child_bounds(cs, n);
        let bi = Self::best_child_idx(cs, n);
        cs[c].lemma_dbd_is_best_key();
        cs[bi].lemma_dbd_is_best_key();
        assert(!key_gt(cs[c].best_key(), Self::best_child_key(cs, n)));
        if bi != c {
            assert(cs[c].sdbd() - cs[bi].sdbd() >= margin);
            assert(false);
        }
        assert(self.children@[c].best_path()[0] == self.children@[c].root) by {
            // first element of a best path is the root
            let t = self.children@[c];
            let k = Self::best_child_idx(t.children@, t.children@.len() as int);
        }
    }

//@extract file=canister/src/blocktree.rs in="impl<Block> BlockTree<Block>" item="fn depth" props=C03,C04
//@ ret r
//@ spec
//@| requires self.wf_depth(),
//@| ensures r.0 == self.sdepth(),
//@| decreases self,
//@ loop 1 binder=it
//@| invariant
//@|     res.0 == Self::max_child_depth(self.children@, it.index@),
//@|     self.wf_depth(),
//@ before "res = res + Depth::new(1);"
//@| proof { Self::lemma_max_child_depth_mono(self.children@, 0, self.children@.len() as int); }
//@end

//@extract file=canister/src/blocktree.rs in="impl<Block: ChainBlock> BlockTree<Block>" item="fn difficulty_based_depth" props=C03
//@ ret r
//@ spec
//@| requires self.wf(),
//@| ensures r.0 == self.sdbd(), r.0 == self.best_key().0,
//@| decreases self,
//@ loop 1 binder=it
//@| invariant
//@|     res.0 == Self::max_child_dbd(self.children@, it.index@),
//@|     self.wf(),
//@ before "res = res + DifficultyBasedDepth::new(self.root.difficulty());"
//@| proof {
//@|     Self::lemma_max_child_dbd_mono(self.children@, 0, self.children@.len() as int);
//@|     self.lemma_dbd_is_best_key();
//@| }
//@end

//@extract file=canister/src/blocktree.rs in="impl<Block> BlockTree<Block>" item="fn remove_child" props=C03
//@ ret r
//@ spec
//@| requires index < old(self).children@.len(),
//@| ensures
//@|     r == old(self).children@[index as int],
//@|     final(self).root == old(self).root,
//@|     final(self).children@ =~= old(self).children@.update(index as int, old(self).children@.last()).drop_last(),
//@end


    // ---- C01 / C06 / C13: lookup of a block by hash, pre-order listing ---------------------
    spec fn contains(&self, h: BlockHash) -> bool
        decreases self
    {
        self.root.shash() == h || exists|i: int| 0 <= i < self.children@.len() && (#[trigger] self.children@[i]).contains(h)
    }
    // first child (in arrival order) among the first n whose subtree contains h, or -1
    spec fn first_child_with(cs: Seq<BlockTree<Block>>, h: BlockHash, n: int) -> int
        decreases cs, n
    {
        if n <= 0 || n > cs.len() { -1 } else {
            let r = Self::first_child_with(cs, h, n - 1);
            if r >= 0 { r } else if cs[n - 1].contains(h) { n - 1 } else { -1 }
        }
    }
    // child-index path from the root to the first (depth-first) block with hash h
    spec fn idx_path_to(&self, h: BlockHash) -> Seq<int>
        decreases self
    {
        if self.root.shash() == h { Seq::empty() } else {
            let i = Self::first_child_with(self.children@, h, self.children@.len() as int);
            if 0 <= i < self.children@.len() { seq![i] + self.children@[i].idx_path_to(h) } else { Seq::empty() }
        }
    }
    spec fn subtree_at(&self, p: Seq<int>) -> BlockTree<Block>
        decreases self
    {
        if p.len() > 0 && 0 <= p[0] < self.children@.len() { self.children@[p[0]].subtree_at(p.skip(1)) } else { *self }
    }
    spec fn child_roots(&self) -> Seq<Block> {
        Seq::new(self.children@.len(), |i: int| self.children@[i].root)
    }
    spec fn preorder(&self) -> Seq<BlockHash>
        decreases self
    {
        seq![self.root.shash()] + Self::preorder_children(self.children@, self.children@.len() as int)
    }
    spec fn preorder_children(cs: Seq<BlockTree<Block>>, n: int) -> Seq<BlockHash>
        decreases cs, n
    {
        if n <= 0 || n > cs.len() { Seq::empty() } else { Self::preorder_children(cs, n - 1) + cs[n - 1].preorder() }
    }
    // the path to a block is shorter than the tree is deep
    proof fn lemma_idx_path_len_le_depth(&self, h: BlockHash)
        ensures self.idx_path_to(h).len() < self.sdepth(),
        decreases self,
    {
        let n = self.children@.len() as int;
        Self::lemma_max_child_depth_mono(self.children@, 0, n);
        if self.root.shash() != h {
            let i = Self::first_child_with(self.children@, h, n);
            if 0 <= i < n {
                self.children@[i].lemma_idx_path_len_le_depth(h);
                Self::lemma_max_child_depth_mono(self.children@, n, n);
            }
        }
    }
    proof fn lemma_first_child_with(cs: Seq<BlockTree<Block>>, h: BlockHash, n: int)
        requires 0 <= n <= cs.len(),
        ensures
            Self::first_child_with(cs, h, n) == -1 <==> (forall|i: int| 0 <= i < n ==> !(#[trigger] cs[i]).contains(h)),
            Self::first_child_with(cs, h, n) != -1 ==> 0 <= Self::first_child_with(cs, h, n) < n
                && cs[Self::first_child_with(cs, h, n)].contains(h)
                && (forall|i: int| 0 <= i < Self::first_child_with(cs, h, n) ==> !(#[trigger] cs[i]).contains(h)),
        decreases n,
    {
        if n > 0 { Self::lemma_first_child_with(cs, h, n - 1); }
    }

// BlockTree::get_child_blocks (blocktree.rs:343). R16: `xs.iter().map(|c| e).collect()` => a loop pushing `e`
//@extract file=canister/src/blocktree.rs in="impl<Block> BlockTree<Block>" item="fn get_child_blocks" props=C01,C06,C10
//@ ret r
//@ rewrite R16 "self\.children\.iter\(\)\.map\(\|c\| &c\.root\)\.collect\(\)" => "{ let mut vp_out: Vec<&Block> = Vec::new(); for c in self.children.iter() { vp_out.push(&c.root); } vp_out }"
//@ spec
//@| ensures deref_seq(r@) =~= self.child_roots(),
//@ loop 1 binder=itc
//@| invariant
//@|     vp_out@.len() == itc.index@,
//@|     forall|k: int| 0 <= k < itc.index@ ==> *(#[trigger] vp_out@[k]) == self.children@[k].root,
//@end

//@extract file=canister/src/blocktree.rs in="impl<Block: ChainBlock> BlockTree<Block>" item="fn get_chain_with_tip_reverse" props=C01,C06
//@ ret res
//@ spec
//@| ensures
//@|     res.is_some() <==> self.contains(*tip),
//@|     res matches Some(p) ==> rev_refs(p.0@) =~= self.path_blocks(self.idx_path_to(*tip))
//@|         && deref_seq(p.1@) =~= self.subtree_at(self.idx_path_to(*tip)).child_roots()
//@|         && self.subtree_at(self.idx_path_to(*tip)).root.shash() == *tip
//@|         && p.0@.len() >= 1,
//@| decreases self,
//@ loop 1 binder=it
//@| invariant
//@|     forall|i: int| 0 <= i < it.index@ ==> !(#[trigger] self.children@[i]).contains(*tip),
//@|     self.root.shash() != *tip,
//@ before "chain.push(&self.root);"
//@| proof {
//@|     Self::lemma_first_child_with(self.children@, *tip, self.children@.len() as int);
//@|     let ghost k = it.index@;
//@|     assert(self.idx_path_to(*tip) =~= seq![k] + self.children@[k].idx_path_to(*tip));
//@|     assert(self.idx_path_to(*tip).skip(1) =~= self.children@[k].idx_path_to(*tip));
//@| }
//@end

//@extract file=canister/src/blocktree.rs in="impl<Block: ChainBlock> BlockTree<Block>" item="fn find" props=C10
//@ ret res
//@ spec
//@| ensures
//@|     res.is_some() <==> self.contains(*block_hash),
//@|     res matches Some(t) ==> t.root.shash() == *block_hash,
//@| decreases self,
//@ loop 1 binder=it
//@| invariant
//@|     forall|i: int| 0 <= i < it.index@ ==> !(#[trigger] self.children@[i]).contains(*block_hash),
//@|     self.root.shash() != *block_hash,
//@end

//@extract file=canister/src/blocktree.rs in="impl<Block: ChainBlock> BlockTree<Block>" item="fn collect_hashes" props=C13
//@ spec
//@| ensures final(hashes)@ =~= old(hashes)@ + self.preorder(),
//@| decreases self,
//@ loop 1 binder=it
//@| invariant
//@|     hashes@ =~= old(hashes)@ + seq![self.root.shash()] + Self::preorder_children(self.children@, it.index@),
//@end

//@extract file=canister/src/blocktree.rs in="impl<Block: ChainBlock> BlockTree<Block>" item="fn get_hashes" props=C13
//@ ret r
//@ spec
//@| ensures r@ =~= self.preorder(), r@.len() >= 1, r@[0] == self.root.shash(),
//@end

    proof fn lemma_best_path_len(&self)
        ensures self.best_path().len() == self.best_key().1,
        decreases self,
    {
        let cs = self.children@;
        let n = cs.len() as int;
        Self::lemma_best_child_bounds(cs, n);
        if n > 0 {
            let bi = Self::best_child_idx(cs, n);
            cs[bi].lemma_best_path_len();
        }
    }
}

// lexicographic order on child-index paths: a is not after b in depth-first child order
spec fn lex_le(a: Seq<int>, b: Seq<int>) -> bool
    decreases a.len(),
{
    if a.len() == 0 { true }
    else if b.len() == 0 { false }
    else if a[0] < b[0] { true }
    else if a[0] > b[0] { false }
    else { lex_le(a.skip(1), b.skip(1)) }
}


// the closure of BlockTree::get_chain_with_tip (blocktree.rs:434) that turns the reversed vector into a BlockChain
//@slice file=canister/src/blocktree.rs in="impl<Block: ChainBlock> BlockTree<Block>" item="fn get_chain_with_tip" block_after=".map(|(mut chain, tip_successors)| {" props=C01,C06
//@ head
//@| // R8 slice: body of the closure passed to Option::map in get_chain_with_tip
//@| fn get_chain_with_tip_closure<'a, Block>(mut chain: Vec<&'a Block>, tip_successors: Vec<&'a Block>) -> (r: (BlockChain<'a, Block>, Vec<&'a Block>))
//@|     requires chain@.len() >= 1,
//@|     ensures
//@|         // the chain handed to the page walk is the branch from the anchor to the named tip, anchor first
//@|         r.0@ =~= rev_refs(chain@),
//@|         r.1@ == tip_successors@,
//@end

// BlockTree::get_chain_with_tip as a whole (blocktree.rs:427): R9 annotates the closure handed to Option::map (its tuple pattern
// becomes a `let`), so that the composition reverse-helper + closure is proved, not assumed
impl<Block: ChainBlock> BlockTree<Block> {
//@extract file=canister/src/blocktree.rs in="impl<Block: ChainBlock> BlockTree<Block>" item="fn get_chain_with_tip" props=C01,C06,C10
//@ ret res
//@ rewrite R9 "\.map\(\|\(mut chain, tip_successors\)\| \{" => ".map(|vp_p: (Vec<&'a Block>, Vec<&'a Block>)| -> (vp_r: (BlockChain<'a, Block>, Vec<&'a Block>)) requires vp_p.0@.len() >= 1, ensures vp_r.0@ =~= rev_refs(vp_p.0@), vp_r.1@ == vp_p.1@, { let (mut chain, tip_successors) = vp_p;"
//@ spec
//@| ensures
//@|     res.is_some() <==> self.contains(*tip),
//@|     res matches Some(p) ==> p.0@ =~= self.path_blocks(self.idx_path_to(*tip))
//@|         && deref_seq(p.1@) =~= self.subtree_at(self.idx_path_to(*tip)).child_roots()
//@|         && self.subtree_at(self.idx_path_to(*tip)).root.shash() == *tip,
//@end
}
