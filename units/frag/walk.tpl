// fragment: canister/src/api/get_utxos.rs (stability count, bound check, prefix walk), get_balance.rs (walk) — C04 C05 C02 C06

impl<'a, Block> BlockChain<'a, Block> {
// BlockChain::into_chain (blocktree.rs:126). R20: `v.extend(w)` with a Vec `w` => `let mut vp_w = w; v.append(&mut vp_w)` (Vec::extend
// with a generic IntoIterator has no vstd specification; for a Vec source it appends its elements in order)
//@extract file=canister/src/blocktree.rs in="impl<'a, Block> BlockChain<'a, Block>" item="fn into_chain" props=C02,C04,C05,C07
//@ ret r
//@ rewrite R20 "chain\.extend\(self\.successors\);" => "let mut vp_successors = self.successors;\n        chain.append(&mut vp_successors);"
//@ spec
//@| ensures deref_seq(r@) =~= self@,
//@end
}

// the per-height rows of the unstable tree (proved in fragment rows.tpl to be what block_hashes_with_depths_by_heights returns)
spec fn rows_spec(t: &BlockTree<CachedBlock>) -> Seq<Seq<(BlockHash, u32)>> { t.contrib(0) }
impl UnstableBlocks {
//@extract file=canister/src/unstable_blocks.rs in="impl UnstableBlocks" item="fn block_hashes_with_depths_by_heights" props=C04,C05
//@ ret r
//@ spec
//@| requires self.tree.wf_depth(),
//@| ensures
//@|     rows_view(r@) =~= rows_spec(&self.tree),
//@|     r@.len() == rows_spec(&self.tree).len(),
//@|     r@.len() == self.tree.sdepth(),
//@|     forall|i: int| 0 <= i < r@.len() ==> row_view((#[trigger] r@[i])@) =~= rows_spec(&self.tree)[i],
//@ before "self.tree.block_hashes_with_depths_by_heights()"
//@| proof { self.tree.lemma_contrib_len(0); self.tree.lemma_depth_pos(); }
//@end
}

// ---- C04: stability count, written from the statement -----------------------------------------------------------
// depth of `target` in the row (0 if absent; the last entry wins if it occurs twice)
spec fn row_target_depth(row: Seq<(BlockHash, u32)>, target: BlockHash, n: int) -> int
    decreases n,
{
    if n <= 0 || n > row.len() { 0 }
    else if row[n - 1].0 == target { row[n - 1].1 as int }
    else { row_target_depth(row, target, n - 1) }
}
// greatest depth among the competing blocks of the row (0 if none)
spec fn row_max_other(row: Seq<(BlockHash, u32)>, target: BlockHash, n: int) -> int
    decreases n,
{
    if n <= 0 || n > row.len() { 0 }
    else {
        let p = row_max_other(row, target, n - 1);
        if row[n - 1].0 != target && row[n - 1].1 > p { row[n - 1].1 as int } else { p }
    }
}
// how deeply the block is buried on its longest descendant chain, minus the deepest competing block at the same height
spec fn stability_count_spec(row: Seq<(BlockHash, u32)>, target: BlockHash) -> int {
    row_target_depth(row, target, row.len() as int) - row_max_other(row, target, row.len() as int)
}
proof fn lemma_row_bounds(row: Seq<(BlockHash, u32)>, target: BlockHash, n: int)
    requires 0 <= n <= row.len(), forall|i: int| 0 <= i < row.len() ==> (#[trigger] row[i]).1 < 0x8000_0000,
    ensures 0 <= row_target_depth(row, target, n) < 0x8000_0000, 0 <= row_max_other(row, target, n) < 0x8000_0000,
    decreases n,
{
    if n > 0 { lemma_row_bounds(row, target, n - 1); }
}

//@extract file=canister/src/api/get_utxos.rs item="fn get_stability_count" props=C04
//@ ret r
//@ rewrite R4 "for &\(block_hash, depth\) in blocks_with_depths_on_the_same_height\.iter\(\) \{" => "for vp_entry in it: blocks_with_depths_on_the_same_height.iter() { let (block_hash, depth) = *vp_entry;"
//@ spec
//@| requires
//@|     // [assumption, stated] depths < 2^31 (the repo casts them to i32)
//@|     forall|i: int| 0 <= i < blocks_with_depths_on_the_same_height@.len() ==> (#[trigger] blocks_with_depths_on_the_same_height@[i]).1 < 0x8000_0000,
//@| ensures
//@|     r == stability_count_spec(row_view(blocks_with_depths_on_the_same_height@), *target_block),
//@ loop 1
//@| invariant
//@|     forall|i: int| 0 <= i < blocks_with_depths_on_the_same_height@.len() ==> (#[trigger] blocks_with_depths_on_the_same_height@[i]).1 < 0x8000_0000,
//@|     max_depth_of_the_other_blocks == row_max_other(row_view(blocks_with_depths_on_the_same_height@), *target_block, it.index@),
//@|     target_block_depth == row_target_depth(row_view(blocks_with_depths_on_the_same_height@), *target_block, it.index@),
//@ before "target_block_depth as i32 - max_depth_of_the_other_blocks as i32"
//@| proof { lemma_row_bounds(row_view(blocks_with_depths_on_the_same_height@), *target_block, blocks_with_depths_on_the_same_height@.len() as int); }
//@end

// [trusted:stand-in] AddressUtxoSet as seen by the walk: only the sequence of blocks applied so far is tracked (apply_block itself is verified below)
struct AddressUtxoSetLog { applied: Ghost<Seq<BlockHash>>, address: Ghost<Address>, opaque: u64 }
impl AddressUtxoSetLog {
    // [trusted:assumed-contract] AddressUtxoSet::apply_block records the block's per-address delta (entry-API OutPointsCache + BTreeSets)
    #[verifier::external_body]
    fn apply_block(&mut self, block_hash: &BlockHash)
        ensures final(self).applied@ == old(self).applied@.push(*block_hash), final(self).address@ == old(self).address@,
    { unimplemented!() }
}
//@extract file=interface/src/lib.rs item="enum GetUtxosError" rename_type=GetUtxosErrorFull
//@ rewrite R2? "#\[derive\(([^\]]*)\)\]" => ""
//@ rewrite R3 "enum GetUtxosError" => "enum GetUtxosErrorFull"
//@ rewrite R3 "tip_block_hash: BlockHash" => "tip_block_hash: Vec<u8>"
//@end

// ---- C04: the cut, written from the statement -----------------------------------------------------------------------
spec fn chain_hashes(c: Seq<CachedBlock>) -> Seq<BlockHash> { Seq::new(c.len(), |i: int| c[i].block_hash) }
// stability count of the i-th block of the served chain
spec fn count_at(rows: Seq<Seq<(BlockHash, u32)>>, chain: Seq<CachedBlock>, i: int) -> int {
    stability_count_spec(rows[i], chain[i].block_hash)
}
// number of leading blocks of the chain that (together with all their ancestors) have stability count >= c;
// without a confirmation filter (c = 0) the whole chain
spec fn cut_len(rows: Seq<Seq<(BlockHash, u32)>>, chain: Seq<CachedBlock>, c: int, n: int) -> int
    decreases n,
{
    if n <= 0 || n > chain.len() { 0 }
    else {
        let k = cut_len(rows, chain, c, n - 1);
        if k == n - 1 && (c <= 0 || count_at(rows, chain, n - 1) >= c) { n } else { k }
    }
}

// the upper bound check (get_utxos.rs:209)


proof fn lemma_cut_stuck(rows: Seq<Seq<(BlockHash, u32)>>, chain: Seq<CachedBlock>, c: int, i: int, n: int)
    requires 0 <= i < n <= chain.len(), cut_len(rows, chain, c, i) == i, c > 0, count_at(rows, chain, i) < c,
    ensures cut_len(rows, chain, c, n) == i,
    decreases n,
{
    if n > i + 1 { lemma_cut_stuck(rows, chain, c, i, n - 1); }
}

// the prefix walk (get_utxos.rs:218-236)


// what each iteration of either walk needs about row i and block i (kept out of the loop bodies so that the proof
// does not depend on how the body is written)
proof fn lemma_walk_step(state: &State, rows_exec: Seq<Vec<(&BlockHash, u32)>>, rows: Seq<Seq<(BlockHash, u32)>>, chain_exec: Seq<&CachedBlock>, chain: Seq<CachedBlock>, i: int)
    requires
        0 <= i < chain.len(), chain.len() <= rows_exec.len(), rows.len() == rows_exec.len(),
        deref_seq(chain_exec) =~= chain,
        forall|k: int| 0 <= k < rows_exec.len() ==> row_view((#[trigger] rows_exec[k])@) =~= rows[k],
        rows_small(rows),
    ensures
        row_view(rows_exec[i]@) =~= rows[i],
        forall|j: int| 0 <= j < rows_exec[i]@.len() ==> (#[trigger] rows_exec[i]@[j]).1 < 0x8000_0000,
        *chain_exec[i] == chain[i],
{
    let row = rows_exec[i]@;
    assert(row_view(row) =~= rows[i]);
    assert forall|j: int| 0 <= j < row.len() implies (#[trigger] row[j]).1 < 0x8000_0000 by {
        assert(row_view(row)[j] == rows[i][j]);
    }
    assert(*chain_exec[i] == deref_seq(chain_exec)[i]);
}

spec fn rows_small(rows: Seq<Seq<(BlockHash, u32)>>) -> bool {
    forall|h: int, j: int| 0 <= h < rows.len() && 0 <= j < rows[h].len() ==> (#[trigger] rows[h][j]).1 < 0x8000_0000
}
// C04: what the walk must leave behind
spec fn walk_result(state: &State, chain: Seq<CachedBlock>, c: int, applied: Seq<BlockHash>, tip_hash: BlockHash, tip_height: u32) -> bool {
    let k = cut_len(rows_spec(&state.unstable_blocks.tree), chain, c, chain.len() as int);
    // exactly the first k blocks are applied, in order, and no other
    &&& applied =~= chain_hashes(chain).subrange(0, k)
    // the tip named is the last block applied (the anchor if none), at the height of that block
    &&& tip_hash == (if k == 0 { chain[0].block_hash } else { chain[k - 1].block_hash })
    &&& tip_height == (if k == 0 { state.utxos.next_height as int } else { state.utxos.next_height + k - 1 })
}

//@lemma fn=lemma_cut_fork_free props=C04
// C04 corollary: on a fork-free chain of L unstable blocks (row i holds only the chain's block, buried under L-i blocks)
// the cut is after block L-c, i.e. the tip is at height (stable + L - 1) - c + 1: "tip at H-c+1"
proof fn lemma_cut_fork_free(rows: Seq<Seq<(BlockHash, u32)>>, chain: Seq<CachedBlock>, c: int, n: int)
    requires
        rows.len() == chain.len(), 0 <= n <= chain.len(), 0 <= c <= chain.len(), chain.len() < 0x8000_0000,
        forall|i: int| 0 <= i < chain.len() ==> (#[trigger] rows[i]) =~= seq![(chain[i].block_hash, (chain.len() - i) as u32)],
    ensures
        cut_len(rows, chain, c, n) == (if c == 0 || n <= chain.len() - c + 1 { n } else { chain.len() - c + 1 }),
    decreases n,
{
    if n > 0 {
        lemma_cut_fork_free(rows, chain, c, n - 1);
        let row = rows[n - 1];
        let t = chain[n - 1].block_hash;
        assert(row.len() == 1);
        assert(row_target_depth(row, t, 1) == chain.len() - (n - 1)) by { assert(row_target_depth(row, t, 0) == 0); }
        assert(row_max_other(row, t, 1) == 0) by { assert(row_max_other(row, t, 0) == 0); }
        assert(count_at(rows, chain, n - 1) == chain.len() - (n - 1));
    }
}

//@lemma fn=lemma_unfiltered_walk_serves_the_tip props=C02
// C02 "unfiltered bitcoin_get_utxos is answered with respect to that same tip": with no confirmation filter (c = 0) the
// walk applies the WHOLE served chain, whatever the stability counts are (they are negative where a lighter but longer
// fork competes).
proof fn lemma_unfiltered_walk_serves_the_tip(rows: Seq<Seq<(BlockHash, u32)>>, chain: Seq<CachedBlock>, n: int)
    requires 0 <= n <= chain.len(),
    ensures cut_len(rows, chain, 0, n) == n,
    decreases n,
{
    if n > 0 { lemma_unfiltered_walk_serves_the_tip(rows, chain, n - 1); }
}

// ---- C05: the walk of get_balance (get_balance.rs) -------------------------------------------------------------------
// [trusted:stand-in] Address / OutPoint / TxOut as far as the balance walk reads them
#[derive(PartialEq, Eq, PartialOrd, Ord, Clone, Copy, Structural)]
struct Address { id: u64 }
#[derive(PartialEq, Eq, PartialOrd, Ord, Clone, Copy, Structural)]
struct OutPoint { id: u64 }
struct TxOut { value: u64 }
// per-block, per-address outpoints of unstable blocks and the cached tx outs (OutPointsCache, entry-API maps): uninterpreted
uninterp spec fn added_spec(ub: &UnstableBlocks, h: BlockHash, a: Address) -> Seq<OutPoint>;
uninterp spec fn removed_spec(ub: &UnstableBlocks, h: BlockHash, a: Address) -> Seq<OutPoint>;
uninterp spec fn value_spec(ub: &UnstableBlocks, o: OutPoint) -> u64;
uninterp spec fn height_spec(ub: &UnstableBlocks, o: OutPoint) -> Height;
impl UnstableBlocks {
    // [trusted:assumed-contract] get_added_outpoints / get_removed_outpoints / get_tx_out (unstable_blocks.rs:139-153): lookups in
    // the OutPointsCache (entry-API maps): functions of the cache. That every LISTED outpoint has a cached tx out is the cache's
    // representation invariant `cache_lists_have_tx_outs` (C20 territory): a stated precondition of the walks, not a property of the lookup
    #[verifier::external_body]
    fn get_added_outpoints(&self, block_hash: &BlockHash, address: &Address) -> (r: &[OutPoint])
        ensures r@ == added_spec(self, *block_hash, *address),
    { unimplemented!() }
    #[verifier::external_body]
    fn get_removed_outpoints(&self, block_hash: &BlockHash, address: &Address) -> (r: &[OutPoint])
        ensures r@ == removed_spec(self, *block_hash, *address),
    { unimplemented!() }
    #[verifier::external_body]
    fn get_tx_out(&self, outpoint: &OutPoint) -> (r: Option<(&TxOut, Height)>)
        ensures
            r.is_some() == has_tx_out(self, *outpoint),
            r matches Some(p) ==> p.0.value == value_spec(self, *outpoint) && p.1 == height_spec(self, *outpoint),
    { unimplemented!() }
}
uninterp spec fn has_tx_out(ub: &UnstableBlocks, o: OutPoint) -> bool;
// [assumption, stated as precondition] the outpoints the cache lists for a block and an address have their TxOut in the cache
spec fn cache_lists_have_tx_outs(ub: &UnstableBlocks) -> bool {
    &&& forall|h: BlockHash, a: Address, i: int| 0 <= i < added_spec(ub, h, a).len() ==> has_tx_out(ub, #[trigger] added_spec(ub, h, a)[i])
    &&& forall|h: BlockHash, a: Address, i: int| 0 <= i < removed_spec(ub, h, a).len() ==> has_tx_out(ub, #[trigger] removed_spec(ub, h, a)[i])
}
spec fn sum_values(ub: &UnstableBlocks, s: Seq<OutPoint>, n: int) -> int
    decreases n,
{
    if n <= 0 || n > s.len() { 0 } else { sum_values(ub, s, n - 1) + value_spec(ub, s[n - 1]) }
}
// balance after the first k blocks of the chain have been applied to the stable balance b0
spec fn balance_after(ub: &UnstableBlocks, a: Address, chain: Seq<CachedBlock>, b0: int, k: int) -> int
    decreases k,
{
    if k <= 0 || k > chain.len() { b0 } else {
        let h = chain[k - 1].block_hash;
        balance_after(ub, a, chain, b0, k - 1)
            + sum_values(ub, added_spec(ub, h, a), added_spec(ub, h, a).len() as int)
            - sum_values(ub, removed_spec(ub, h, a), removed_spec(ub, h, a).len() as int)
    }
}
// running balance inside block k: after ja of its added outpoints / after all added and jr of its removed outpoints
spec fn bal_mid_add(ub: &UnstableBlocks, a: Address, chain: Seq<CachedBlock>, b0: int, k: int, ja: int) -> int {
    balance_after(ub, a, chain, b0, k) + sum_values(ub, added_spec(ub, chain[k].block_hash, a), ja)
}
spec fn bal_mid_rem(ub: &UnstableBlocks, a: Address, chain: Seq<CachedBlock>, b0: int, k: int, jr: int) -> int {
    balance_after(ub, a, chain, b0, k)
        + sum_values(ub, added_spec(ub, chain[k].block_hash, a), added_spec(ub, chain[k].block_hash, a).len() as int)
        - sum_values(ub, removed_spec(ub, chain[k].block_hash, a), jr)
}
// [assumption, stated] running balances stay within u64 (sum of all satoshi <= 21e14) and never go negative
// (an address never spends more than it holds on its own chain)
spec fn balances_in_range(ub: &UnstableBlocks, a: Address, chain: Seq<CachedBlock>, b0: int) -> bool {
    &&& forall|k: int, ja: int| 0 <= k < chain.len() && 0 <= ja <= added_spec(ub, chain[k].block_hash, a).len()
            ==> 0 <= #[trigger] bal_mid_add(ub, a, chain, b0, k, ja) <= u64::MAX
    &&& forall|k: int, jr: int| 0 <= k < chain.len() && 0 <= jr <= removed_spec(ub, chain[k].block_hash, a).len()
            ==> 0 <= #[trigger] bal_mid_rem(ub, a, chain, b0, k, jr) <= u64::MAX
}



// ---- C06: Page::from_bytes refuses every blob whose length is not 72 before touching it (types.rs:65) ---------------------
//@extract file=canister/src/types.rs item="const EXPECTED_PAGE_LENGTH" props=C06
//@end
//@slice file=canister/src/types.rs in="impl Page" item="fn from_bytes" to_before="let height_offset = 32;" props=C06
//@ head
//@| // R8 slice: the length guard at the top of Page::from_bytes (the decoding of a 72-byte page is proved by Kani)
//@| fn page_from_bytes_length_guard(bytes: Vec<u8>) -> (r: Result<(), String>)
//@|     ensures
//@|         // any byte string of another length yields an error, never a trap
//@|         r.is_err() <==> bytes@.len() != 72,
//@ tail
//@| Ok(())
//@end


// ---- C01: AddressUtxoSet::apply_block (address_utxoset.rs:47) on the real body --------------------------------------------
// [trusted:stand-in] types::Utxo as an ordered key (its real order is checked by Kani: c01_utxo_cmp_order); Satoshi = u64
#[derive(PartialEq, Eq, PartialOrd, Ord, Clone, Copy, Structural)]
struct Utxo { height: u32, outpoint: OutPoint, value: u64 }
//@extract file=canister/src/address_utxoset.rs item="struct AddressUtxoSet"
//@end
// [trusted:axioms] the derived / hand-written Ord of OutPoint and Utxo are lawful total orders (what BTreeSet's specification asks of a key type)
#[verifier::external_body]
proof fn axiom_keys_obey_cmp_spec()
    ensures vstd::laws_cmp::obeys_cmp_spec::<OutPoint>(), vstd::laws_cmp::obeys_cmp_spec::<Utxo>(),
{}
// the UTXOs a block adds for an address: (outpoint, cached value, cached height)
spec fn added_utxo_at(ub: &UnstableBlocks, s: Seq<OutPoint>, i: int) -> Utxo {
    Utxo { outpoint: s[i], value: value_spec(ub, s[i]), height: height_spec(ub, s[i]) }
}
impl<'a> AddressUtxoSet<'a> {
//@extract file=canister/src/address_utxoset.rs in="impl<'a> AddressUtxoSet<'a>" item="fn apply_block" props=C01,C05
//@ rewrite R10 "\.unwrap_or_else\(\|\| \{\s*vp_trap\(\);\s*\}\)" => ".unwrap()"
//@ spec
//@| requires cache_lists_have_tx_outs(old(self).unstable_blocks),
//@| ensures
//@|     // exactly the block's removed outpoints are added to the removed set ...
//@|     forall|o: OutPoint| final(self).removed_outpoints@.contains(o) <==>
//@|         (old(self).removed_outpoints@.contains(o) || removed_spec(old(self).unstable_blocks, *block_hash, old(self).address).contains(o)),
//@|     // ... and exactly its added outpoints, with their cached value and height, to the added set
//@|     forall|u: Utxo| final(self).added_utxos@.contains(u) <==>
//@|         (old(self).added_utxos@.contains(u) || exists|i: int| 0 <= i < added_spec(old(self).unstable_blocks, *block_hash, old(self).address).len()
//@|             && u == added_utxo_at(old(self).unstable_blocks, added_spec(old(self).unstable_blocks, *block_hash, old(self).address), i)),
//@|     final(self).address == old(self).address && final(self).unstable_blocks == old(self).unstable_blocks,
//@ after "self.removed_outpoints.insert(outpoint.clone());"
//@| proof {
//@|     axiom_keys_obey_cmp_spec();
//@|     let sq = removed_spec(old(self).unstable_blocks, *block_hash, old(self).address);
//@|     let k = itr.index@;
//@|     assert(*outpoint == sq[k]);
//@|     assert forall|o: OutPoint| self.removed_outpoints@.contains(o) <==>
//@|         (old(self).removed_outpoints@.contains(o) || exists|i: int| 0 <= i < k + 1 && sq[i] == o) by {
//@|         if o == sq[k] { assert(0 <= k < k + 1 && sq[k] == o); }
//@|         if exists|i: int| 0 <= i < k + 1 && sq[i] == o {
//@|             let i = choose|i: int| 0 <= i < k + 1 && sq[i] == o;
//@|             if i < k { assert(0 <= i < k && sq[i] == o); }
//@|         }
//@|     }
//@| }
//@ before "let (txout, height) = self"
//@| proof {
//@|     let sq0 = added_spec(old(self).unstable_blocks, *block_hash, old(self).address);
//@|     assert(*outpoint == sq0[ita.index@]);
//@|     assert(has_tx_out(old(self).unstable_blocks, sq0[ita.index@]));
//@| }
//@ after "self.added_utxos.insert(Utxo {"
//@| proof {
//@|     axiom_keys_obey_cmp_spec();
//@|     let sq = added_spec(old(self).unstable_blocks, *block_hash, old(self).address);
//@|     let k = ita.index@;
//@|     assert(*outpoint == sq[k]);
//@|     let nu = added_utxo_at(old(self).unstable_blocks, sq, k);
//@|     assert forall|u: Utxo| self.added_utxos@.contains(u) <==>
//@|         (old(self).added_utxos@.contains(u) || exists|i: int| 0 <= i < k + 1 && u == added_utxo_at(old(self).unstable_blocks, sq, i)) by {
//@|         if u == nu { assert(0 <= k < k + 1 && u == added_utxo_at(old(self).unstable_blocks, sq, k)); }
//@|         if exists|i: int| 0 <= i < k + 1 && u == added_utxo_at(old(self).unstable_blocks, sq, i) {
//@|             let i = choose|i: int| 0 <= i < k + 1 && u == added_utxo_at(old(self).unstable_blocks, sq, i);
//@|             if i < k { assert(0 <= i < k && u == added_utxo_at(old(self).unstable_blocks, sq, i)); }
//@|         }
//@|     }
//@| }
//@ loop 1 binder=itr
//@| invariant
//@|     self.address == old(self).address && self.unstable_blocks == old(self).unstable_blocks && self.added_utxos@ == old(self).added_utxos@,
//@|     forall|o: OutPoint| self.removed_outpoints@.contains(o) <==>
//@|         (old(self).removed_outpoints@.contains(o) || exists|i: int| 0 <= i < itr.index@ && removed_spec(old(self).unstable_blocks, *block_hash, old(self).address)[i] == o),
//@ loop 2 binder=ita
//@| invariant
//@|     self.address == old(self).address && self.unstable_blocks == old(self).unstable_blocks,
//@|     cache_lists_have_tx_outs(old(self).unstable_blocks),
//@|     forall|o: OutPoint| self.removed_outpoints@.contains(o) <==>
//@|         (old(self).removed_outpoints@.contains(o) || removed_spec(old(self).unstable_blocks, *block_hash, old(self).address).contains(o)),
//@|     forall|u: Utxo| self.added_utxos@.contains(u) <==>
//@|         (old(self).added_utxos@.contains(u) || exists|i: int| 0 <= i < ita.index@
//@|             && u == added_utxo_at(old(self).unstable_blocks, added_spec(old(self).unstable_blocks, *block_hash, old(self).address), i)),
//@end
}

// ---- C01 / C06: the offset filter of the unstable source in AddressUtxoSet::into_iter (address_utxoset.rs:117) -------------
// [trusted:axioms] Utxo's hand-written PartialOrd is total (partial_cmp = Some(cmp), types.rs:598)
#[verifier::external_body]
proof fn axiom_utxo_order_total()
    ensures
        <Utxo as vstd::std_specs::cmp::PartialOrdSpec>::obeys_partial_cmp_spec(),
        forall|a: Utxo, b: Utxo| #[trigger] vstd::std_specs::cmp::PartialOrdSpec::partial_cmp_spec(&a, &b) is Some,
{}
//@slice file=canister/src/address_utxoset.rs in="impl<'a> AddressUtxoSet<'a>" item="fn into_iter" block_after=".filter(move |utxo| match &offset {" props=C01,C06,C05
//@ head
//@| // R8 slice: the body of the closure that resumes the unstable source at a page offset
//@| fn into_iter_offset_filter(utxo: &Utxo, offset: Option<Utxo>) -> (r: bool)
//@|     ensures
//@|         // an unstable UTXO is skipped iff it lies strictly before the offset in Utxo order: the element the page token
//@|         // names (the first one omitted from the previous page) is served again, nothing at or after it is lost
//@|         !r <==> (offset matches Some(o) && vstd::std_specs::cmp::PartialOrdSpec::partial_cmp_spec(utxo, &o) == Some(core::cmp::Ordering::Less)),
//@| {
//@|     proof { axiom_utxo_order_total(); }
//@|     match &offset
//@ tail
//@| }
//@end

// ---- C06: the page cut of get_utxos_from_chain (get_utxos.rs:243-275) ------------------------------------------------------
// [trusted:stand-in] the public UTXO representation (ic_btc_interface::Utxo / OutPoint / Txid), the internal Txid and the page
// token: Page::to_bytes is an uninterpreted injective-by-Kani encoding (c06_page_* harnesses) of (tip, height, outpoint)
#[derive(Clone, Copy)]
struct PublicTxid { id: u64 }
struct PublicOutPoint { txid: PublicTxid, vout: u32 }
struct PublicUtxo { outpoint: PublicOutPoint, value: u64, height: u32 }
struct Txid { id: u64 }
uninterp spec fn txid_of(t: PublicTxid) -> Txid;
uninterp spec fn outpoint_new_spec(t: Txid, vout: u32) -> OutPoint;
impl Txid {
    #[verifier::external_body]
    fn from(t: PublicTxid) -> (r: Txid) ensures r == txid_of(t) { unimplemented!() }
}
impl OutPoint {
    #[verifier::external_body]
    fn new(txid: Txid, vout: u32) -> (r: OutPoint) ensures r == outpoint_new_spec(txid, vout) { unimplemented!() }
}
struct Page { tip_block_hash: BlockHash, height: u32, outpoint: OutPoint }
uninterp spec fn page_bytes_spec(tip: BlockHash, height: u32, outpoint: OutPoint) -> Seq<u8>;
impl Page {
    #[verifier::external_body]
    fn to_bytes(&self) -> (r: Vec<u8>) ensures r@ == page_bytes_spec(self.tip_block_hash, self.height, self.outpoint) { unimplemented!() }
}



// ---- C06: get_utxos_internal (get_utxos.rs:122): which chain and which offset a page request is answered from ------------
// [trusted:stand-in] the response / statistics types (opaque), Page::from_bytes as a function of the bytes (its totality and its
// inverse are the Kani harnesses c06_page_* and the length-guard slice above), get_utxos_from_chain as an opaque function of
// its arguments (its pieces are the slices above)
struct ByteBuf { bytes: Vec<u8> }
struct GetUtxosResponseFull { utxos: Vec<PublicUtxo>, tip_block_hash: Vec<u8>, tip_height: u32, next_page: Option<ByteBuf> }
//@extract file=canister/src/api/get_utxos.rs item="struct Stats"
//@ rewrite R2? "#\[derive\(([^\]]*)\)\]" => ""
//@end
impl Stats {
    // [trusted:stand-in] #[derive(Default)] on Stats: all counters zero
    fn default() -> (r: Stats) { Stats { ins_total: 0, ins_apply_unstable_blocks: 0, ins_build_utxos_vec: 0 } }
}
uninterp spec fn page_decode_spec(bytes: Seq<u8>) -> Option<Page>;
impl Page {
    #[verifier::external_body]
    fn from_bytes(bytes: Vec<u8>) -> (r: Result<Page, String>)
        ensures r.is_ok() <==> page_decode_spec(bytes@).is_some(), r matches Ok(p) ==> page_decode_spec(bytes@) == Some(p),
    { unimplemented!() }
}
uninterp spec fn from_chain_spec(state: &State, address: &str, min_confirmations: u32, chain: Seq<CachedBlock>, offset: Option<Utxo>, utxo_limit: usize)
    -> Result<(GetUtxosResponseFull, Stats), GetUtxosErrorFull>;
#[verifier::external_body]
fn get_utxos_from_chain(state: &State, address: &str, min_confirmations: u32, chain: BlockChain<CachedBlock>, offset: Option<Utxo>, utxo_limit: usize)
    -> (r: Result<(GetUtxosResponseFull, Stats), GetUtxosErrorFull>)
    ensures r == from_chain_spec(state, address, min_confirmations, chain@, offset, utxo_limit),
{ unimplemented!() }
//@extract file=canister/src/api/get_utxos.rs item="fn get_utxos_internal" props=C06,C01,C02,C05
//@ ret r
//@ rewrite R3 "GetUtxosError" => "GetUtxosErrorFull"
//@ sigrewrite R3 "GetUtxosError" => "GetUtxosErrorFull"
//@ sigrewrite R3 "GetUtxosResponse" => "GetUtxosResponseFull"
//@ spec
//@| requires state.unstable_blocks.tree.wf(),
//@| ensures
//@|     match page {
//@|         // first page: the served (best) chain, no offset
//@|         None => r == from_chain_spec(state, address, min_confirmations, state.unstable_blocks.tree.best_path(), None, utxo_limit),
//@|         Some(bytes) => match page_decode_spec(bytes@) {
//@|             // any byte string that is not a page token: an error, never a trap
//@|             None => r.is_err(),
//@|             Some(p) =>
//@|                 // the tip the token names is no longer in the tree: an explicit error
//@|                 if !state.unstable_blocks.tree.contains(p.tip_block_hash) {
//@|                     (r matches Err(GetUtxosErrorFull::UnknownTipBlockHash { tip_block_hash }) && tip_block_hash@ == p.tip_block_hash.bytes_spec())
//@|                 } else {
//@|                     // otherwise the answer is computed on the branch from the anchor to THAT tip (whatever has been added to the
//@|                     // tree since), resuming at the element the token names
//@|                     r == from_chain_spec(state, address, min_confirmations,
//@|                         state.unstable_blocks.tree.path_blocks(state.unstable_blocks.tree.idx_path_to(p.tip_block_hash)),
//@|                         Some(Utxo { height: p.height, outpoint: p.outpoint, value: 0 }), utxo_limit)
//@|                 },
//@|         },
//@|     },
//@end

// ---- C01 / C04 / C06: get_utxos_from_chain as a WHOLE (get_utxos.rs:192): the slices above composed, so that the glue between
// ---- them (which tip is reported, which limit is used, what the token is built from) is proved too ---------------------------
//@extract file=canister/src/types.rs item="enum AddressParseError"
//@ rewrite R2? "#\[derive\(([^\]]*)\)\]" => ""
//@end
uninterp spec fn address_parse_spec(text: Seq<char>, network: Network) -> Result<Address, AddressParseError>;
impl Address {
    // [trusted:stand-in] Address::from_str_checked (types.rs; rust-bitcoin address parser): a function of the text and the network
    #[verifier::external_body]
    fn from_str_checked(text: &str, network: Network) -> (r: Result<Address, AddressParseError>)
        ensures r == address_parse_spec(text@, network),
    { unimplemented!() }
}
impl State {
    // [trusted:stand-in] State::get_utxos (state.rs:119, AddressUtxoSet::new): an empty overlay for the address
    #[verifier::external_body]
    fn get_utxos(&self, address: Address) -> (r: AddressUtxoSetLog)
        ensures r.applied@.len() == 0, r.address@ == address,
    { unimplemented!() }
}
// the lazy merged stream of the stable index and the overlay (AddressUtxoSet::into_iter + MultiIter + the map to the public
// representation): an uninterpreted function of (address, blocks applied, offset)
uninterp spec fn merged_view_spec(state: &State, address: Address, applied: Seq<BlockHash>, offset: Option<Utxo>) -> Seq<PublicUtxo>;
spec fn seq_take<T>(s: Seq<T>, n: int) -> Seq<T> { if n >= s.len() { s } else { s.subrange(0, n) } }
// [trusted:stand-in] `address_utxos.into_iter(offset).take(n).map(|utxo| PublicUtxo{..}).collect()` (get_utxos.rs:246-262, R9 turns the
// pipeline into this call keeping the argument of take): the first n elements of the merged stream
#[verifier::external_body]
fn vp_collect_page(state: &State, address_utxos: AddressUtxoSetLog, offset: Option<Utxo>, n: usize) -> (r: Vec<PublicUtxo>)
    ensures r@ == seq_take(merged_view_spec(state, address_utxos.address@, address_utxos.applied@, offset), n as int),
{ unimplemented!() }
// [trusted:stand-in] `next_page.map(ByteBuf::from)`
#[verifier::external_body]
fn vp_bytebuf_opt(p: Option<Vec<u8>>) -> (r: Option<ByteBuf>)
    ensures r.is_some() == p.is_some(), r matches Some(b) ==> b.bytes@ == p.unwrap()@,
{ unimplemented!() }

//@extract file=canister/src/api/get_utxos.rs item="fn get_utxos_from_chain" props=C01,C04,C05,C06,C02 rename=get_utxos_from_chain_whole
//@ ret r
//@ sigrewrite R3 "GetUtxosError" => "GetUtxosErrorFull"
//@ sigrewrite R3 "GetUtxosResponse" => "GetUtxosResponseFull"
//@ sigrewrite R3 "chain: BlockChain<CachedBlock>" => "chain: BlockChain<'a, CachedBlock>"
//@ sigrewrite R3 "state: &State" => "state: &'a State"
//@ sigrewrite R3 "fn get_utxos_from_chain\(" => "fn get_utxos_from_chain<'a>("
//@ rewrite R3 "GetUtxosError::" => "GetUtxosErrorFull::"
//@ rewrite R3 "GetUtxosResponse \{" => "GetUtxosResponseFull {"
//@ rewrite R10 "let address = (Address::from_str_checked\(address, state\.network\(\)\))\.map_err\(\|e\| (match e \{.*?\n    \})\)\?;" => "let address = match \1 { Ok(vp_a) => vp_a, Err(e) => return Err(\2) };"
//@ rewrite R4 "for \(i, block\) in chain\.into_chain\(\)\.iter\(\)\.enumerate\(\) \{" => "let vp_chain = chain.into_chain(); let mut vp_n: usize = 0; for block in it: vp_chain.iter() { let i = vp_n; vp_n = vp_n + 1; proof { lemma_walk_step(state, blocks_with_depths_by_heights@, vp_rows, vp_chain@, vp_chain_view, i as int); }"
//@ rewrite R9 "let mut utxos: Vec<_> = address_utxos\s*\.into_iter\(offset\)\s*\.take\((\w+)\)\s*\.map\(\|utxo\| \{.*?\n        \}\)\s*\.collect\(\);" => "let mut utxos: Vec<PublicUtxo> = vp_collect_page(state, address_utxos, offset, \1);"
//@ rewrite R9 "\.map\(\|next\| \{" => ".map(|next: &PublicUtxo| -> (vp_b: Vec<u8>) ensures vp_b@ == page_bytes_spec(*tip_block_hash, next.height, outpoint_new_spec(txid_of(next.outpoint.txid), next.outpoint.vout)) {"
//@ rewrite R9 "next_page\.map\(ByteBuf::from\)" => "vp_bytebuf_opt(next_page)"
//@ spec
//@| requires
//@|     state_ranges(state),
//@|     1 <= chain@.len() <= state.unstable_blocks.tree.sdepth(),
//@|     chain@.len() < 0x8000_0000,
//@|     rows_small(rows_spec(&state.unstable_blocks.tree)),
//@|     utxo_limit < usize::MAX,
//@| ensures
//@|     match address_parse_spec(address@, state.utxos.network) {
//@|         // both kinds of unparsable address are refused with their own error
//@|         Err(AddressParseError::MalformedAddress) => r matches Err(GetUtxosErrorFull::MalformedAddress),
//@|         Err(AddressParseError::WrongNetwork { expected }) => r matches Err(GetUtxosErrorFull::AddressForWrongNetwork { expected: e2 }) && e2 == expected,
//@|         Ok(a) =>
//@|             if chain@.len() < min_confirmations {
//@|                 r matches Err(GetUtxosErrorFull::MinConfirmationsTooLarge { given, max }) && given == min_confirmations && max == chain@.len()
//@|             } else {
//@|                 r matches Ok(p) && ({
//@|                     let k = cut_len(rows_spec(&state.unstable_blocks.tree), chain@, min_confirmations as int, chain@.len() as int);
//@|                     let tip = if k == 0 { chain@[0].block_hash } else { chain@[k - 1].block_hash };
//@|                     let src = merged_view_spec(state, a, chain_hashes(chain@).subrange(0, k), offset);
//@|                     // the tip named is the last block applied, with its height
//@|                     &&& p.0.tip_block_hash@ == tip.bytes_spec()
//@|                     &&& p.0.tip_height == (if k == 0 { state.utxos.next_height as int } else { state.utxos.next_height + k - 1 })
//@|                     // at most `limit` elements: the first ones of the stream as of that tip, in order
//@|                     &&& p.0.utxos@ == seq_take(src, utxo_limit as int)
//@|                     // a next page iff something is left; its token names THIS tip and the first omitted element
//@|                     &&& p.0.next_page.is_some() <==> src.len() > utxo_limit
//@|                     &&& (p.0.next_page matches Some(b) ==> b.bytes@ == page_bytes_spec(tip, src[utxo_limit as int].height,
//@|                             outpoint_new_spec(txid_of(src[utxo_limit as int].outpoint.txid), src[utxo_limit as int].outpoint.vout)))
//@|                 })
//@|             },
//@|     },
//@ before "let ins_start = performance_counter();" nth=1
//@| let ghost vp_chain_view = chain@;
//@| let ghost vp_rows = rows_spec(&state.unstable_blocks.tree);
//@| let ghost vp_c = min_confirmations as int;
//@ loop 1
//@| invariant_except_break
//@|     vp_n == it.index@,
//@|     cut_len(vp_rows, vp_chain_view, vp_c, it.index@) == it.index@,
//@|     address_utxos.applied@ =~= chain_hashes(vp_chain_view).subrange(0, it.index@),
//@|     *tip_block_hash == (if it.index@ == 0 { vp_chain_view[0].block_hash } else { vp_chain_view[it.index@ - 1].block_hash }),
//@|     tip_block_height == (if it.index@ == 0 { state.utxos.next_height as int } else { state.utxos.next_height + it.index@ - 1 }),
//@| invariant
//@|     state_ranges(state),
//@|     it.index@ <= vp_chain@.len(),
//@|     deref_seq(vp_chain@) =~= vp_chain_view,
//@|     vp_rows == rows_spec(&state.unstable_blocks.tree),
//@|     vp_c == min_confirmations as int,
//@|     vp_c <= vp_chain_view.len(),
//@|     vp_chain_view.len() < 0x8000_0000,
//@|     1 <= vp_chain_view.len() <= state.unstable_blocks.tree.sdepth(),
//@|     blocks_with_depths_by_heights@.len() == state.unstable_blocks.tree.sdepth(),
//@|     vp_rows.len() == blocks_with_depths_by_heights@.len(),
//@|     forall|i: int| 0 <= i < blocks_with_depths_by_heights@.len() ==> row_view((#[trigger] blocks_with_depths_by_heights@[i])@) =~= vp_rows[i],
//@|     rows_small(vp_rows),
//@|     address_utxos.address@ == address,
//@| ensures
//@|     walk_result(state, vp_chain_view, vp_c, address_utxos.applied@, *tip_block_hash, tip_block_height),
//@|     address_utxos.address@ == address,
//@ before "tip_block_hash = block.block_hash();"
//@| proof {
//@|     assert(row_view(blocks_with_depths_by_heights@[i as int]@) =~= vp_rows[i as int]);
//@|     assert(vp_c <= 0 || count_at(vp_rows, vp_chain_view, i as int) >= vp_c);
//@| }
//@ before "break;"
//@| proof { lemma_cut_stuck(vp_rows, vp_chain_view, vp_c, i as int, vp_chain_view.len() as int); }
//@end

// ---- C05: get_balance_private up to its metrics (get_balance.rs:37-98): which requests are refused, which chain and which
// ---- confirmation rule the balance is computed with -----------------------------------------------------------------------------
//@extract file=interface/src/lib.rs item="enum GetBalanceError"
//@ rewrite R2? "#\[derive\(([^\]]*)\)\]" => ""
//@ rewrite R3 "enum GetBalanceError" => "enum GetBalanceErrorFull"
//@end
//@extract file=canister/src/api/get_balance.rs item="struct Stats"
//@ rewrite R2? "#\[derive\(([^\]]*)\)\]" => ""
//@ rewrite R3 "struct Stats" => "struct BalanceStats"
//@end
uninterp spec fn stable_balance_spec(utxos: &UtxoSet, a: Address) -> u64;
impl UtxoSet {
    // [trusted:stand-in] UtxoSet::get_balance (stable balance map lookup): a function of the stable set and the address
    #[verifier::external_body]
    fn get_balance(&self, address: &Address) -> (r: u64) ensures r == stable_balance_spec(self, *address) { unimplemented!() }
}
//@slice file=canister/src/api/get_balance.rs item="fn get_balance_private" to_before="// Observe metrics" props=C05,C02
//@ r7 ro="vp_state()" type=State
//@ rewrite R3 "GetBalanceError::" => "GetBalanceErrorFull::"
//@ rewrite R3 "Stats \{" => "BalanceStats {"
//@ rewrite R10 "let address = (Address::from_str_checked\(&request\.address, network\))\.map_err\(\|e\| (match e \{.*?\n    \})\)\?;" => "let address = match \1 { Ok(vp_a) => vp_a, Err(e) => return Err(\2) };"
//@ rewrite R4 "for \(i, block\) in main_chain\.into_chain\(\)\.iter\(\)\.enumerate\(\) \{" => "let vp_chain = main_chain.into_chain(); let mut vp_n: usize = 0; for block in it: vp_chain.iter() { let i = vp_n; vp_n = vp_n + 1; proof { lemma_walk_step(state, blocks_with_depths_by_heights@, vp_rows, vp_chain@, vp_chain_view, i as int); }"
//@ rewrite R4 "for outpoint in state\s*\.unstable_blocks\s*\.get_added_outpoints\(block\.block_hash\(\), &address\)\s*\{" => "for outpoint in ita: state.unstable_blocks.get_added_outpoints(block.block_hash(), &address) {"
//@ rewrite R4 "for outpoint in state\s*\.unstable_blocks\s*\.get_removed_outpoints\(block\.block_hash\(\), &address\)\s*\{" => "for outpoint in itr: state.unstable_blocks.get_removed_outpoints(block.block_hash(), &address) {"
//@ head
//@| // R8 slice: get_balance_private without its trailing metrics / logging. R7: `with_state(|state| { .. return Err(e) .. })?` becomes a
//@| // block, where the closure's `return Err(e)` followed by `?` is the function's `return Err(e)`
//@| fn get_balance_private_core(request: types::GetBalanceRequest) -> (r: Result<u64, GetBalanceErrorFull>)
//@|     requires
//@|         state_ranges(&global_state()),
//@|         global_state().unstable_blocks.tree.best_path().len() < 0x8000_0000,
//@|         rows_small(rows_spec(&global_state().unstable_blocks.tree)),
//@|         cache_lists_have_tx_outs(&global_state().unstable_blocks),
//@|         forall|a: Address| balances_in_range(&global_state().unstable_blocks, a, global_state().unstable_blocks.tree.best_path(), stable_balance_spec(&global_state().utxos, a) as int),
//@|     ensures
//@|         ({
//@|             let s = global_state();
//@|             let c = match request.min_confirmations { Some(c) => c, None => 0u32 };
//@|             let chain = s.unstable_blocks.tree.best_path();
//@|             match address_parse_spec(request.address@, s.utxos.network) {
//@|                 // the same refusals as get_utxos_from_chain: same parser, same network, same bound on c
//@|                 Err(AddressParseError::MalformedAddress) => r matches Err(GetBalanceErrorFull::MalformedAddress),
//@|                 Err(AddressParseError::WrongNetwork { expected }) => r matches Err(GetBalanceErrorFull::AddressForWrongNetwork { expected: e2 }) && e2 == expected,
//@|                 Ok(a) =>
//@|                     if chain.len() < c {
//@|                         r matches Err(GetBalanceErrorFull::MinConfirmationsTooLarge { given, max }) && given == c && max == chain.len()
//@|                     } else {
//@|                         // the stable balance plus the deltas of exactly the blocks get_utxos applies for the same (address, c)
//@|                         r == Ok::<u64, GetBalanceErrorFull>(balance_after(&s.unstable_blocks, a, chain, stable_balance_spec(&s.utxos, a) as int,
//@|                                 cut_len(rows_spec(&s.unstable_blocks.tree), chain, c as int, chain.len() as int)) as u64)
//@|                     },
//@|             }
//@|         }),
//@| {
//@ tail
//@|     Ok(balance)
//@| }
//@ before "let ins_start = performance_counter();"
//@| let ghost vp_chain_view = main_chain@;
//@| let ghost vp_rows = rows_spec(&state.unstable_blocks.tree);
//@| let ghost vp_c = min_confirmations as int;
//@| let ghost vp_ub = &state.unstable_blocks;
//@| let ghost vp_b0 = balance as int;
//@| proof { state.unstable_blocks.tree.lemma_best_path_is_leaf(); lemma_best_path_le_depth(&state.unstable_blocks.tree); }
//@ loop 1
//@| invariant_except_break
//@|     vp_n == it.index@,
//@|     cut_len(vp_rows, vp_chain_view, vp_c, it.index@) == it.index@,
//@|     balance == balance_after(vp_ub, address, vp_chain_view, vp_b0, it.index@),
//@| invariant
//@|     state_ranges(state),
//@|     it.index@ <= vp_chain@.len(),
//@|     deref_seq(vp_chain@) =~= vp_chain_view,
//@|     vp_rows == rows_spec(&state.unstable_blocks.tree),
//@|     vp_ub == &state.unstable_blocks,
//@|     vp_c == min_confirmations as int,
//@|     vp_c <= vp_chain_view.len(),
//@|     vp_chain_view.len() < 0x8000_0000,
//@|     1 <= vp_chain_view.len() <= state.unstable_blocks.tree.sdepth(),
//@|     blocks_with_depths_by_heights@.len() == state.unstable_blocks.tree.sdepth(),
//@|     vp_rows.len() == blocks_with_depths_by_heights@.len(),
//@|     forall|i: int| 0 <= i < blocks_with_depths_by_heights@.len() ==> row_view((#[trigger] blocks_with_depths_by_heights@[i])@) =~= vp_rows[i],
//@|     rows_small(vp_rows),
//@|     balances_in_range(vp_ub, address, vp_chain_view, vp_b0),
//@|     cache_lists_have_tx_outs(vp_ub),
//@| ensures
//@|     balance == balance_after(vp_ub, address, vp_chain_view, vp_b0, cut_len(vp_rows, vp_chain_view, vp_c, vp_chain_view.len() as int)),
//@ loop 2
//@| invariant
//@|     0 <= i < vp_chain_view.len(),
//@|     block.block_hash == vp_chain_view[i as int].block_hash,
//@|     balances_in_range(vp_ub, address, vp_chain_view, vp_b0),
//@|     cache_lists_have_tx_outs(vp_ub),
//@|     vp_ub == &state.unstable_blocks,
//@|     balance == bal_mid_add(vp_ub, address, vp_chain_view, vp_b0, i as int, ita.index@),
//@ loop 3
//@| invariant
//@|     0 <= i < vp_chain_view.len(),
//@|     block.block_hash == vp_chain_view[i as int].block_hash,
//@|     balances_in_range(vp_ub, address, vp_chain_view, vp_b0),
//@|     cache_lists_have_tx_outs(vp_ub),
//@|     vp_ub == &state.unstable_blocks,
//@|     balance == bal_mid_rem(vp_ub, address, vp_chain_view, vp_b0, i as int, itr.index@),
//@ before "break;"
//@| proof { lemma_cut_stuck(vp_rows, vp_chain_view, vp_c, i as int, vp_chain_view.len() as int); }
//@ before "let (txout, _) = state.unstable_blocks.get_tx_out(outpoint).unwrap();" nth=1
//@| proof {
//@|     let ghost sq0 = added_spec(vp_ub, vp_chain_view[i as int].block_hash, address);
//@|     assert(*outpoint == sq0[ita.index@]);
//@|     assert(has_tx_out(vp_ub, sq0[ita.index@]));
//@| }
//@ before "let (txout, _) = state.unstable_blocks.get_tx_out(outpoint).unwrap();" nth=2
//@| proof {
//@|     let ghost sq0 = removed_spec(vp_ub, vp_chain_view[i as int].block_hash, address);
//@|     assert(*outpoint == sq0[itr.index@]);
//@|     assert(has_tx_out(vp_ub, sq0[itr.index@]));
//@| }
//@ before "balance += txout.value;"
//@| proof {
//@|     let ghost sq = added_spec(vp_ub, vp_chain_view[i as int].block_hash, address);
//@|     assert(*outpoint == sq[ita.index@]);
//@|     assert(sum_values(vp_ub, sq, ita.index@ + 1) == sum_values(vp_ub, sq, ita.index@) + value_spec(vp_ub, sq[ita.index@]));
//@|     assert(0 <= bal_mid_add(vp_ub, address, vp_chain_view, vp_b0, i as int, ita.index@ + 1) <= u64::MAX);
//@| }
//@ before "balance -= txout.value;"
//@| proof {
//@|     let ghost sq = removed_spec(vp_ub, vp_chain_view[i as int].block_hash, address);
//@|     assert(*outpoint == sq[itr.index@]);
//@|     assert(sum_values(vp_ub, sq, itr.index@ + 1) == sum_values(vp_ub, sq, itr.index@) + value_spec(vp_ub, sq[itr.index@]));
//@|     assert(0 <= bal_mid_rem(vp_ub, address, vp_chain_view, vp_b0, i as int, itr.index@ + 1) <= u64::MAX);
//@| }
//@end

// ---- C01: "with its true value and the height of the block containing it": the closure of AddressUtxoSet::into_iter that turns a
// ---- stable outpoint into a Utxo (address_utxoset.rs:96) -------------------------------------------------------------------------
uninterp spec fn stable_utxo_spec(u: &UtxoSet, o: OutPoint) -> Option<(TxOut, Height)>;
impl UtxoSet {
    // [trusted:stand-in] UtxoSet::get_utxo (stable map lookup): a function of the stable set and the outpoint
    #[verifier::external_body]
    fn get_utxo(&self, outpoint: &OutPoint) -> (r: Option<(TxOut, Height)>) ensures r == stable_utxo_spec(self, *outpoint) { unimplemented!() }
}
//@slice file=canister/src/address_utxoset.rs in="impl<'a> AddressUtxoSet<'a>" item="fn into_iter" block_after=".map(move |outpoint| {" props=C01,C05
//@ rewrite R10 "\.unwrap_or_else\(\|\| \{\s*vp_trap\(\);\s*\}\)" => ".unwrap()"
//@ head
//@| // R8 slice: the closure that looks a stable outpoint up in the stable UTXO set
//@| fn into_iter_stable_utxo(full_utxo_set: &UtxoSet, outpoint: OutPoint) -> (r: Utxo)
//@|     requires
//@|         // the stable address index lists only outpoints that are in the stable UTXO map (the repo traps otherwise)
//@|         stable_utxo_spec(full_utxo_set, outpoint) is Some,
//@|     ensures
//@|         r.outpoint == outpoint,
//@|         r.value == stable_utxo_spec(full_utxo_set, outpoint).unwrap().0.value,
//@|         r.height == stable_utxo_spec(full_utxo_set, outpoint).unwrap().1,
//@end

// ---- C01: "outputs that pay any other script never appear, including scripts whose address text merely starts with the queried
// ---- address": the closure of UtxoSet::get_address_outpoints that filters the key range of the stable index (utxo_set.rs:227) ------
// [trusted:stand-in] an entry of the stable address index (ic-stable-structures lazy entry) and the key decoder AddressUtxo::from_bytes
// (its round trip / order are the Kani harnesses c01_key_*): an uninterpreted function of the key bytes
struct KeyBlob { bytes: Vec<u8> }
impl KeyBlob {
    fn as_slice(&self) -> (r: &[u8]) ensures r@ == self.bytes@ { self.bytes.as_slice() }
}
struct IndexEntry { key: KeyBlob }
impl IndexEntry {
    fn key(&self) -> (r: &KeyBlob) ensures *r == self.key { &self.key }
}
struct AddressUtxo { address: Address, height: Height, outpoint: OutPoint }
uninterp spec fn key_decode_spec(bytes: Seq<u8>) -> AddressUtxo;
impl AddressUtxo {
    #[verifier::external_body]
    fn from_bytes(bytes: &[u8]) -> (r: AddressUtxo) ensures r == key_decode_spec(bytes@) { unimplemented!() }
}
// [trusted:assumed-spec] bool::then_some
pub assume_specification<T>[bool::then_some](b: bool, t: T) -> (r: Option<T>)
    ensures r == (if b { Some(t) } else { None::<T> }),
;
//@slice file=canister/src/utxo_set.rs in="impl UtxoSet" item="fn get_address_outpoints" block_after=".filter_map(move |entry| {" props=C01,C05
//@ rewrite R12 "std::borrow::Cow::Borrowed\((.*?)\)\);" => "\1);"
//@ head
//@| // R8 slice: the closure that filters the entries of the key range (added by fix F1)
//@| fn get_address_outpoints_filter(entry: IndexEntry, queried_address: Address) -> (r: Option<OutPoint>)
//@|     ensures
//@|         // an entry of the range is served iff its key decodes to EXACTLY the queried address (a longer address with the same
//@|         // prefix shares the key range but is dropped), and what is served is that key's outpoint
//@|         r.is_some() <==> key_decode_spec(entry.key.bytes@).address == queried_address,
//@|         r matches Some(o) ==> o == key_decode_spec(entry.key.bytes@).outpoint,
//@end
