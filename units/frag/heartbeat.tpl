// fragment: canister/src/heartbeat.rs request selection + reply handling, guard.rs, lib.rs::reset_syncing_state (C13)
type PageNumber = u8;
//@extract file=canister/src/types.rs item="struct GetSuccessorsRequestInitial"
//@ rewrite R2? "#\[derive\(([^\]]*)\)\]" => ""
//@end
//@extract file=canister/src/types.rs item="enum GetSuccessorsRequest"
//@ rewrite R2? "#\[derive\(([^\]]*)\)\]" => ""
//@end
//@extract file=canister/src/types.rs item="enum GetSuccessorsResponse"
//@ rewrite R2? "#\[derive\(([^\]]*)\)\]" => ""
//@end

//@extract file=canister/src/state.rs item="fn get_block_hashes" props=C13 rename=state_get_block_hashes
//@ ret r
//@ spec
//@| ensures r@ =~= state.unstable_blocks.tree.preorder(), r@.len() >= 1, r@[0] == state.unstable_blocks.tree.root.block_hash,
//@end
mod state {
    pub(crate) use super::state_get_block_hashes as get_block_hashes;
    pub(crate) use super::insert_block;
    pub(crate) use super::blockchain_info;
}

// wf_sync: a stored partial response has not yet received more follow-ups than it announced
spec fn wf_sync(s: &State) -> bool {
    s.syncing_state.response_to_process matches Some(ResponseToProcess::Partial(p, k)) ==> k < p.remaining_follow_ups
}

// C13 "the next request", written from the statement: nothing while a complete reply waits; follow-up number k while a
// partial reply with k pages received is stored; otherwise an initial request naming the anchor and every other unstable block
spec fn next_request_ok(s: &State, r: Option<GetSuccessorsRequest>) -> bool {
    match s.syncing_state.response_to_process {
        Some(ResponseToProcess::Complete(_)) => r is None,
        Some(ResponseToProcess::Partial(_, k)) => r == Some(GetSuccessorsRequest::FollowUp(k)),
        None => r matches Some(GetSuccessorsRequest::Initial(i))
            && i.network == s.utxos.network
            && i.anchor == s.unstable_blocks.tree.root.block_hash
            && i.processed_block_hashes@ =~= s.unstable_blocks.tree.preorder().skip(1),
    }
}

//@extract file=canister/src/heartbeat.rs item="fn maybe_get_successors_request" props=C13
//@ ret r
//@ r7 ro="vp_state()" type=State
//@ spec
//@| requires wf_sync(&global_state()),
//@| ensures next_request_ok(&global_state(), r),
//@end

// ---- single-flight guard (guard.rs) and reset (lib.rs), state-passing -------------------------------------------
//@extract file=canister/src/guard.rs item="struct FetchBlocksGuard"
//@end
impl FetchBlocksGuard {
//@extract file=canister/src/guard.rs in="impl FetchBlocksGuard" item="fn new" props=C13
//@ ret r
//@ sigrewrite R7 "fn new\(\)" => "fn new(vp_st: &mut State)"
//@ r7 rw="&mut *vp_st" ro="&*vp_st" type=State
//@ r14 fn=vp_drop_guard args=vp_st track="FetchBlocksGuard(::new)?\("
//@ spec
//@| ensures
//@|     // at most one request outstanding: a guard is handed out iff none is alive, and taking it raises the flag
//@|     r.is_some() <==> !old(vp_st).syncing_state.is_fetching_blocks,
//@|     final(vp_st).syncing_state.is_fetching_blocks,
//@|     final(vp_st).syncing_state.response_to_process == old(vp_st).syncing_state.response_to_process,
//@|     final(vp_st).unstable_blocks == old(vp_st).unstable_blocks && final(vp_st).utxos == old(vp_st).utxos,
//@end
}
//@slice file=canister/src/guard.rs in="impl Drop for FetchBlocksGuard" item="fn drop" block_after="with_state_mut(|s| {" props=C13
//@ head
//@| fn fetch_blocks_guard_drop_body(s: &mut State)
//@|     ensures
//@|         !final(s).syncing_state.is_fetching_blocks,
//@|         final(s).syncing_state.response_to_process == old(s).syncing_state.response_to_process,
//@|         final(s).unstable_blocks == old(s).unstable_blocks && final(s).utxos == old(s).utxos,
//@end
// ---- the guard is HELD while the request is outstanding: maybe_fetch_blocks from its start to the get_successors call ------
// R14 (drop elaboration, opt-in): Rust drops the value of `let _ = e;` at the end of the statement, a named binding
// (`let _guard = e;`) at the end of its scope; explicit drop(x) calls become the drop body. The guard's drop is the verified
// slice fetch_blocks_guard_drop_body.
fn vp_drop_guard(g: FetchBlocksGuard, vp_st: &mut State)
    ensures
        !final(vp_st).syncing_state.is_fetching_blocks,
        final(vp_st).syncing_state.response_to_process == old(vp_st).syncing_state.response_to_process,
        final(vp_st).unstable_blocks == old(vp_st).unstable_blocks && final(vp_st).utxos == old(vp_st).utxos,
{
    fetch_blocks_guard_drop_body(vp_st)
}
// [trusted:stand-in] maybe_get_successors_request reads the state only (verified separately above against next_request_ok);
// the request-statistics closure (heartbeat.rs:79-98: data_size, f64 seconds, histogram) is elided (R3): it touches
// syncing_state.get_successors_request_stats and metrics only
#[verifier::external_body]
fn vp_maybe_get_successors_request(vp_st: &State) -> (r: Option<GetSuccessorsRequest>) { unimplemented!() }
#[verifier::external_body]
fn vp_request_stats(vp_st: &mut State, request: &GetSuccessorsRequest)
    ensures
        final(vp_st).syncing_state.is_fetching_blocks == old(vp_st).syncing_state.is_fetching_blocks,
        final(vp_st).syncing_state.response_to_process == old(vp_st).syncing_state.response_to_process,
        final(vp_st).syncing_state.syncing == old(vp_st).syncing_state.syncing,
        final(vp_st).unstable_blocks == old(vp_st).unstable_blocks && final(vp_st).utxos == old(vp_st).utxos,
{ unimplemented!() }
//@slice file=canister/src/heartbeat.rs item="fn maybe_fetch_blocks" to_before="let response: Result<GetSuccessorsResponse, _> =" props=C13
//@ rewrite R7 "crate::guard::FetchBlocksGuard::new\(\)" => "FetchBlocksGuard::new(vp_st)"
//@ rewrite R7 "maybe_get_successors_request\(\)" => "vp_maybe_get_successors_request(vp_st)"
//@ rewrite R3 "with_state_mut\(\|s\| \{\s*let stats = &mut s\.syncing_state\.get_successors_request_stats;.*?\n    \}\);" => "vp_request_stats(vp_st, &request);"
//@ r7 ro="&*vp_st" rw="&mut *vp_st" type=State
//@ r14 fn=vp_drop_guard args=vp_st track="FetchBlocksGuard(::new)?\("
//@ head
//@| // R8 slice: maybe_fetch_blocks up to (not including) the inter-canister call; `true` = the call is made next
//@| fn maybe_fetch_blocks_until_call(vp_st: &mut State) -> (sent: bool)
//@|     ensures
//@|         // a request is sent only if none was outstanding, and the flag stays raised while it is outstanding
//@|         sent ==> !old(vp_st).syncing_state.is_fetching_blocks && final(vp_st).syncing_state.is_fetching_blocks,
//@|         // and only while syncing is enabled
//@|         sent ==> old(vp_st).syncing_state.syncing != Flag::Disabled,
//@|         final(vp_st).syncing_state.response_to_process == old(vp_st).syncing_state.response_to_process,
//@|         final(vp_st).unstable_blocks == old(vp_st).unstable_blocks && final(vp_st).utxos == old(vp_st).utxos,
//@| {
//@ tail
//@|     true
//@| }
//@end

//@extract file=canister/src/lib.rs item="fn reset_syncing_state" props=C13
//@ spec
//@| ensures
//@|     // an upgrade abandons an in-flight or partially received fetch: flag cleared, stored reply dropped, nothing else
//@|     !final(state).syncing_state.is_fetching_blocks,
//@|     final(state).syncing_state.response_to_process is None,
//@|     final(state).unstable_blocks == old(state).unstable_blocks && final(state).utxos == old(state).utxos,
//@end

// ---- reply handling (heartbeat.rs:107-198): the closure passed to with_state_mut after the await, lifted by R8 ------
// [trusted:stand-in] datasize::data_size: some size below 2^33 (replies are bounded by the IC's message size limit)
#[verifier::external_body]
fn data_size<T>(x: &T) -> (r: usize) ensures r < 0x2_0000_0000 { unimplemented!() }
// [trusted:stand-in] the reject of an inter-canister call (code + message)
struct CallReject { code: u32 }

// [assumption, stated] the u64 statistics counters are far from overflow
spec fn stats_ranges(s: &State) -> bool {
    let a = s.syncing_state.get_successors_response_stats;
    &&& s.syncing_state.num_get_successors_rejects < 0x7fff_ffff_ffff_ffff
    &&& a.total_count < 0x7fff_ffff_ffff_ffff && a.complete_count < 0x7fff_ffff_ffff_ffff && a.partial_count < 0x7fff_ffff_ffff_ffff && a.follow_up_count < 0x7fff_ffff_ffff_ffff
    &&& a.total_block_count < 0x7fff_ffff_0000_0000 && a.complete_block_count < 0x7fff_ffff_0000_0000 && a.partial_block_count < 0x7fff_ffff_ffff_ffff && a.follow_up_block_count < 0x7fff_ffff_ffff_ffff
    &&& a.total_size < 0x7fff_ffff_0000_0000 && a.complete_size < 0x7fff_ffff_0000_0000 && a.partial_size < 0x7fff_ffff_0000_0000 && a.follow_up_size < 0x7fff_ffff_0000_0000
}

// a reply conforms to the request that was sent in the state `s` (the block source's side of the protocol):
// complete/partial replies answer initial requests, a follow-up page answers a follow-up request
spec fn conforms(s: &State, reply: Result<GetSuccessorsResponse, CallReject>) -> bool {
    match reply {
        Err(_) => true,
        // [assumption, stated] a reply holds fewer than 2^32 blocks (wasm32 address space); a partial reply announces >= 1 follow-up
        Ok(GetSuccessorsResponse::Complete(c)) => s.syncing_state.response_to_process is None && c.blocks@.len() < 0x1_0000_0000,
        Ok(GetSuccessorsResponse::Partial(p)) => s.syncing_state.response_to_process is None && p.remaining_follow_ups >= 1,
        Ok(GetSuccessorsResponse::FollowUp(_)) => s.syncing_state.response_to_process matches Some(ResponseToProcess::Partial(_, _)),
    }
}

// C13 reply handling, written from the statement
spec fn reply_handled(pre: &State, reply: Result<GetSuccessorsResponse, CallReject>, post: &State) -> bool {
    match reply {
        // a reject discards partial data (so the next request is an initial one) and is counted
        Err(_) => post.syncing_state.response_to_process is None
            && post.syncing_state.num_get_successors_rejects == pre.syncing_state.num_get_successors_rejects + 1,
        Ok(GetSuccessorsResponse::Complete(c)) => post.syncing_state.response_to_process == Some(ResponseToProcess::Complete(c)),
        // pages received so far: 0
        Ok(GetSuccessorsResponse::Partial(p)) => post.syncing_state.response_to_process == Some(ResponseToProcess::Partial(p, 0u8)),
        // page k+1 is appended bit-identically; the block becomes processable exactly when the announced number of pages arrived
        Ok(GetSuccessorsResponse::FollowUp(bytes)) => pre.syncing_state.response_to_process matches Some(ResponseToProcess::Partial(p, k)) && (
            if k + 1 == p.remaining_follow_ups {
                post.syncing_state.response_to_process matches Some(ResponseToProcess::Complete(c))
                    && c.blocks@.len() == 1 && c.blocks@[0]@ =~= p.partial_block@ + bytes@ && c.next == p.next
            } else {
                post.syncing_state.response_to_process matches Some(ResponseToProcess::Partial(q, kk))
                    && kk == k + 1 && q.partial_block@ =~= p.partial_block@ + bytes@ && q.next == p.next
                    && q.remaining_follow_ups == p.remaining_follow_ups
            }),
    }
}

//@slice file=canister/src/heartbeat.rs item="fn maybe_fetch_blocks" block_after="with_state_mut(|s| {" nth=2 props=C13
//@ head
//@| fn maybe_fetch_blocks_reply_closure(s: &mut State, response: Result<GetSuccessorsResponse, CallReject>)
//@|     requires
//@|         conforms(old(s), response),
//@|         wf_sync(old(s)),
//@|         stats_ranges(old(s)),
//@|     ensures
//@|         reply_handled(old(s), response, final(s)),
//@|         wf_sync(final(s)),
//@|         // only the syncing state is touched: no block is applied here
//@|         final(s).unstable_blocks == old(s).unstable_blocks && final(s).utxos == old(s).utxos
//@|             && final(s).stable_block_headers == old(s).stable_block_headers
//@|             && final(s).syncing_state.is_fetching_blocks == old(s).syncing_state.is_fetching_blocks,
//@end

// ---- processing of a stored complete reply (heartbeat.rs:209) -----------------------------------------------------
// [trusted:stand-in] bitcoin::Block and its consensus decoder: total on arbitrary bytes (dependency; Ok or Err, never a trap)
struct BitcoinBlock { hash: BlockHash, header: Header, body: u64 }
struct DecodeError { code: u8 }
impl BitcoinBlock {
    #[verifier::external_body]
    fn consensus_decode(r: &mut &[u8]) -> (res: Result<BitcoinBlock, DecodeError>) { unimplemented!() }
}
impl Block {
    // [trusted:stand-in] ic_btc_types::Block::new wraps the decoded block; its hash is the hash of its header
    #[verifier::external_body]
    fn new(b: BitcoinBlock) -> (r: Block)
        ensures r.header == b.header, r.hash == header_hash(b.header),
    { unimplemented!() }
}
// ---- state::insert_next_block_headers (state.rs:279) on its real loop: announced headers that are garbage, invalid, duplicate
// ---- or not connected end the batch or are skipped; none of them traps, none touches anything but the announced headers ------
// [trusted:stand-in] the header decoder (total on arbitrary bytes), the instruction counter, the header validator of unit `valid`
// behind a context that may also look into the announced headers, and the insertion into the entry-API NextBlockHeaders
struct HeaderDecodeError { code: u8 }
impl Header {
    #[verifier::external_body]
    fn consensus_decode(r: &mut &[u8]) -> (res: Result<Header, HeaderDecodeError>) { unimplemented!() }
}
#[verifier::external_body]
fn inc_performance_counter() -> (r: u64) { unimplemented!() }
impl BlockHeaderBlob {
    #[verifier::external_body]
    fn as_slice(&self) -> (r: &[u8]) { unimplemented!() }
}
struct ValidateHeaderError { code: u8 }
struct HeaderValidator<'a> { ctx: ValidationContext<'a>, network: BitcoinNetwork }
impl<'a> HeaderValidator<'a> {
    #[verifier::external_body]
    fn new(ctx: ValidationContext<'a>, network: BitcoinNetwork) -> (r: HeaderValidator<'a>) { unimplemented!() }
    #[verifier::external_body]
    fn validate_header(&self, header: &Header, now: Duration) -> (r: Result<(), ValidateHeaderError>) { unimplemented!() }
}
impl<'a> ValidationContext<'a> {
    #[verifier::external_body]
    fn new_with_next_block_headers(state: &'a State, header: &Header) -> (r: Result<ValidationContext<'a>, ValidationContextError>) { unimplemented!() }
}
impl UnstableBlocks {
// C20: "already announced?" is a lookup of the header's own hash in the announced headers
//@extract file=canister/src/unstable_blocks.rs in="impl UnstableBlocks" item="fn has_next_block_header" props=C10,C20
//@ ret r
//@ spec
//@| ensures r == self.next_block_headers@.contains_key(header_hash(*block_header)),
//@end
// C14: the depth of a block = the number of edges from the anchor to the FIRST block of the tree with that hash (any branch, not
// only the served one); an error iff the block is not in the tree; nothing is modified
//@extract file=canister/src/unstable_blocks.rs in="impl UnstableBlocks" item="fn block_depth" props=C14
//@ ret r
//@ spec
//@| ensures
//@|     *final(self) == *old(self),
//@|     r.is_ok() <==> old(self).tree.contains(*block_hash),
//@|     r matches Ok(d) ==> d == old(self).tree.idx_path_to(*block_hash).len(),
//@end
// C14: the height recorded for an announced header is its parent's height + 1, the parent being an announced header or a block of
// the tree (whose height is the stable height plus its distance from the anchor); unconnected headers are refused and change nothing
//@extract file=canister/src/unstable_blocks.rs in="impl UnstableBlocks" item="fn insert_next_block_header" props=C14
//@ ret r
//@ spec
//@| requires
//@|     // [assumption, stated] heights stay far below 2^32
//@|     stable_height as int + old(self).tree.sdepth() + 0x10_0000 < u32::MAX,
//@|     old(self).next_block_headers.heights_below(u32::MAX - 1),
//@|     old(self).tree.wf_depth(),
//@|     old(self).next_block_headers.wf(),
//@|     // C20: the header is not announced yet (state::insert_next_block_headers skips announced headers before calling this)
//@|     !old(self).next_block_headers@.contains_key(header_hash(block_header)),
//@| ensures
//@|     final(self).next_block_headers.wf(),
//@|     // the new height is at most one above the greatest height known before (announced or in the tree)
//@|     forall|b: int| old(self).next_block_headers.heights_below(b) && stable_height + old(self).tree.sdepth() <= b ==> final(self).next_block_headers.heights_below(b + 1),
//@|     final(self).tree == old(self).tree, final(self).stability_threshold == old(self).stability_threshold, final(self).network == old(self).network,
//@|     final(self).outpoints_cache == old(self).outpoints_cache, final(self).tip_depths_cache == old(self).tip_depths_cache,
//@|     final(self).next_block_headers.offered@ == old(self).next_block_headers.offered@,
//@|     ({
//@|         let parent = BlockHash(block_header.prev_blockhash.0);
//@|         let announced = old(self).next_block_headers.height_of_spec(parent);
//@|         &&& r.is_err() <==> (announced is None && !old(self).tree.contains(parent))
//@|         &&& r.is_err() ==> final(self).next_block_headers@ == old(self).next_block_headers@
//@|         &&& r.is_ok() ==> final(self).next_block_headers@ == old(self).next_block_headers@.insert(header_hash(block_header), (
//@|                 ((match announced { Some(p) => p as int, None => stable_height + old(self).tree.idx_path_to(parent).len() }) + 1) as Height, block_header))
//@|     }),
//@ before "stable_height + depth"
//@| proof { old(self).tree.lemma_idx_path_len_le_depth(prev_block_hash); }
//@ finish ret=1
//@| proof {
//@|     assert forall|b: int| old(self).next_block_headers.heights_below(b) && stable_height + old(self).tree.sdepth() <= b implies self.next_block_headers.heights_below(b + 1) by {
//@|         assert forall|h: BlockHash| ((#[trigger] self.next_block_headers.height_of_spec(h)) matches Some(x) ==> x < b + 1) by {
//@|             if h != header_hash(block_header) { assert(self.next_block_headers.height_of_spec(h) == old(self).next_block_headers.height_of_spec(h)); }
//@|             else { let vp_parent = BlockHash(block_header.prev_blockhash.0); assert(old(self).next_block_headers.height_of_spec(vp_parent) is Some ==> old(self).next_block_headers.height_of_spec(vp_parent).unwrap() < b); }
//@|         }
//@|     }
//@| }
//@end
}
// ghost bookkeeping only: one more batch of announced headers has been offered (no run-time counterpart)
fn vp_note_offered(n: &mut NextBlockHeaders)
    ensures
        final(n).offered@ == old(n).offered@ + 1,
        final(n).hash_to_height_and_header == old(n).hash_to_height_and_header, final(n).height_to_hash == old(n).height_to_hash,
        final(n)@ == old(n)@, final(n).wf() == old(n).wf(),
        forall|b: int| old(n).heights_below(b) ==> final(n).heights_below(b),
{
    n.offered = Ghost(n.offered@ + 1);
    proof {
        assert forall|b: int| old(n).heights_below(b) implies n.heights_below(b) by {
            assert forall|h: BlockHash| ((#[trigger] n.height_of_spec(h)) matches Some(x) ==> x < b) by { assert(n.height_of_spec(h) == old(n).height_of_spec(h)); }
        }
    }
}
//@extract file=canister/src/state.rs item="fn insert_next_block_headers" props=C10,C13,C14,C20
//@ rewrite R4 "for block_header_blob in next_block_headers\.iter\(\) \{" => "let mut vp_i: usize = 0;\n    while vp_i < next_block_headers.len() {\n        let block_header_blob = &next_block_headers[vp_i];\n        vp_i = vp_i + 1;"
//@ rewrite R10 "let validation_result =\s*(ValidationContext::new_with_next_block_headers\(state, &block_header\))\s*\.map_err\(\|e\| vp_format\(\)\)\s*\.and_then\(\|store\| \{(.*?)\n                \}\);" => "let validation_result: Result<(), String> = match \1 { Err(e) => Err(vp_format()), Ok(store) => {\2\n                } };"
//@ rewrite R10 "\.validate_header\(&block_header, duration_since_epoch\(\)\)\s*\.map_err\(\|e\| vp_format\(\)\)" => ".validate_header(&block_header, duration_since_epoch()).map_err(|e: ValidateHeaderError| -> (vp_s: String) { vp_format() })"
//@ spec
//@| requires
//@|     // [assumption, stated] heights (stable, unstable, announced) stay below 2^31 - 2^16 and a response announces fewer than 2^16 headers
//@|     old(state).unstable_blocks.tree.wf_depth(),
//@|     old(state).utxos.next_height as int + old(state).unstable_blocks.tree.sdepth() <= 0x7fff_0000,
//@|     old(state).unstable_blocks.next_block_headers.heights_below(0x7fff_0000),
//@|     old(state).unstable_blocks.next_block_headers.wf(),
//@|     next_block_headers@.len() < 0x1_0000,
//@| ensures
//@|     final(state).unstable_blocks.next_block_headers.wf(),
//@|     // only the announced headers inside unstable_blocks are touched: never the tree, the UTXO set, the header store or the syncing state
//@|     final(state).unstable_blocks.tree == old(state).unstable_blocks.tree,
//@|     final(state).utxos == old(state).utxos,
//@|     final(state).stable_block_headers == old(state).stable_block_headers,
//@|     final(state).syncing_state == old(state).syncing_state,
//@|     final(state).unstable_blocks.next_block_headers.offered@ == old(state).unstable_blocks.next_block_headers.offered@ + 1,
//@ start
//@| vp_note_offered(&mut state.unstable_blocks.next_block_headers);
//@ loop 1
//@| invariant
//@|     vp_i <= next_block_headers@.len(),
//@|     next_block_headers@.len() < 0x1_0000,
//@|     state.unstable_blocks.tree.wf_depth(),
//@|     state.utxos.next_height as int + state.unstable_blocks.tree.sdepth() <= 0x7fff_0000,
//@|     state.unstable_blocks.next_block_headers.heights_below(0x7fff_0000 + vp_i),
//@|     state.unstable_blocks.next_block_headers.wf(),
//@|     state.unstable_blocks.tree == old(state).unstable_blocks.tree,
//@|     state.utxos == old(state).utxos,
//@|     state.stable_block_headers == old(state).stable_block_headers,
//@|     state.syncing_state == old(state).syncing_state,
//@|     state.unstable_blocks.next_block_headers.offered@ == old(state).unstable_blocks.next_block_headers.offered@ + 1,
//@| decreases next_block_headers@.len() - vp_i,
//@end

//@extract file=canister/src/heartbeat.rs item="fn maybe_process_response" props=C10,C13
//@ sigrewrite R7 "fn maybe_process_response\(\)" => "fn maybe_process_response(state: &mut State)"
//@ rewrite R7 "with_state_mut\(\|state\| \{" => "{ {"
//@ rewrite R7 "\}\);\s*\}$" => "}; } }"
//@ rewrite R3 "state::insert_next_block_headers" => "insert_next_block_headers"
//@ spec
//@| requires
//@|     old(state).syncing_state.num_block_deserialize_errors < u64::MAX,
//@|     old(state).syncing_state.num_insert_block_errors < u64::MAX,
//@|     // [assumption, stated] heights stay below 2^31 - 2^17; a reply carries fewer than 2^15 blocks and announces fewer than 2^16 headers
//@|     heights_in_range(old(state), 0),
//@|     old(state).syncing_state.response_to_process matches Some(ResponseToProcess::Complete(vp_r)) ==> vp_r.blocks@.len() < 0x8000 && vp_r.next@.len() < 0x1_0000,
//@| ensures
//@|     // a reply that is not complete is put back untouched (so a follow-up still conforms) and nothing changes at all
//@|     !(old(state).syncing_state.response_to_process matches Some(ResponseToProcess::Complete(_))) ==> *final(state) == *old(state),
//@|     // a complete reply is consumed exactly once: no block is applied twice
//@|     old(state).syncing_state.response_to_process matches Some(ResponseToProcess::Complete(_)) ==>
//@|         final(state).syncing_state.response_to_process is None,
//@|     // bad bytes or a rejected block never trap: exactly one error counter goes up by one and the rest of the reply is dropped
//@|     ({ let a = old(state).syncing_state; let b = final(state).syncing_state;
//@|        (b.num_block_deserialize_errors == a.num_block_deserialize_errors && b.num_insert_block_errors == a.num_insert_block_errors)
//@|        || (b.num_block_deserialize_errors == a.num_block_deserialize_errors + 1 && b.num_insert_block_errors == a.num_insert_block_errors)
//@|        || (b.num_block_deserialize_errors == a.num_block_deserialize_errors && b.num_insert_block_errors == a.num_insert_block_errors + 1) }),
//@|     // "the remaining blocks of that response are dropped": after a decode or insert error the announced headers of the
//@|     // response are NOT offered either; after a fully processed complete response they are offered exactly once
//@|     ({ let a = old(state).syncing_state; let b = final(state).syncing_state;
//@|        let off0 = old(state).unstable_blocks.next_block_headers.offered@; let off1 = final(state).unstable_blocks.next_block_headers.offered@;
//@|        if b.num_block_deserialize_errors != a.num_block_deserialize_errors || b.num_insert_block_errors != a.num_insert_block_errors { off1 == off0 }
//@|        else if old(state).syncing_state.response_to_process matches Some(ResponseToProcess::Complete(_)) { off1 == off0 + 1 }
//@|        else { off1 == off0 } }),
//@|     // processing a reply never ingests, never touches stable data or the fetch flag
//@|     final(state).utxos == old(state).utxos,
//@|     final(state).stable_block_headers == old(state).stable_block_headers,
//@|     final(state).syncing_state.is_fetching_blocks == old(state).syncing_state.is_fetching_blocks,
//@ loop 1 binder=it
//@| invariant
//@|     state.utxos == old(state).utxos,
//@|     state.stable_block_headers == old(state).stable_block_headers,
//@|     state.syncing_state.response_to_process is None,
//@|     state.syncing_state.is_fetching_blocks == old(state).syncing_state.is_fetching_blocks,
//@|     state.syncing_state.num_block_deserialize_errors == old(state).syncing_state.num_block_deserialize_errors,
//@|     state.syncing_state.num_insert_block_errors == old(state).syncing_state.num_insert_block_errors,
//@|     state.unstable_blocks.next_block_headers.offered@ == old(state).unstable_blocks.next_block_headers.offered@,
//@|     old(state).syncing_state.response_to_process matches Some(ResponseToProcess::Complete(_)),
//@|     old(state).syncing_state.num_block_deserialize_errors < u64::MAX,
//@|     old(state).syncing_state.num_insert_block_errors < u64::MAX,
//@|     heights_in_range(state, it.index@ as int),
//@|     it.index@ <= response.blocks@.len(), response.blocks@.len() < 0x8000, response.next@.len() < 0x1_0000,
//@end

// ---- C13: the phase order of one heartbeat (heartbeat.rs:20): ingestion first; fetching only if ingestion had nothing to do;
// ---- processing (and the fee cache) only if no request was sent. The phases themselves are verified above; here each call is a
// ---- stand-in that appends its name to a ghost trace (R7: `async fn` => `fn`, `.await` dropped, calls get the trace argument)
struct PhaseTrace { log: Ghost<Seq<int>> }
spec const PH_METRICS: int = 1;
spec const PH_BURN: int = 2;
spec const PH_INGEST: int = 3;
spec const PH_FETCH: int = 4;
spec const PH_PROCESS: int = 5;
spec const PH_FEES: int = 6;
uninterp spec fn ingest_outcome_spec() -> Slicing<(), bool>;
uninterp spec fn fetch_outcome_spec() -> bool;
#[verifier::external_body]
fn vp_collect_metrics(t: &mut PhaseTrace) ensures final(t).log@ == old(t).log@.push(PH_METRICS) { unimplemented!() }
#[verifier::external_body]
fn vp_maybe_burn_cycles(t: &mut PhaseTrace) ensures final(t).log@ == old(t).log@.push(PH_BURN) { unimplemented!() }
#[verifier::external_body]
fn vp_ingest(t: &mut PhaseTrace) -> (r: Slicing<(), bool>) ensures final(t).log@ == old(t).log@.push(PH_INGEST), r == ingest_outcome_spec() { unimplemented!() }
#[verifier::external_body]
fn vp_maybe_fetch_blocks(t: &mut PhaseTrace) -> (r: bool) ensures final(t).log@ == old(t).log@.push(PH_FETCH), r == fetch_outcome_spec() { unimplemented!() }
#[verifier::external_body]
fn vp_maybe_process_response(t: &mut PhaseTrace) ensures final(t).log@ == old(t).log@.push(PH_PROCESS) { unimplemented!() }
#[verifier::external_body]
fn vp_maybe_compute_fee_percentiles(t: &mut PhaseTrace) ensures final(t).log@ == old(t).log@.push(PH_FEES) { unimplemented!() }
//@extract file=canister/src/heartbeat.rs item="fn heartbeat" props=C13,C08
//@ sigrewrite R7 "async fn heartbeat\(\)" => "fn heartbeat(vp_tr: &mut PhaseTrace)"
//@ rewrite R7 "collect_metrics\(\);" => "vp_collect_metrics(vp_tr);"
//@ rewrite R7 "maybe_burn_cycles\(\);" => "vp_maybe_burn_cycles(vp_tr);"
//@ rewrite R7 "match ingest_stable_blocks_into_utxoset\(\) \{" => "match vp_ingest(vp_tr) {"
//@ rewrite R7 "maybe_fetch_blocks\(\)\.await" => "vp_maybe_fetch_blocks(vp_tr)"
//@ rewrite R7 "maybe_process_response\(\);" => "vp_maybe_process_response(vp_tr);"
//@ rewrite R7 "maybe_compute_fee_percentiles\(\);" => "vp_maybe_compute_fee_percentiles(vp_tr);"
//@ spec
//@| requires old(vp_tr).log@.len() == 0,
//@| ensures
//@|     final(vp_tr).log@ =~= (match ingest_outcome_spec() {
//@|         // a paused or completed ingestion ends the round
//@|         Slicing::Paused(()) => seq![PH_METRICS, PH_BURN, PH_INGEST],
//@|         Slicing::Done(true) => seq![PH_METRICS, PH_BURN, PH_INGEST],
//@|         // nothing ingested: fetch; a sent request ends the round; otherwise the stored reply is processed, then the fee cache
//@|         Slicing::Done(false) => if fetch_outcome_spec() { seq![PH_METRICS, PH_BURN, PH_INGEST, PH_FETCH] }
//@|                                 else { seq![PH_METRICS, PH_BURN, PH_INGEST, PH_FETCH, PH_PROCESS, PH_FEES] },
//@|     }),
//@end

// ---- C13: set_config (api/set_config.rs:34) cannot release the fetch guard or drop a stored reply: of the syncing state it writes the
// ---- `syncing` flag only; it never touches the tree, the UTXO set or the stored headers --------------------------------------------
// [trusted:stand-in] ic_btc_interface::SetConfigRequest (same field names); u128 -> u32 conversion of the threshold (traps when too large)
struct SetConfigRequest {
    stability_threshold: Option<u128>, syncing: Option<Flag>, fees: Option<Fees>, api_access: Option<Flag>,
    disable_api_if_not_fully_synced: Option<Flag>, watchdog_canister: Option<Option<Principal>>,
    lazily_evaluate_fee_percentiles: Option<Flag>, burn_cycles: Option<Flag>,
}
#[verifier::external_body]
fn vp_threshold_to_u32(x: u128) -> (r: u32) { unimplemented!() }
impl UnstableBlocks {
//@extract file=canister/src/unstable_blocks.rs in="impl UnstableBlocks" item="fn set_stability_threshold" props=C13
//@ spec
//@| ensures *final(self) == (UnstableBlocks { stability_threshold: stability_threshold, ..*old(self) }),
//@end
}
//@extract file=canister/src/api/set_config.rs item="fn set_config_no_verification" props=C13
//@ sigrewrite R7 "fn set_config_no_verification\(request: SetConfigRequest\)" => "fn set_config_no_verification(s: &mut State, request: SetConfigRequest)"
//@ rewrite R7 "crate::with_state_mut\(\|s\| \{" => "{ {"
//@ rewrite R7 "\}\);\s*\}$" => "}; } }"
//@ rewrite R3 "stability_threshold\s*\.try_into\(\)\s*\.expect\(\"stability threshold too large\"\)" => "vp_threshold_to_u32(stability_threshold)"
//@ spec
//@| ensures
//@|     // the fetch guard's flag, the stored reply and the error counters are not set_config's to change
//@|     final(s).syncing_state.is_fetching_blocks == old(s).syncing_state.is_fetching_blocks,
//@|     final(s).syncing_state.response_to_process == old(s).syncing_state.response_to_process,
//@|     final(s).syncing_state.syncing == (match request.syncing { Some(x) => x, None => old(s).syncing_state.syncing }),
//@|     final(s).utxos == old(s).utxos, final(s).stable_block_headers == old(s).stable_block_headers,
//@|     final(s).unstable_blocks.tree == old(s).unstable_blocks.tree,
//@|     final(s).unstable_blocks.next_block_headers == old(s).unstable_blocks.next_block_headers,
//@|     final(s).api_access == (match request.api_access { Some(x) => x, None => old(s).api_access }),
//@end
