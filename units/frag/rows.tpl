// fragment: blocktree.rs block_hashes_with_depths_by_heights(_helper) — the per-height rows used by the confirmation cut (C04, C05)
type Row = Seq<(BlockHash, u32)>;
type Rows = Seq<Row>;
spec fn row_view(r: Seq<(&BlockHash, u32)>) -> Row { Seq::new(r.len(), |i: int| (*r[i].0, r[i].1)) }
spec fn rows_view(r: Seq<Vec<(&BlockHash, u32)>>) -> Rows { Seq::new(r.len(), |i: int| row_view(r[i]@)) }
// level-wise concatenation of two row tables (a missing level counts as empty)
spec fn level(a: Rows, l: int) -> Row { if 0 <= l < a.len() { a[l] } else { Seq::empty() } }
spec fn merge(a: Rows, b: Rows) -> Rows {
    Seq::new(if a.len() >= b.len() { a.len() } else { b.len() }, |l: int| level(a, l) + level(b, l))
}
spec fn push_at(a: Rows, h: int, x: (BlockHash, u32)) -> Rows {
    Seq::new(if a.len() > h { a.len() } else { (h + 1) as nat }, |l: int| if l == h { level(a, l).push(x) } else { level(a, l) })
}
proof fn lemma_merge_assoc(a: Rows, b: Rows, c: Rows)
    ensures merge(merge(a, b), c) =~= merge(a, merge(b, c)),
{
    assert forall|l: int| 0 <= l < merge(merge(a, b), c).len() implies #[trigger] merge(merge(a, b), c)[l] =~= merge(a, merge(b, c))[l] by {
        assert(level(merge(a, b), l) =~= level(a, l) + level(b, l));
        assert(level(merge(b, c), l) =~= level(b, l) + level(c, l));
    }
}
proof fn lemma_push_merge(a: Rows, b: Rows, h: int, x: (BlockHash, u32))
    requires h >= 0,
    ensures push_at(merge(a, b), h, x) =~= merge(a, push_at(b, h, x)),
{
    assert forall|l: int| 0 <= l < push_at(merge(a, b), h, x).len() implies #[trigger] push_at(merge(a, b), h, x)[l] =~= merge(a, push_at(b, h, x))[l] by {
        assert(level(merge(a, b), l) =~= level(a, l) + level(b, l));
    }
}
proof fn lemma_merge_empty(a: Rows)
    ensures merge(a, Seq::empty()) =~= a,
{
    assert forall|l: int| 0 <= l < a.len() implies #[trigger] merge(a, Seq::<Row>::empty())[l] =~= a[l] by {}
}

impl<Block: ChainBlock> BlockTree<Block> {
    // C04 oracle, written from the statement: the table that lists, for every distance h from the root, the blocks at that
    // distance (children before their parent's level entry, in arrival order) with the length of their longest descendant
    // chain (themselves included) — "buried under that many blocks on their longest descendant chain"
    spec fn contrib_children(cs: Seq<BlockTree<Block>>, n: int, h: int) -> Rows
        decreases cs, n
    {
        if n <= 0 || n > cs.len() { Seq::empty() } else { merge(Self::contrib_children(cs, n - 1, h), cs[n - 1].contrib(h)) }
    }
    spec fn contrib(&self, h: int) -> Rows
        decreases self
    {
        push_at(Self::contrib_children(self.children@, self.children@.len() as int, h + 1), h, (self.root.shash(), self.sdepth() as u32))
    }

    // one row per height of the tree
    proof fn lemma_contrib_len(&self, h: int)
        requires h >= 0,
        ensures self.contrib(h).len() == h + self.sdepth(),
        decreases self,
    {
        Self::lemma_contrib_children_len(self.children@, self.children@.len() as int, h + 1);
        Self::lemma_max_child_depth_mono(self.children@, 0, self.children@.len() as int);
    }
    proof fn lemma_contrib_children_len(cs: Seq<BlockTree<Block>>, n: int, h: int)
        requires 0 <= n <= cs.len(), h >= 0,
        ensures Self::contrib_children(cs, n, h).len() == (if Self::max_child_depth(cs, n) > 0 { h + Self::max_child_depth(cs, n) } else { 0 }),
        decreases cs, n,
    {
        if n > 0 {
            Self::lemma_contrib_children_len(cs, n - 1, h);
            cs[n - 1].lemma_contrib_len(h);
            cs[n - 1].lemma_depth_pos();
            Self::lemma_max_child_depth_mono(cs, 0, n - 1);
        }
    }

//@extract file=canister/src/blocktree.rs in="impl<Block: ChainBlock> BlockTree<Block>" item="fn block_hashes_with_depths_by_heights_helper" props=C04,C05
//@ ret r
//@ spec
//@| requires
//@|     self.wf_depth(),
//@|     height + self.sdepth() <= usize::MAX,
//@| ensures
//@|     r == self.sdepth(),
//@|     rows_view(final(blocks_with_depth_by_height)@) =~= merge(rows_view(old(blocks_with_depth_by_height)@), self.contrib(height as int)),
//@| decreases self,
//@ loop 1 binder=it
//@| invariant
//@|     self.wf_depth(),
//@|     height + self.sdepth() <= usize::MAX,
//@|     depth == Self::max_child_depth(self.children@, it.index@),
//@|     rows_view(blocks_with_depth_by_height@) =~= merge(rows_view(old(blocks_with_depth_by_height)@), Self::contrib_children(self.children@, it.index@, height as int + 1)),
//@ before "depth = std::cmp::max("
//@| let ghost vp_before = rows_view(blocks_with_depth_by_height@);
//@| proof {
//@|     Self::lemma_max_child_depth_mono(self.children@, it.index@ + 1, self.children@.len() as int);
//@|     Self::lemma_max_child_depth_mono(self.children@, 0, self.children@.len() as int);
//@| }
//@ after "depth = std::cmp::max("
//@| proof {
//@|     lemma_merge_assoc(rows_view(old(blocks_with_depth_by_height)@), Self::contrib_children(self.children@, it.index@, height as int + 1), self.children@[it.index@].contrib(height as int + 1));
//@| }
//@ before "depth += 1;"
//@| proof {
//@|     Self::lemma_max_child_depth_mono(self.children@, 0, self.children@.len() as int);
//@|     lemma_merge_empty(rows_view(old(blocks_with_depth_by_height)@));
//@| }
//@| let ghost vp_loop_end = rows_view(blocks_with_depth_by_height@);
//@ after "blocks_with_depth_by_height[height].push((self.root.block_hash(), depth));"
//@| proof {
//@|     let x = (self.root.shash(), self.sdepth() as u32);
//@|     assert(rows_view(blocks_with_depth_by_height@) =~= push_at(vp_loop_end, height as int, x)) by {
//@|         assert forall|l: int| 0 <= l < rows_view(blocks_with_depth_by_height@).len() implies
//@|             #[trigger] rows_view(blocks_with_depth_by_height@)[l] =~= push_at(vp_loop_end, height as int, x)[l] by {}
//@|     }
//@|     lemma_push_merge(rows_view(old(blocks_with_depth_by_height)@), Self::contrib_children(self.children@, self.children@.len() as int, height as int + 1), height as int, x);
//@| }
//@end

//@extract file=canister/src/blocktree.rs in="impl<Block: ChainBlock> BlockTree<Block>" item="fn block_hashes_with_depths_by_heights" props=C04,C05
//@ ret r
//@ spec
//@| requires self.wf_depth(), self.sdepth() <= usize::MAX,
//@| ensures rows_view(r@) =~= self.contrib(0),
//@ before "self.block_hashes_with_depths_by_heights_helper(&mut blocks_with_depths_by_heights, 0);"
//@| let ghost vp_init = rows_view(blocks_with_depths_by_heights@);
//@| proof {
//@|     assert(vp_init.len() == 1 && vp_init[0] =~= Seq::<(BlockHash, u32)>::empty());
//@|     self.lemma_depth_pos();
//@| }
//@ after "self.block_hashes_with_depths_by_heights_helper(&mut blocks_with_depths_by_heights, 0);"
//@| proof {
//@|     assert(merge(vp_init, self.contrib(0)) =~= self.contrib(0)) by {
//@|         assert forall|l: int| 0 <= l < self.contrib(0).len() implies #[trigger] merge(vp_init, self.contrib(0))[l] =~= self.contrib(0)[l] by {}
//@|     }
//@| }
//@end
}
