// fragment: canister/src/unstable_blocks/next_block_headers.rs — the announced ("next") block headers, verified on the REAL struct
// (two BTreeMaps) and the REAL method bodies. C10 (a later valid block never traps on this bookkeeping), C14 (the height the sync
// test reads), C20 (announced headers are dropped when their block arrives and when the stable height reaches theirs; the two
// indexes never get out of step).
use std::collections::BTreeMap;
use vstd::std_specs::cmp::PartialEqSpec;

// [trusted:axioms] BlockHash ([u8; 32], derived Ord/Eq) and u32 are lawful BTreeMap keys; derived == on BlockHash is equality
#[verifier::external_body]
proof fn axiom_nbh_keys() ensures nbh_keys_ok() {}
spec fn nbh_keys_ok() -> bool {
    &&& vstd::laws_cmp::obeys_cmp::<BlockHash>() &&& vstd::laws_cmp::obeys_cmp::<u32>() &&& BlockHash::obeys_eq_spec()
    &&& forall|a: BlockHash, b: BlockHash| #[trigger] a.eq_spec(&b) == (a == b)
}
// [trusted:assumed-spec] <[T]>::contains
pub assume_specification<T: PartialEq>[<[T]>::contains](s: &[T], x: &T) -> (r: bool)
    ensures T::obeys_eq_spec() ==> r == s@.contains(*x);
// [trusted:assumed-spec] BTreeMap::first_key_value / last_key_value: the entry with the minimum / maximum key. R22 rewrites
// `m.iter().next()` / `m.iter().last()` into them (a BTreeMap iterates in ascending key order: std documentation)
pub assume_specification<K: Ord, V, A: std::alloc::Allocator + Clone>[std::collections::BTreeMap::<K, V, A>::first_key_value](m: &BTreeMap<K, V, A>) -> (r: Option<(&K, &V)>)
    ensures
        vstd::laws_cmp::obeys_cmp::<K>() ==> {
            &&& r is None <==> m@.dom() =~= Set::<K>::empty()
            &&& r matches Some(p) ==> m@.contains_key(*p.0) && m@[*p.0] == *p.1 && forall|j: K| #[trigger] m@.contains_key(j) ==> p.0.cmp_spec(&j) != Ordering::Greater
        };
pub assume_specification<K: Ord, V, A: std::alloc::Allocator + Clone>[std::collections::BTreeMap::<K, V, A>::last_key_value](m: &BTreeMap<K, V, A>) -> (r: Option<(&K, &V)>)
    ensures
        vstd::laws_cmp::obeys_cmp::<K>() ==> {
            &&& r is None <==> m@.dom() =~= Set::<K>::empty()
            &&& r matches Some(p) ==> m@.contains_key(*p.0) && m@[*p.0] == *p.1 && forall|j: K| #[trigger] m@.contains_key(j) ==> p.0.cmp_spec(&j) != Ordering::Less
        };

// R21: `m.entry(k).or_default()` => `vp_entry_or_default(&mut m, k)`. VERIFIED helper (not trusted): the definition of
// Entry::or_default in terms of contains_key / insert / get_mut
fn vp_entry_or_default<'a, V>(m: &'a mut BTreeMap<u32, Vec<V>>, k: u32) -> (r: &'a mut Vec<V>)
    ensures
        r@ == (if old(m)@.contains_key(k) { old(m)@[k]@ } else { Seq::empty() }),
        final(m)@ == old(m)@.insert(k, *final(r)),
{
    proof { axiom_nbh_keys(); }
    if !m.contains_key(&k) {
        m.insert(k, Vec::new());
    }
    m.get_mut(&k).unwrap()
}

// the list under a height after an insertion: the old list with the hash listed exactly once (the code appends it if absent)
spec fn nbh_listed(nv: Seq<BlockHash>, ov: Seq<BlockHash>, h: BlockHash) -> bool {
    ||| (ov.contains(h) && nv == ov)
    ||| (!ov.contains(h) && nv == ov.push(h))
    ||| (nv.no_duplicates() && forall|x: BlockHash| nv.contains(x) <==> (x == h || ov.contains(x)))
}
spec fn nbh_wf(hm: Map<BlockHash, (Height, Header)>, tm: Map<Height, Vec<BlockHash>>) -> bool {
    &&& forall|h: BlockHash| #[trigger] hm.contains_key(h) ==> {
            let ht = hm[h].0;
            tm.contains_key(ht) && tm[ht]@.contains(h) && h == header_hash(hm[h].1) }
    &&& forall|ht: Height| #[trigger] tm.contains_key(ht) ==> {
            let v = tm[ht]@;
            v.len() >= 1 && v.no_duplicates()
            && forall|i: int| 0 <= i < v.len() ==> hm.contains_key(#[trigger] v[i]) && hm[v[i]].0 == ht }
}
// hint for insert: recording (height, header) under the header's hash and making sure the hash is listed (once) under that
// height keeps the two indexes in step, provided the hash was not stored under another height
proof fn lemma_nbh_insert(hm: Map<BlockHash, (Height, Header)>, tm: Map<Height, Vec<BlockHash>>, hm1: Map<BlockHash, (Height, Header)>, tm1: Map<Height, Vec<BlockHash>>, hd: Header, height: Height, nv: Vec<BlockHash>)
    ensures
        (nbh_wf(hm, tm) && (hm.contains_key(header_hash(hd)) ==> hm[header_hash(hd)].0 == height)
          && hm1 == hm.insert(header_hash(hd), (height, hd)) && tm1 == tm.insert(height, nv)
          && nv@.no_duplicates() && nbh_listed(nv@, if tm.contains_key(height) { tm[height]@ } else { Seq::empty() }, header_hash(hd)))
        ==> nbh_wf(hm1, tm1),
{
    let h = header_hash(hd);
    if nbh_wf(hm, tm) && (hm.contains_key(h) ==> hm[h].0 == height)
          && hm1 == hm.insert(h, (height, hd)) && tm1 == tm.insert(height, nv)
          && nv@.no_duplicates() && nbh_listed(nv@, if tm.contains_key(height) { tm[height]@ } else { Seq::empty() }, h) {
        let ov = if tm.contains_key(height) { tm[height]@ } else { Seq::<BlockHash>::empty() };
        assert forall|x: BlockHash| nv@.contains(x) <==> (x == h || ov.contains(x)) by {
            if nv@ == ov.push(h) {
                if ov.contains(x) { let j = choose|j: int| 0 <= j < ov.len() && ov[j] == x; assert(nv@[j] == x); }
                assert(nv@[ov.len() as int] == h);
                if nv@.contains(x) { let j = choose|j: int| 0 <= j < nv@.len() && nv@[j] == x; if j < ov.len() { assert(ov[j] == x); } }
            }
        }
        assert forall|x: BlockHash| #[trigger] hm1.contains_key(x) implies ({
            let ht = hm1[x].0;
            tm1.contains_key(ht) && tm1[ht]@.contains(x) && x == header_hash(hm1[x].1) }) by {
            if x != h { assert(hm.contains_key(x)); }
        }
        assert forall|ht: Height| #[trigger] tm1.contains_key(ht) implies ({
            let v = tm1[ht]@;
            v.len() >= 1 && v.no_duplicates()
            && forall|i: int| 0 <= i < v.len() ==> hm1.contains_key(#[trigger] v[i]) && hm1[v[i]].0 == ht }) by {
            let v = tm1[ht]@;
            if ht == height {
                assert(nv@.contains(h));
                assert forall|i: int| 0 <= i < v.len() implies hm1.contains_key(#[trigger] v[i]) && hm1[v[i]].0 == ht by {
                    assert(nv@.contains(v[i]));
                    if v[i] != h {
                        let j = choose|j: int| 0 <= j < tm[height]@.len() && tm[height]@[j] == v[i];
                        assert(hm.contains_key(tm[height]@[j]));
                    }
                }
            } else {
                assert(tm.contains_key(ht));
                assert forall|i: int| 0 <= i < v.len() implies hm1.contains_key(#[trigger] v[i]) && hm1[v[i]].0 == ht by {
                    assert(hm.contains_key(tm[ht]@[i]));
                }
            }
        }
    }
}

// the list under a height after a removal: the old list without the hash (the code removes its first occurrence)
spec fn nbh_unlisted(nv: Seq<BlockHash>, ov: Seq<BlockHash>, h: BlockHash) -> bool {
    ||| (exists|k: int| 0 <= k < ov.len() && ov[k] == h && nv == ov.remove(k))
    ||| (nv.no_duplicates() && forall|x: BlockHash| nv.contains(x) <==> (x != h && ov.contains(x)))
}
proof fn lemma_nbh_remove(hm: Map<BlockHash, (Height, Header)>, tm: Map<Height, Vec<BlockHash>>, hm1: Map<BlockHash, (Height, Header)>, tm1: Map<Height, Vec<BlockHash>>, b: BlockHash)
    ensures
        (nbh_wf(hm, tm) && hm.contains_key(b) && hm1 == hm.remove(b) && ({
            let height = hm[b].0;
            ||| (tm[height]@.len() == 1 && tm1 == tm.remove(height))
            ||| (tm[height]@.len() > 1 && tm1.contains_key(height) && tm1 == tm.insert(height, tm1[height]) && nbh_unlisted(tm1[height]@, tm[height]@, b))
        })) ==> nbh_wf(hm1, tm1),
{
    if nbh_wf(hm, tm) && hm.contains_key(b) && hm1 == hm.remove(b) {
        let height = hm[b].0;
        let ov = tm[height]@;
        assert(tm.contains_key(height) && ov.contains(b));
        let kb = choose|k: int| 0 <= k < ov.len() && ov[k] == b;
        if ov.len() == 1 && tm1 == tm.remove(height) {
            assert(kb == 0);
            assert forall|x: BlockHash| #[trigger] hm1.contains_key(x) implies ({
                let ht = hm1[x].0;
                tm1.contains_key(ht) && tm1[ht]@.contains(x) && x == header_hash(hm1[x].1) }) by {
                assert(hm.contains_key(x));
                if hm[x].0 == height { let j = choose|j: int| 0 <= j < ov.len() && ov[j] == x; assert(j == 0); }
            }
            assert forall|ht: Height| #[trigger] tm1.contains_key(ht) implies ({
                let v = tm1[ht]@;
                v.len() >= 1 && v.no_duplicates()
                && forall|i: int| 0 <= i < v.len() ==> hm1.contains_key(#[trigger] v[i]) && hm1[v[i]].0 == ht }) by {
                assert(tm.contains_key(ht));
                let v = tm1[ht]@;
                assert forall|i: int| 0 <= i < v.len() implies hm1.contains_key(#[trigger] v[i]) && hm1[v[i]].0 == ht by {
                    assert(hm.contains_key(tm[ht]@[i]));
                }
            }
        } else if ov.len() > 1 && tm1.contains_key(height) && tm1 == tm.insert(height, tm1[height]) && nbh_unlisted(tm1[height]@, ov, b) {
            let nv = tm1[height]@;
            // both shapes give: nv is duplicate free and lists exactly the other hashes of ov
            assert(nv.no_duplicates() && (forall|x: BlockHash| nv.contains(x) <==> (x != b && ov.contains(x))) && nv.len() >= 1) by {
                if exists|k: int| 0 <= k < ov.len() && ov[k] == b && nv == ov.remove(k) {
                    let k = choose|k: int| 0 <= k < ov.len() && ov[k] == b && nv == ov.remove(k);
                    assert forall|x: BlockHash| nv.contains(x) <==> (x != b && ov.contains(x)) by {
                        if nv.contains(x) { let j = choose|j: int| 0 <= j < nv.len() && nv[j] == x; if j < k { assert(ov[j] == x); } else { assert(ov[j + 1] == x); } }
                        if x != b && ov.contains(x) { let j = choose|j: int| 0 <= j < ov.len() && ov[j] == x; if j < k { assert(nv[j] == x); } else { assert(nv[j - 1] == x); } }
                    }
                    assert forall|i: int, j: int| 0 <= i < nv.len() && 0 <= j < nv.len() && i != j implies nv[i] != nv[j] by {
                        let i2 = if i < k { i } else { i + 1 }; let j2 = if j < k { j } else { j + 1 };
                        assert(ov[i2] == nv[i] && ov[j2] == nv[j]);
                    }
                } else {
                    // abstract shape: some other element of ov is listed
                    let o = if kb == 0 { 1int } else { 0int };
                    assert(ov[o] != b);
                    assert(ov.contains(ov[o]));
                    assert(nv.contains(ov[o]));
                }
            }
            assert forall|x: BlockHash| #[trigger] hm1.contains_key(x) implies ({
                let ht = hm1[x].0;
                tm1.contains_key(ht) && tm1[ht]@.contains(x) && x == header_hash(hm1[x].1) }) by {
                assert(hm.contains_key(x));
            }
            assert forall|ht: Height| #[trigger] tm1.contains_key(ht) implies ({
                let v = tm1[ht]@;
                v.len() >= 1 && v.no_duplicates()
                && forall|i: int| 0 <= i < v.len() ==> hm1.contains_key(#[trigger] v[i]) && hm1[v[i]].0 == ht }) by {
                let v = tm1[ht]@;
                assert(tm.contains_key(ht));
                assert forall|i: int| 0 <= i < v.len() implies hm1.contains_key(#[trigger] v[i]) && hm1[v[i]].0 == ht by {
                    if ht == height {
                        assert(nv.contains(v[i]));
                        let j = choose|j: int| 0 <= j < ov.len() && ov[j] == v[i];
                        assert(hm.contains_key(ov[j]));
                    } else {
                        assert(hm.contains_key(tm[ht]@[i]));
                        // v[i] != b because b is stored under `height`
                    }
                }
            }
        }
    }
}

// h is among the first n entries of s
spec fn nbh_listed_before(s: Seq<BlockHash>, n: int, h: BlockHash) -> bool
    decreases n
{
    if n <= 0 { false } else { s[n - 1] == h || nbh_listed_before(s, n - 1, h) }
}
proof fn lemma_nbh_listed_before(s: Seq<BlockHash>, n: int, h: BlockHash)
    requires 0 <= n <= s.len(),
    ensures nbh_listed_before(s, n, h) <==> exists|k: int| 0 <= k < n && s[k] == h,
    decreases n
{
    if n > 0 {
        lemma_nbh_listed_before(s, n - 1, h);
        if exists|k: int| 0 <= k < n && s[k] == h {
            let k = choose|k: int| 0 <= k < n && s[k] == h;
            if k < n - 1 { assert(0 <= k < n - 1 && s[k] == h); }
        }
    }
}
proof fn lemma_nbh_drop_height(hm: Map<BlockHash, (Height, Header)>, tm: Map<Height, Vec<BlockHash>>, hm1: Map<BlockHash, (Height, Header)>, tm1: Map<Height, Vec<BlockHash>>, height: Height)
    ensures
        (nbh_wf(hm, tm) && tm.contains_key(height) && tm1 == tm.remove(height)
         && (forall|h: BlockHash| #[trigger] hm1.contains_key(h) <==> (hm.contains_key(h) && !nbh_listed_before(tm[height]@, tm[height]@.len() as int, h)))
         && (forall|h: BlockHash| #[trigger] hm1.contains_key(h) ==> hm1[h] == hm[h]))
        ==> (nbh_wf(hm1, tm1) && forall|h: BlockHash| #[trigger] hm1.contains_key(h) <==> (hm.contains_key(h) && hm[h].0 != height)),
{
    if (nbh_wf(hm, tm) && tm.contains_key(height) && tm1 == tm.remove(height)
         && (forall|h: BlockHash| #[trigger] hm1.contains_key(h) <==> (hm.contains_key(h) && !nbh_listed_before(tm[height]@, tm[height]@.len() as int, h)))
         && (forall|h: BlockHash| #[trigger] hm1.contains_key(h) ==> hm1[h] == hm[h])) {
        let ov = tm[height]@;
        assert forall|h: BlockHash| nbh_listed_before(ov, ov.len() as int, h) <==> ov.contains(h) by { lemma_nbh_listed_before(ov, ov.len() as int, h); }
        assert forall|h: BlockHash| #[trigger] hm1.contains_key(h) <==> (hm.contains_key(h) && hm[h].0 != height) by {
            if hm.contains_key(h) && hm[h].0 != height && ov.contains(h) {
                let j = choose|j: int| 0 <= j < ov.len() && ov[j] == h; assert(hm.contains_key(ov[j]));
            }
        }
        assert forall|x: BlockHash| #[trigger] hm1.contains_key(x) implies ({
            let ht = hm1[x].0;
            tm1.contains_key(ht) && tm1[ht]@.contains(x) && x == header_hash(hm1[x].1) }) by {
            assert(hm.contains_key(x));
        }
        assert forall|ht: Height| #[trigger] tm1.contains_key(ht) implies ({
            let v = tm1[ht]@;
            v.len() >= 1 && v.no_duplicates()
            && forall|i: int| 0 <= i < v.len() ==> hm1.contains_key(#[trigger] v[i]) && hm1[v[i]].0 == ht }) by {
            let v = tm1[ht]@;
            assert(tm.contains_key(ht));
            assert forall|i: int| 0 <= i < v.len() implies hm1.contains_key(#[trigger] v[i]) && hm1[v[i]].0 == ht by {
                assert(ht != height);
                assert(v == tm[ht]@);
                assert(hm.contains_key(tm[ht]@[i]));
                assert(hm[v[i]].0 == ht);
                if ov.contains(v[i]) { let j = choose|j: int| 0 <= j < ov.len() && ov[j] == v[i]; assert(hm.contains_key(ov[j])); assert(hm[ov[j]].0 == height); assert(false); }
                assert(hm1.contains_key(v[i]));
            }
        }
    }
}

// the greatest height under which a header is announced
spec fn nbh_max_height(hm: Map<BlockHash, (Height, Header)>) -> Option<Height> {
    if forall|h: BlockHash| !hm.contains_key(h) { None } else {
        Some(choose|m: Height| nbh_is_max(hm, m))
    }
}
// hint for get_max_height: the greatest key of the per-height index is the greatest announced height
spec fn nbh_is_max(hm: Map<BlockHash, (Height, Header)>, m: Height) -> bool {
    (exists|h: BlockHash| #[trigger] hm.contains_key(h) && hm[h].0 == m) && forall|h: BlockHash| #[trigger] hm.contains_key(h) ==> hm[h].0 <= m
}
proof fn lemma_nbh_max(hm: Map<BlockHash, (Height, Header)>, tm: Map<Height, Vec<BlockHash>>, r: Option<Height>)
    ensures
        (nbh_wf(hm, tm) && (r is None <==> tm.dom() =~= Set::<Height>::empty())
          && (r matches Some(k) ==> tm.contains_key(k) && forall|j: Height| #[trigger] tm.contains_key(j) ==> j <= k))
        ==> r == nbh_max_height(hm),
{
    if nbh_wf(hm, tm) && (r is None <==> tm.dom() =~= Set::<Height>::empty())
          && (r matches Some(k) ==> tm.contains_key(k) && forall|j: Height| #[trigger] tm.contains_key(j) ==> j <= k) {
        match r {
            None => {
                assert forall|h: BlockHash| !hm.contains_key(h) by { if hm.contains_key(h) { assert(tm.contains_key(hm[h].0)); assert(tm.dom().contains(hm[h].0)); } }
            }
            Some(k) => {
                let v = tm[k]@;
                assert(hm.contains_key(v[0]) && hm[v[0]].0 == k);
                assert forall|h: BlockHash| hm.contains_key(h) implies hm[h].0 <= k by { assert(tm.contains_key(hm[h].0)); }
                let m = choose|m: Height| nbh_is_max(hm, m);
                assert(nbh_is_max(hm, k));
                let hw = choose|h: BlockHash| hm.contains_key(h) && hm[h].0 == m;
                assert(m == k);
            }
        }
    }
}

// ghost `offered`: how many times a batch of announced headers has been offered (insert_next_block_headers calls); no run-time counterpart
//@extract file=canister/src/unstable_blocks/next_block_headers.rs item="struct NextBlockHeaders" props=C10,C14,C20
//@ rewrite R2? "#\[derive\(([^\]]*)\)\]" => ""
//@ rewrite R9 "(height_to_hash: BTreeMap<Height, Vec<BlockHash>>,)" => "\1\n    offered: Ghost<nat>,"
//@end

impl NextBlockHeaders {
    // the announced headers: hash -> (height, header)
    spec fn view(&self) -> Map<BlockHash, (Height, Header)> { self.hash_to_height_and_header@ }
    // representation invariant: the per-height lists and the per-hash map describe the same set of announced headers
    // (every stored hash is listed exactly once under its height, every listed hash is stored under that height, no empty list),
    // and every header is stored under its own hash
    spec fn wf(&self) -> bool { nbh_wf(self.hash_to_height_and_header@, self.height_to_hash@) }
    spec fn height_of_spec(&self, h: BlockHash) -> Option<Height> { if self@.contains_key(h) { Some(self@[h].0) } else { None } }
    spec fn max_height_spec(&self) -> Option<Height> { nbh_max_height(self@) }
    spec fn heights_below(&self, b: int) -> bool { forall|h: BlockHash| (#[trigger] self.height_of_spec(h)) matches Some(x) ==> x < b }

//@extract file=canister/src/unstable_blocks/next_block_headers.rs in="impl NextBlockHeaders" item="fn insert" props=C10,C14,C20
//@ rewrite R21 "(\b[\w\.]+)\.entry\((\w+)\)\.or_default\(\)" => "vp_entry_or_default(&mut \1, \2)"
//@ spec
//@| requires
//@|     old(self).wf(),
//@|     // a header that is already announced is only announced again under the same height (the caller skips known headers)
//@|     old(self)@.contains_key(header_hash(block_header)) ==> old(self)@[header_hash(block_header)].0 == height,
//@| ensures
//@|     final(self).wf(),
//@|     final(self)@ == old(self)@.insert(header_hash(block_header), (height, block_header)),
//@|     final(self).offered@ == old(self).offered@,
//@ start
//@| proof { axiom_nbh_keys(); }
//@ finish
//@| proof { lemma_nbh_insert(old(self).hash_to_height_and_header@, old(self).height_to_hash@, self.hash_to_height_and_header@, self.height_to_hash@, block_header, height, self.height_to_hash@[height]); }
//@end

// R23: `let i = v.iter().position(|x| p).unwrap();` => a loop that finds the first index with p (definition of Iterator::position)
//@extract file=canister/src/unstable_blocks/next_block_headers.rs in="impl NextBlockHeaders" item="fn remove" props=C10,C14,C20
//@ rewrite R23 "let (\w+) = (\w+)\.iter\(\)\.position\(\|(\w+)\| (\*\w+ == \*\w+)\)\.unwrap\(\);" => "let mut vp_pos: Option<usize> = None;\n                let mut vp_k: usize = 0;\n                while vp_k < \2.len()\n                    invariant_except_break vp_pos is None,\n                    invariant vp_k <= \2.len(), forall|vp_i: int| 0 <= vp_i < vp_k ==> \2@[vp_i] != *block,\n                    ensures vp_pos matches Some(vp_p) ==> vp_p < \2.len() && \2@[vp_p as int] == *block, vp_pos is None ==> forall|vp_i: int| 0 <= vp_i < \2.len() ==> \2@[vp_i] != *block,\n                    decreases \2.len() - vp_k\n                {\n                    let \3 = &\2[vp_k];\n                    if \4 { vp_pos = Some(vp_k); break; }\n                    vp_k = vp_k + 1;\n                }\n                let \1 = vp_pos.unwrap();"
//@ spec
//@| requires old(self).wf(),
//@| ensures
//@|     // never traps (the two unwraps of the body are proof obligations); exactly this header is dropped
//@|     final(self).wf(),
//@|     final(self)@ == old(self)@.remove(*block),
//@|     final(self).offered@ == old(self).offered@,
//@ start
//@| proof { axiom_nbh_keys(); }
//@ finish
//@| proof { lemma_nbh_remove(old(self).hash_to_height_and_header@, old(self).height_to_hash@, self.hash_to_height_and_header@, self.height_to_hash@, *block); }
//@end

// R22: `m.iter().next()` => `m.first_key_value()` (a BTreeMap iterates in ascending key order)
//@extract file=canister/src/unstable_blocks/next_block_headers.rs in="impl NextBlockHeaders" item="fn remove_until_height" props=C03,C20
//@ rewrite R22 "self\.height_to_hash\.iter\(\)\.next\(\)" => "self.height_to_hash.first_key_value()"
//@ rewrite R9 "for height in (\*\w+)\.\." => "let ghost vp_lo: int = \1 as int;\n            for height in \1.."
//@ spec
//@| requires old(self).wf(), until_height < u32::MAX,
//@| ensures
//@|     final(self).wf(),
//@|     // exactly the headers announced at heights <= until_height are dropped
//@|     forall|h: BlockHash| #[trigger] final(self)@.contains_key(h) <==> (old(self)@.contains_key(h) && old(self)@[h].0 > until_height),
//@|     forall|h: BlockHash| #[trigger] final(self)@.contains_key(h) ==> final(self)@[h] == old(self)@[h],
//@|     final(self).offered@ == old(self).offered@,
//@ start
//@| proof { axiom_nbh_keys(); }
//@ loop 1 binder=it
//@| invariant
//@|     self.wf(), until_height < u32::MAX, vp_lo + it.index@ == it.iter.start, nbh_keys_ok(),
//@|     self.offered@ == old(self).offered@,
//@|     forall|ht: Height| #[trigger] self.height_to_hash@.contains_key(ht) ==> ht >= vp_lo + it.index@ || ht > until_height,
//@|     forall|h: BlockHash| #[trigger] self.hash_to_height_and_header@.contains_key(h) <==> (old(self)@.contains_key(h) && (old(self)@[h].0 >= vp_lo + it.index@ || old(self)@[h].0 > until_height)),
//@|     forall|h: BlockHash| #[trigger] self.hash_to_height_and_header@.contains_key(h) ==> self.hash_to_height_and_header@[h] == old(self)@[h],
//@ loopstart 1
//@| let ghost hm0 = self.hash_to_height_and_header@;
//@| let ghost tm0 = self.height_to_hash@;
//@ loop 2 binder=it2
//@| invariant
//@|     nbh_keys_ok(), self.offered@ == old(self).offered@,
//@|     self.height_to_hash@ == tm0.remove(height), nbh_wf(hm0, tm0), tm0.contains_key(height), tm0[height]@ == hash_vec@,
//@|     forall|h: BlockHash| #[trigger] self.hash_to_height_and_header@.contains_key(h) <==> (hm0.contains_key(h) && !nbh_listed_before(hash_vec@, it2.index@ as int, h)),
//@|     forall|h: BlockHash| #[trigger] self.hash_to_height_and_header@.contains_key(h) ==> self.hash_to_height_and_header@[h] == hm0[h],
//@ loopend 2
//@| proof { lemma_nbh_drop_height(hm0, tm0, self.hash_to_height_and_header@, self.height_to_hash@, height); }
//@end

// R22: `m.iter().last().map(|(k, _)| *k)` => `match m.last_key_value() { Some((k, _)) => Some(*k), None => None }`
//@extract file=canister/src/unstable_blocks/next_block_headers.rs in="impl NextBlockHeaders" item="fn get_max_height" props=C14,C20
//@ ret r
//@ rewrite R22 "self\.height_to_hash\.iter\(\)\.last\(\)\.map\(\|\((\w+), _\)\| \*(\w+)\)" => "match self.height_to_hash.last_key_value() { Some((\1, _)) => Some(*\2), None => None }"
//@ spec
//@| requires self.wf(),
//@| ensures r == self.max_height_spec(),
//@ start
//@| proof { axiom_nbh_keys(); }
//@ finish ret=1
//@| proof { lemma_nbh_max(self.hash_to_height_and_header@, self.height_to_hash@, vp_ret); }
//@end

// R17: `o.map(|x| e)` => `match o { Some(x) => Some(e), None => None }`
//@extract file=canister/src/unstable_blocks/next_block_headers.rs in="impl NextBlockHeaders" item="fn get_height" props=C14,C20
//@ ret r
//@ rewrite R17 "self\.hash_to_height_and_header\s*\.get\(hash\)\s*\.map\(\|\((\w+), _\)\| (\w+)\)" => "match self.hash_to_height_and_header.get(hash) { Some((\1, _)) => Some(\2), None => None }"
//@ spec
//@| ensures r.is_some() == self.height_of_spec(*hash).is_some(), r matches Some(p) ==> Some(*p) == self.height_of_spec(*hash),
//@ start
//@| proof { axiom_nbh_keys(); }
//@end
//@extract file=canister/src/unstable_blocks/next_block_headers.rs in="impl NextBlockHeaders" item="fn get_header" props=C10,C20
//@ ret r
//@ rewrite R17 "self\.hash_to_height_and_header\.get\(hash\)\.map\(\|(\w+)\| (&\w+\.1)\)" => "match self.hash_to_height_and_header.get(hash) { Some(\1) => Some(\2), None => None }"
//@ spec
//@| ensures r is Some <==> self@.contains_key(*hash), r matches Some(p) ==> *p == self@[*hash].1,
//@ start
//@| proof { axiom_nbh_keys(); }
//@end
}
