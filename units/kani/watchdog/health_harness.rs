#[cfg(kani)]
mod vp_kani_health {
    use super::*;
    use crate::config::{Canister, Network, SubnetType};

    // a Config with symbolic thresholds and quorum (covers the five shipped configurations, which differ only in these)
    fn any_config() -> (Config, u64, u64, u64) {
        let behind: u64 = kani::any();
        let ahead: u64 = kani::any();
        let min_explorers: u64 = kani::any();
        kani::assume(behind <= 1_000_000 && ahead <= 1_000_000 && min_explorers <= 16);
        let c = Config {
            network: Network::BitcoinMainnet,
            blocks_behind_threshold: behind,
            blocks_ahead_threshold: ahead,
            min_explorers,
            canister: Canister::BitcoinMainnet,
            canister_principal: candid::Principal::anonymous(),
            delay_before_first_fetch_sec: 1,
            interval_between_fetches_sec: 300,
            explorers: vec![],
            subnet_type: SubnetType::System,
        };
        (c, behind, ahead, min_explorers)
    }

    // (1) band + quorum on the real calculate_height_target for N heights. `median` is replaced by a stub returning an
    // ARBITRARY value: the real median (sort + middle element / mean of the two middle elements) is proved for every N by
    // Verus (unit watchdog), and CBMC cannot carry std's sort for more than 3 symbolic elements.
    static mut VP_MEDIAN: Option<u64> = None;
    fn stub_median(_values: &[u64]) -> Option<u64> { unsafe { VP_MEDIAN } }
    fn band<const N: usize>() {
        let behind: u64 = kani::any();
        let ahead: u64 = kani::any();
        let min_explorers: usize = kani::any();
        kani::assume(behind <= 1_000_000 && ahead <= 1_000_000);
        let heights: [u64; N] = kani::any();
        let m: Option<u64> = kani::any();
        // domain of the property: heights (hence their median) above the configured thresholds and below 2^62
        if let Some(x) = m { kani::assume(x >= behind && x < (1u64 << 62)); }
        if N == 0 { kani::assume(m.is_none()); } else { kani::assume(m.is_some()); }
        unsafe { VP_MEDIAN = m; }
        let got = calculate_height_target(&heights, min_explorers, -(behind as i64), ahead as i64);
        let mut want: Option<u64> = None;
        if let Some(x) = m {
            if N >= min_explorers {
                let mut in_band = 0usize;
                let mut j = 0;
                while j < N {
                    if heights[j] >= x - behind && heights[j] <= x + ahead { in_band += 1; }
                    j += 1;
                }
                if in_band >= min_explorers { want = Some(x); }
            }
        }
        assert!(got == want);
        kani::cover!(got.is_some() || N == 0);
    }

    // (2) `compare` around it: calculate_height_target is replaced by a stub that records its arguments and returns an
    // arbitrary answer, so that this harness checks exactly what compare adds: failed fetches are dropped (the heights passed
    // on are the successful ones, in order), the configured thresholds and quorum are passed on, and the status follows from
    // (canister height, target) as the statement says.
    static mut VP_SEEN_LEN: usize = 0;
    static mut VP_SEEN: [u64; 8] = [0; 8];
    static mut VP_SEEN_ARGS: (usize, i64, i64) = (0, 0, 0);
    static mut VP_ANSWER: Option<u64> = None;
    fn stub_target(heights: &[u64], min_explorers: usize, behind: i64, ahead: i64) -> Option<u64> {
        unsafe {
            VP_SEEN_LEN = heights.len();
            let mut i = 0;
            while i < heights.len() && i < 8 {
                VP_SEEN[i] = heights[i];
                i += 1;
            }
            VP_SEEN_ARGS = (min_explorers, behind, ahead);
            VP_ANSWER
        }
    }
    fn compare_wrapper<const K: usize>() {
        let (config, behind, ahead, min_explorers) = any_config();
        let canister_height: Option<u64> = kani::any();
        if let Some(c) = canister_height { kani::assume(c < (1u64 << 62)); }
        let answer: Option<u64> = kani::any();
        if let Some(m) = answer { kani::assume(m < (1u64 << 62)); }
        unsafe { VP_ANSWER = answer; }
        let mut explorers: Vec<BlockInfo> = Vec::new();
        let mut ok = [0u64; K];
        let mut n_ok = 0usize;
        let mut i = 0;
        while i < K {
            let h: Option<u64> = kani::any();
            if let Some(x) = h { ok[n_ok] = x; n_ok += 1; }
            explorers.push(BlockInfo { provider: String::new(), height: h });
            i += 1;
        }
        let got = compare(canister_height, explorers, config);
        unsafe {
            assert!(VP_SEEN_LEN == n_ok);
            let mut j = 0;
            while j < n_ok { assert!(VP_SEEN[j] == ok[j]); j += 1; }
            assert!(VP_SEEN_ARGS == (min_explorers as usize, -(behind as i64), ahead as i64));
        }
        assert!(got.explorer_height == answer);
        assert!(got.canister_height == canister_height);
        let want_status = match (canister_height, answer) {
            (Some(c), Some(m)) => {
                if (c as i128) < (m as i128) - (behind as i128) { HeightStatus::Behind } else if (c as i128) > (m as i128) + (ahead as i128) { HeightStatus::Ahead } else { HeightStatus::Ok }
            }
            _ => HeightStatus::NotEnoughData,
        };
        assert!(got.height_status == want_status);
        kani::cover!(got.height_status == HeightStatus::Ok);
        std::mem::forget(got);
    }

    macro_rules! band_harness {
        ($name:ident, $n:expr) => {
            #[kani::proof]
            #[kani::stub(median, stub_median)]
            #[kani::unwind(12)]
            fn $name() { band::<$n>() }
        };
    }
    band_harness!(c17_band_0, 0);
    band_harness!(c17_band_1, 1);
    band_harness!(c17_band_2, 2);
    band_harness!(c17_band_3, 3);
    band_harness!(c17_band_4, 4);
    band_harness!(c17_band_5, 5);
    band_harness!(c17_band_6, 6);
    band_harness!(c17_band_8, 8);
    macro_rules! compare_harness {
        ($name:ident, $k:expr) => {
            #[kani::proof]
            #[kani::stub(calculate_height_target, stub_target)]
            #[kani::unwind(12)]
            fn $name() { compare_wrapper::<$k>() }
        };
    }
    compare_harness!(c17_compare_0, 0);
    compare_harness!(c17_compare_3, 3);
    compare_harness!(c17_compare_6, 6);
}
