#[cfg(kani)]
mod vp_kani_api_access {
    use super::*;

    // C17: status -> target flag: enabled exactly when the status is Ok, disabled when behind/ahead, no action otherwise
    #[kani::proof]
    fn c17_target_flag() {
        let status = match kani::any::<u8>() % 4 {
            0 => HeightStatus::NotEnoughData,
            1 => HeightStatus::Ok,
            2 => HeightStatus::Ahead,
            _ => HeightStatus::Behind,
        };
        let health = HealthStatus { canister_height: kani::any(), explorer_height: kani::any(), height_diff: kani::any(), height_status: status.clone(), explorers: vec![] };
        let t = calculate_target(health);
        match status {
            HeightStatus::Ok => assert!(t == Some(Flag::Enabled)),
            HeightStatus::Ahead | HeightStatus::Behind => assert!(t == Some(Flag::Disabled)),
            HeightStatus::NotEnoughData => assert!(t.is_none()),
        }
        kani::cover!(t == Some(Flag::Enabled));
    }
}
