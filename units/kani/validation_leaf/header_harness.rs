#[cfg(kani)]
mod vp_kani_header {
    use super::*;

    // C11: "at most two hours past the current time" — the contract the Verus unit `valid` assumes for this function
    // (std::time::Duration arithmetic is outside Verus), on the real function over the full domain
    #[kani::proof]
    fn c11_two_hour_rule() {
        let t: u32 = kani::any();
        let secs: u64 = kani::any();
        let nanos: u32 = kani::any();
        kani::assume(secs < 0x7fff_ffff_ffff_0000 && nanos < 1_000_000_000);
        let r = timestamp_is_at_most_2h_in_future(Duration::from_secs(t as u64), Duration::new(secs, nanos));
        assert!(r.is_ok() == ((t as u64) <= secs + 7200));
        if let Err(e) = r {
            assert!(e == ValidateHeaderError::HeaderIsTooFarInFuture { block_time: t as u64, max_allowed_time: secs + 7200 });
        }
        kani::cover!(t as u64 == secs + 7200);
    }
}
