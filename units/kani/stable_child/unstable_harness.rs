#[cfg(kani)]
mod vp_kani_stable_child {
    use super::*;
    use crate::blocktree::vp_kani_tree::*;

    // the adaptive depth bound is replaced by ANY value its proved contract admits (see c03_depth_bound_contract):
    // min(threshold, 499) <= D <= 500
    static mut VP_D: u64 = 0;
    fn stub_depth_bound(_n: usize, _t: u32) -> Depth {
        Depth::new(unsafe { VP_D })
    }
    // normalized_stability_threshold() is proved by Verus (unit core) to return difficulty(anchor) x stability_threshold;
    // it is replaced by an arbitrary value so that CBMC does not have to reason about a 128-bit multiplier
    static mut VP_T: u128 = 0;
    fn stub_normalized_threshold(_b: &UnstableBlocks) -> u128 { unsafe { VP_T } }
    // logging is irrelevant to the decision and dominates CBMC's cost
    fn stub_print(_msg: &str) {}
    fn stub_format(_args: std::fmt::Arguments<'_>) -> String { String::new() }
    // the block count feeds only the (stubbed) adaptive depth bound; its recursion over the tree is irrelevant here
    fn stub_blocks_count(_blocks: &UnstableBlocks) -> usize { kani::any() }

    // C03 decision rule, both directions, on the real get_stable_child, for an anchor with N children whose subtrees are
    // arbitrary (represented by their proved depth / difficulty-based depth).
    // mode 0: mainnet, both directions; mode 1: testnet/regtest, 'never early'; mode 2: testnet/regtest, 'never withheld'
    fn rule<const N: usize, const MODE: u8>() {
        let net = if MODE == 0 { Network::Mainnet } else if kani::any() { Network::Testnet } else { Network::Regtest };
        let threshold: u32 = kani::any();
        kani::assume(threshold >= 1);
        let anchor_diff: u128 = 1;
        // t = difficulty(anchor) x threshold: any value >= threshold (difficulty >= 1)
        let t: u128 = kani::any();
        kani::assume(t >= threshold as u128 && t < (1u128 << 126));
        unsafe { VP_T = t; }
        let bound: u64 = kani::any();
        kani::assume(bound >= (threshold.min(499) as u64) && bound <= 500);
        unsafe { VP_D = bound; }

        let cache = mk_cache(net);
        let mut dbd = [0u128; N];
        let mut depth = [0u64; N];
        let mut children = Vec::new();
        let mut i = 0;
        while i < N {
            dbd[i] = kani::any();
            kani::assume(dbd[i] >= 1 && dbd[i] < (1u128 << 126));
            depth[i] = kani::any();
            kani::assume(depth[i] >= 1 && depth[i] < (1u64 << 32));
            unsafe { VP_CHILD_DBD[i] = dbd[i]; VP_CHILD_DEPTH[i] = depth[i]; }
            children.push(mk_tree(mk_block(&cache, 1, 10 + i as u8), vec![]));
            i += 1;
        }
        let tree = mk_tree(mk_block(&cache, anchor_diff, 1), children);
        register_children(&tree);
        let blocks = UnstableBlocks {
            stability_threshold: threshold,
            tree,
            outpoints_cache: OutPointsCache::new(),
            network: net,
            next_block_headers: NextBlockHeaders::default(),
            tip_depths_cache: vec![],
        };
        register_children(&blocks.tree);

        let got = get_stable_child(&blocks);

        // oracle, written from the statement
        let testnet_like = net == Network::Testnet || net == Network::Regtest;
        let mut heaviest = 0; // index of the (last) child with the greatest accumulated difficulty
        let mut c = 0;
        while c < N {
            if dbd[c] >= dbd[heaviest] { heaviest = c; }
            c += 1;
        }
        let mut some_by_difficulty = false;
        let mut heaviest_by_depth = false;
        let mut ok_for_got = false;
        c = 0;
        while c < N {
            // difficulty rule: carries >= threshold x difficulty(anchor) and leads EVERY sibling by at least as much
            let mut by_difficulty = dbd[c] >= t;
            // depth rule (testnet/regtest): reaches the adaptive bound and exceeds EVERY other child's depth by that bound
            let mut by_depth = testnet_like && depth[c] >= bound;
            let mut s = 0;
            while s < N {
                if s != c {
                    by_difficulty = by_difficulty && dbd[c] >= dbd[s] && dbd[c] - dbd[s] >= t;
                    by_depth = by_depth && depth[c] >= depth[s] && depth[c] - depth[s] >= bound;
                }
                s += 1;
            }
            if by_difficulty { some_by_difficulty = true; }
            if by_depth && c == heaviest { heaviest_by_depth = true; }
            if (by_difficulty || by_depth) && got == Some(c) { ok_for_got = true; }
            c += 1;
        }
        // never early: the anchor advances only to a child that satisfies one of the two rules
        if MODE != 2 && got.is_some() { assert!(ok_for_got); }
        // never withheld: a child satisfying the difficulty rule, or the heaviest child satisfying the depth rule
        // (the child on the served chain), makes the anchor advance
        if MODE != 1 && some_by_difficulty { assert!(got.is_some()); }
        if MODE != 1 && heaviest_by_depth { assert!(got.is_some()); }
        kani::cover!(N == 0 || got.is_some());
        kani::cover!(got.is_none());
        std::mem::forget(blocks); // the recursive drop glue of the tree is not under test
    }

    macro_rules! rule_harness {
        ($name:ident, $n:expr, $mode:expr) => {
            #[kani::proof]
            #[kani::stub(testnet_unstable_max_depth_difference, stub_depth_bound)]
            #[kani::stub(crate::runtime::print, stub_print)]
            #[kani::stub(alloc::fmt::format, stub_format)]
            #[kani::stub(blocks_count, stub_blocks_count)]
            #[kani::stub(GenericUnstableBlocks::<BlockTree<CachedBlock>>::normalized_stability_threshold, stub_normalized_threshold)]
            #[kani::stub(crate::blocktree::BlockTree::depth, crate::blocktree::vp_kani_tree::stub_depth)]
            #[kani::stub(crate::blocktree::BlockTree::difficulty_based_depth, crate::blocktree::vp_kani_tree::stub_dbd)]
            #[kani::unwind(6)]
            fn $name() { rule::<$n, $mode>() }
        };
    }
    rule_harness!(c03_stable_child_mainnet_0, 0, 0);
    rule_harness!(c03_stable_child_mainnet_1, 1, 0);
    rule_harness!(c03_stable_child_mainnet_2, 2, 0);
    rule_harness!(c03_stable_child_mainnet_3, 3, 0);
    rule_harness!(c03_stable_child_mainnet_4, 4, 0);
    rule_harness!(c03_stable_child_testnet_early_1, 1, 1);
    rule_harness!(c03_stable_child_testnet_early_2, 2, 1);
    rule_harness!(c03_stable_child_testnet_early_3, 3, 1);
    rule_harness!(c03_stable_child_testnet_early_4, 4, 1);
    rule_harness!(c03_stable_child_testnet_withheld_1, 1, 2);
    rule_harness!(c03_stable_child_testnet_withheld_2, 2, 2);
    rule_harness!(c03_stable_child_testnet_withheld_3, 3, 2);
    rule_harness!(c03_stable_child_testnet_withheld_4, 4, 2);
}
