#[cfg(kani)]
pub(crate) mod vp_kani_tree {
    // Harness support: children of the anchor are represented by the two numbers get_stable_child reads from them,
    // depth() and difficulty_based_depth(). Both functions are proved by Verus (unit core) to return the maximum over
    // all branches of the subtree, so replacing them by arbitrary values covers EVERY subtree shape below a child.
    use super::*;
    use bitcoin::hashes::Hash;

    #[derive(Debug)]
    pub struct NoCache(pub ic_btc_interface::Network);
    impl BlocksCache for NoCache {
        fn insert(&mut self, _block_hash: BlockHash, _block: Block) -> bool { unimplemented!() }
        fn remove(&mut self, _block_hash: &BlockHash) -> bool { unimplemented!() }
        fn get(&self, _block_hash: &BlockHash) -> Option<Block> { unimplemented!() }
        fn is_empty(&self) -> bool { unimplemented!() }
        fn len(&self) -> u64 { unimplemented!() }
        fn network(&self) -> ic_btc_interface::Network { self.0 }
        fn collect(&self) -> std::collections::BTreeMap<BlockHash, Block> { unimplemented!() }
    }
    pub type VpCache = Cache;
    pub fn mk_cache(n: ic_btc_interface::Network) -> Cache {
        Rc::new(RefCell::new(Box::new(NoCache(n))))
    }
    pub fn mk_block(cache: &Cache, difficulty: u128, id: u8) -> CachedBlock {
        let header = Header {
            version: bitcoin::block::Version::ONE,
            prev_blockhash: bitcoin::BlockHash::all_zeros(),
            merkle_root: bitcoin::TxMerkleNode::all_zeros(),
            time: 0,
            bits: bitcoin::CompactTarget::from_consensus(0),
            nonce: id as u32,
        };
        CachedBlock { cache: cache.clone(), difficulty, block_hash: BlockHash::from(vec![id; 32]), header, fee_rates: None, utxo_delta: 0 }
    }
    pub fn mk_tree(root: CachedBlock, children: Vec<BlockTree<CachedBlock>>) -> BlockTree<CachedBlock> {
        BlockTree { root, children }
    }

    pub const VP_MAX_CHILDREN: usize = 4;
    pub static mut VP_CHILD_PTR: [usize; VP_MAX_CHILDREN] = [0; VP_MAX_CHILDREN];
    pub static mut VP_CHILD_DEPTH: [u64; VP_MAX_CHILDREN] = [0; VP_MAX_CHILDREN];
    pub static mut VP_CHILD_DBD: [u128; VP_MAX_CHILDREN] = [0; VP_MAX_CHILDREN];

    fn child_index<Block>(t: &BlockTree<Block>) -> usize {
        let p = t as *const BlockTree<Block> as usize;
        let mut i = 0;
        while i < VP_MAX_CHILDREN {
            if unsafe { VP_CHILD_PTR[i] } == p {
                return i;
            }
            i += 1;
        }
        panic!("depth()/difficulty_based_depth() called on a node that is not a child of the anchor");
    }
    pub fn stub_depth<Block>(t: &BlockTree<Block>) -> Depth {
        Depth::new(unsafe { VP_CHILD_DEPTH[child_index(t)] })
    }
    pub fn stub_dbd<Block: ChainBlock>(t: &BlockTree<Block>) -> DifficultyBasedDepth {
        DifficultyBasedDepth::new(unsafe { VP_CHILD_DBD[child_index(t)] })
    }
    pub fn register_children(t: &BlockTree<CachedBlock>) {
        let mut i = 0;
        while i < t.children.len() {
            unsafe { VP_CHILD_PTR[i] = &t.children[i] as *const BlockTree<CachedBlock> as usize; }
            i += 1;
        }
    }
}
