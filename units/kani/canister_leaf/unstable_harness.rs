#[cfg(kani)]
mod vp_kani_unstable {
    use super::*;

    // C03: the documented adaptive depth bound, full usize x u32 domain (f64 arithmetic is bit-precise in CBMC)
    #[kani::proof]
    fn c03_depth_bound_contract() {
        let n: usize = kani::any();
        let t: u32 = kani::any();
        let d = testnet_unstable_max_depth_difference(n, t).get();
        let lo = t.min(499) as u64;
        assert!(lo <= d && d <= 500);
        if n >= 1500 { assert!(d == lo); }
        if n == 0 { assert!(d == 500); }
        kani::cover!(d == 250);
    }

    // monotone: more unstable blocks never enlarge the bound
    #[kani::proof]
    fn c03_depth_bound_monotone() {
        let n1: usize = kani::any();
        let n2: usize = kani::any();
        let t: u32 = kani::any();
        kani::assume(n1 <= n2);
        let d1 = testnet_unstable_max_depth_difference(n1, t).get();
        let d2 = testnet_unstable_max_depth_difference(n2, t).get();
        assert!(d2 <= d1);
        kani::cover!(d2 < d1);
    }
}
