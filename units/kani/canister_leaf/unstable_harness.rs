#[cfg(kani)]
mod vp_kani_unstable {
    use super::*;

    // C03: the documented adaptive depth bound, full usize x u32 domain (f64 arithmetic is bit-precise in CBMC)
    #[kani::proof]
    fn c03_depth_bound_contract() {
        let n: usize = kani::any();
        let t: u32 = kani::any();
        let d = testnet_unstable_max_depth_difference(n, t).get();
        let lo = t.min(499) as u64;
        assert!(lo <= d && d <= 500);
        if n >= 1500 { assert!(d == lo); }
        if n == 0 { assert!(d == 500); }
        kani::cover!(d == 250);
    }

    // in between the end points the bound is the linear interpolation 500 - (n / 1500) x (500 - lo), rounded to the nearest
    // integer (checked in integers, scaled by 1500: |1500 d - (1500 x 500 - n x (500 - lo))| <= 750, +1 for the f64 division)
    #[kani::proof]
    fn c03_depth_bound_interpolation() {
        let n16: u16 = kani::any();
        kani::assume(n16 < 1500);
        let n = n16 as usize;
        let t: u32 = kani::any();
        let d = testnet_unstable_max_depth_difference(n, t).get();
        let lo = t.min(499) as u64;
        let exact = 1500u64 * 500 - (n as u64) * (500 - lo);
        let got = 1500u64 * d;
        let diff = if got >= exact { got - exact } else { exact - got };
        assert!(diff <= 751);
        kani::cover!(d == 250);
    }

    // monotone: more unstable blocks never enlarge the bound
    #[kani::proof]
    fn c03_depth_bound_monotone() {
        let n1: usize = kani::any();
        let n2: usize = kani::any();
        let t: u32 = kani::any();
        kani::assume(n1 <= n2);
        let d1 = testnet_unstable_max_depth_difference(n1, t).get();
        let d2 = testnet_unstable_max_depth_difference(n2, t).get();
        assert!(d2 <= d1);
        kani::cover!(d2 < d1);
    }
}
