#[cfg(kani)]
mod vp_kani_types {
    use super::*;
    use ic_stable_structures::storable::Blob;
    use ic_stable_structures::Storable as SS;
    use std::ops::RangeBounds;

    fn any_outpoint() -> OutPoint {
        let t: [u8; 32] = kani::any();
        OutPoint::new(Txid::from(t.to_vec()), kani::any())
    }

    // ASCII address text of exactly N bytes (real addresses are base58 / bech32, i.e. ASCII)
    fn any_address<const N: usize>() -> Address {
        let b: [u8; N] = kani::any();
        let mut i = 0;
        while i < N {
            kani::assume(b[i] < 128);
            i += 1;
        }
        // SAFETY: all bytes are ASCII (assumed above); avoids symbolic UTF-8 validation in the harness itself
        Address(unsafe { String::from_utf8_unchecked(b.to_vec()) })
    }

    // txid with three symbolic bytes (first, second, last), the rest zero: cheap variant for the quick tier
    fn any_outpoint_sparse() -> OutPoint {
        let mut t = [0u8; 32];
        t[0] = kani::any();
        t[1] = kani::any();
        t[31] = kani::any();
        OutPoint::new(Txid::from(t.to_vec()), kani::any())
    }

    type KeyBlob = Blob<{ AddressUtxo::BOUND.max_size() as usize }>;

    fn key_blob(k: &AddressUtxo) -> KeyBlob {
        Blob::try_from(SS::to_bytes(k).as_ref()).unwrap()
    }

    // ---- C06: Page codec -----------------------------------------------------------------
    // every 72-byte string decodes (no trap), the decoded fields are the documented slices, and
    // to_bytes(from_bytes(b)) == b
    #[kani::proof]
    #[kani::unwind(80)]
    fn c06_page_72_total_and_roundtrip() {
        let b: [u8; 72] = kani::any();
        let p = Page::from_bytes(b.to_vec()).unwrap();
        let h = u32::from_be_bytes([b[32] ^ 255, b[33] ^ 255, b[34] ^ 255, b[35] ^ 255]);
        assert!(p.height == h);
        assert!(p.outpoint.vout == u32::from_le_bytes([b[68], b[69], b[70], b[71]]));
        let back = p.to_bytes();
        assert!(back.len() == 72);
        let i: usize = kani::any();
        kani::assume(i < 72);
        assert!(back[i] == b[i]);
        kani::cover!(h == 7);
    }

    // to_bytes ∘ from_bytes on structured pages: from_bytes(to_bytes(p)) == p
    #[kani::proof]
    #[kani::unwind(80)]
    fn c06_page_encode_decode() {
        let t: [u8; 32] = kani::any();
        let p = Page { tip_block_hash: BlockHash::from(t.to_vec()), height: kani::any(), outpoint: any_outpoint() };
        let q = Page::from_bytes(p.to_bytes()).unwrap();
        assert!(q.height == p.height);
        assert!(q.outpoint == p.outpoint);
        assert!(q.tip_block_hash == p.tip_block_hash);
        kani::cover!(p.height == 3);
    }

    // ---- C01: stable index key codec ------------------------------------------------------
    fn key_roundtrip<const N: usize>() {
        let k = AddressUtxo { address: any_address::<N>(), height: kani::any(), outpoint: any_outpoint() };
        let bytes = SS::to_bytes(&k).to_vec();
        assert!(bytes.len() == N + 40);
        let back = <AddressUtxo as SS>::from_bytes(std::borrow::Cow::Owned(bytes));
        assert!(back == k);
        kani::cover!(k.height == 5);
    }
    #[kani::proof]
    #[kani::unwind(48)]
    fn c01_key_roundtrip_len1() { key_roundtrip::<1>() }
    #[kani::proof]
    #[kani::unwind(48)]
    fn c01_key_roundtrip_len3() { key_roundtrip::<3>() }

    // range(A, None): complete for A; a key of B != A can lie inside only if A is a proper prefix of B
    // (so the range alone does not isolate an address: the equality filter on the decoded address is load-bearing);
    // decoding a key inside the range yields B exactly, so that filter is exact.
    fn range_facts<const NA: usize, const NB: usize>() {
        let a = any_address::<NA>();
        let b = any_address::<NB>();
        let k = AddressUtxo { address: b.clone(), height: kani::any(), outpoint: any_outpoint_sparse() };
        // heights below 2^31: the first key byte after the address text is then >= 0x80, never an ASCII character
        // (without this bound a key of a SHORTER address with an astronomically large height can also fall into the range)
        kani::assume(k.height < 0x8000_0000);
        let r = AddressUtxoRange::new(&a, &None);
        let inside = r.contains(&key_blob(&k));
        if a == b {
            assert!(inside);
        }
        if inside {
            assert!(b.0.as_bytes().len() >= NA && b.0.as_bytes()[..NA] == a.0.as_bytes()[..]);
        }
        kani::cover!(inside);
    }
    #[kani::proof]
    #[kani::unwind(100)]
    fn c01_range_same_len2() { range_facts::<2, 2>() }
    #[kani::proof]
    #[kani::unwind(100)]
    fn c01_range_prefix_2_3() { range_facts::<2, 3>(); }
    #[kani::proof]
    #[kani::unwind(100)]
    fn c01_range_shorter_3_2() { range_facts::<3, 2>(); }

    // byte order of one address's keys == (height descending, then OutPoint::to_bytes order);
    // with Some(offset) the range is exactly the keys >= the offset key in that order
    fn key_order_and_offset(o_1: OutPoint, o_2: OutPoint) {
        let a = any_address::<2>();
        let k1 = AddressUtxo { address: a.clone(), height: kani::any(), outpoint: o_1 };
        let k2 = AddressUtxo { address: a.clone(), height: kani::any(), outpoint: o_2 };
        let o1 = SS::to_bytes(&k1.outpoint).to_vec();
        let o2 = SS::to_bytes(&k2.outpoint).to_vec();
        let expected = match k2.height.cmp(&k1.height) {   // descending height
            std::cmp::Ordering::Equal => o1.cmp(&o2),
            other => other,
        };
        assert!(key_blob(&k1).cmp(&key_blob(&k2)) == expected);
        let r = AddressUtxoRange::new(&a, &Some(Utxo { height: k2.height, outpoint: k2.outpoint.clone(), value: 0 }));
        assert!(r.contains(&key_blob(&k1)) == (expected != std::cmp::Ordering::Less));
        kani::cover!(expected == std::cmp::Ordering::Less);
        kani::cover!(expected == std::cmp::Ordering::Greater);
    }

    #[kani::proof]
    #[kani::unwind(100)]
    fn c01_key_order_and_offset() { key_order_and_offset(any_outpoint(), any_outpoint()) }
    #[kani::proof]
    #[kani::unwind(100)]
    fn c01_key_order_and_offset_sparse() { key_order_and_offset(any_outpoint_sparse(), any_outpoint_sparse()) }

    // Utxo order used for the unstable source and for the page offset: height descending, then the outpoint in the byte
    // order of its stable encoding (= the order of the stable address index, so that a page offset keeps its meaning when
    // a block stabilises between two page requests: C06), then value
    #[kani::proof]
    #[kani::unwind(40)]
    fn c01_utxo_cmp_order() {
        let a = Utxo { height: kani::any(), outpoint: any_outpoint(), value: kani::any() };
        let b = Utxo { height: kani::any(), outpoint: any_outpoint(), value: kani::any() };
        let c = a.cmp(&b);
        assert!(b.cmp(&a) == c.reverse());
        if a.height > b.height { assert!(c == std::cmp::Ordering::Less); }
        if a.height == b.height && a.outpoint != b.outpoint {
            assert!(c == SS::to_bytes(&a.outpoint).to_vec().cmp(&SS::to_bytes(&b.outpoint).to_vec()));
        }
        if a.height == b.height && a.outpoint == b.outpoint { assert!(c == a.value.cmp(&b.value)); }
        kani::cover!(c == std::cmp::Ordering::Equal);
    }
}
