#[cfg(kani)]
mod vp_kani_multi_iter {
    use super::*;

    // C01 / C06: the merge of the stable and the unstable UTXO streams. For two sorted inputs the output is sorted and
    // contains every element of both exactly once (checked through the multiplicity of an arbitrary value).
    fn merge<const LA: usize, const LB: usize>() {
        let a: [u8; LA] = kani::any();
        let b: [u8; LB] = kani::any();
        let mut i = 1;
        while i < LA { kani::assume(a[i - 1] <= a[i]); i += 1; }
        i = 1;
        while i < LB { kani::assume(b[i - 1] <= b[i]); i += 1; }
        let v: u8 = kani::any();
        let mut want = 0usize;
        i = 0;
        while i < LA { if a[i] == v { want += 1; } i += 1; }
        i = 0;
        while i < LB { if b[i] == v { want += 1; } i += 1; }

        let mut it = MultiIter::new(IntoIterator::into_iter(a), IntoIterator::into_iter(b));
        let mut n = 0usize;
        let mut got = 0usize;
        let mut prev: Option<u8> = None;
        while n < LA + LB + 1 {
            match it.next() {
                None => break,
                Some(x) => {
                    if let Some(p) = prev { assert!(p <= x); }
                    if x == v { got += 1; }
                    prev = Some(x);
                    n += 1;
                }
            }
        }
        assert!(n == LA + LB);
        assert!(it.next().is_none());
        assert!(got == want);
        kani::cover!(LA + LB == 0 || want > 0);
    }
    #[kani::proof]
    #[kani::unwind(8)]
    fn c01_merge_0_0() { merge::<0, 0>() }
    #[kani::proof]
    #[kani::unwind(8)]
    fn c01_merge_2_0() { merge::<2, 0>() }
    #[kani::proof]
    #[kani::unwind(8)]
    fn c01_merge_0_2() { merge::<0, 2>() }
    #[kani::proof]
    #[kani::unwind(8)]
    fn c01_merge_2_2() { merge::<2, 2>() }
    #[kani::proof]
    #[kani::unwind(8)]
    fn c01_merge_3_2() { merge::<3, 2>() }
}
