//@unit name=valid
// U-valid: validation/src/header/mod.rs (all of it), validation/src/constants.rs, validation/src/block/mod.rs.
// TRUSTED PRELUDE: stand-ins for rust-bitcoin types (uninterpreted algebra only).
use vstd::prelude::*;
verus! {
// [trusted:assumed-spec] u32::abs_diff / u64::abs_diff are the absolute difference (not used by the current tree; keeps rewrites of time arithmetic decidable)
pub assume_specification[u32::abs_diff](a: u32, b: u32) -> (r: u32)
    ensures r == if a >= b { a - b } else { b - a },
;
pub assume_specification[u64::abs_diff](a: u64, b: u64) -> (r: u64)
    ensures r == if a >= b { a - b } else { b - a },
;

use vstd::std_specs::cmp::{OrdSpec, PartialOrdSpec};
use core::cmp::Ordering;
use std::collections::BTreeSet;

    // [trusted:stand-in] bitcoin::Network — same five variants as bitcoin-dogecoin 0.32.7
    #[derive(Clone, Copy, PartialEq, Eq, Structural)]
    enum Network { Bitcoin, Testnet, Testnet4, Signet, Regtest }
    // [trusted:stand-in] bitcoin::BlockHash / TxMerkleNode / Txid — values with equality only
    #[derive(Clone, Copy, PartialEq, Eq, Structural)]
    struct BlockHash(u64);
    // [trusted:stand-in] bitcoin::CompactTarget — value with equality
    #[derive(Clone, Copy, PartialEq, Eq, Structural)]
    struct CompactTarget(u32);
    // [trusted:stand-in] bitcoin::Target (U256) — totally ordered value; the order is that of the wrapped integer
    #[derive(Clone, Copy, PartialEq, Eq, PartialOrd, Ord, Structural)]
    struct Target(u64);

        // [trusted:stand-in] bitcoin::block::Header — the six consensus fields
        #[derive(Clone, Copy, PartialEq, Eq, Structural)]
        struct Header { version: i32, prev_blockhash: BlockHash, merkle_root: u64, time: u32, bits: CompactTarget, nonce: u32 }
        enum ValidationError { BadProofOfWork, BadTarget, Other }
        impl Header {
            uninterp spec fn target_spec(&self) -> Target;
            uninterp spec fn hash_spec(&self) -> BlockHash;
            // `self.target().is_met_by(self.block_hash())`
            uninterp spec fn work_ok(&self) -> bool;
            // [trusted:assumed-spec] Header::target = Target::from_compact(self.bits) (rust-bitcoin)
            #[verifier::external_body]
            fn target(&self) -> (r: Target)
                ensures r == self.target_spec(), r == Target::from_compact_spec(self.bits),
            { unimplemented!() }
            // [trusted:assumed-spec] Header::block_hash (double SHA-256 of the 80 bytes) — uninterpreted
            #[verifier::external_body]
            fn block_hash(&self) -> (r: BlockHash)
                ensures r == self.hash_spec(),
            { unimplemented!() }
            // [trusted:assumed-spec] Header::validate_pow(t): BadTarget if t != self.target(); else BadProofOfWork unless the hash meets it (rust-bitcoin block.rs:119)
            #[verifier::external_body]
            fn validate_pow(&self, t: Target) -> (r: Result<BlockHash, ValidationError>)
                ensures
                    r.is_ok() <==> (t == self.target_spec() && self.work_ok()),
                    r matches Err(e) ==> (t != self.target_spec() ==> e is BadTarget) && (t == self.target_spec() ==> e is BadProofOfWork),
            { unimplemented!() }
        }
    impl Target {
        uninterp spec fn from_compact_spec(c: CompactTarget) -> Target;
        // [trusted:assumed-spec] Target::from_compact — uninterpreted function of the bits
        #[verifier::external_body]
        fn from_compact(c: CompactTarget) -> (r: Target)
            ensures r == Self::from_compact_spec(c),
        { unimplemented!() }
        // [trusted:stand-in] Target::MAX_ATTAINABLE_* — four uninterpreted constants
        uninterp spec fn max_attainable(n: Network) -> Target;
        #[verifier::external_body]
        fn max_mainnet() -> (r: Target) ensures r == Self::max_attainable(Network::Bitcoin) { unimplemented!() }
        #[verifier::external_body]
        fn max_testnet() -> (r: Target) ensures r == Self::max_attainable(Network::Testnet) { unimplemented!() }
        #[verifier::external_body]
        fn max_regtest() -> (r: Target) ensures r == Self::max_attainable(Network::Regtest) { unimplemented!() }
        #[verifier::external_body]
        fn max_signet() -> (r: Target) ensures r == Self::max_attainable(Network::Signet) { unimplemented!() }
    }
    impl CompactTarget {
        // the 2016-block retarget with the 4x clamp and the network limit lives in rust-bitcoin (pow.rs:451): uninterpreted
        uninterp spec fn next_work_required_spec(last: CompactTarget, timespan: u64, network: Network) -> CompactTarget;
        // [trusted:assumed-spec] CompactTarget::from_next_work_required — uninterpreted (256-bit arithmetic and 4x clamp are rust-bitcoin's)
        #[verifier::external_body]
        fn from_next_work_required(last: CompactTarget, timespan: u64, network: Network) -> (r: CompactTarget)
            ensures r == Self::next_work_required_spec(last, timespan, network),
        { unimplemented!() }
        #[verifier::external_body]
        fn from_consensus(bits: u32) -> (r: CompactTarget)
            ensures r == CompactTarget(bits),
        { unimplemented!() }
    }

// paths used by the extracted code (`bitcoin::block::ValidationError::…`)
mod bitcoin {
    pub(crate) use super::{Network, BlockHash, CompactTarget, Target};
    pub(crate) mod block {
        pub(crate) use super::super::{Header, ValidationError};
    }
}


// [trusted:axioms] derive(PartialOrd) on the Target stand-in compares the wrapped integer
mod ax {
    use vstd::prelude::*;
    use super::*;
    use vstd::std_specs::cmp::{OrdSpec, PartialOrdSpec};
    use core::cmp::Ordering;
    pub(crate) open spec fn ord_int(a: int, b: int) -> Ordering {
        if a < b { Ordering::Less } else if a == b { Ordering::Equal } else { Ordering::Greater }
    }
    #[verifier::external_body]
    pub(crate) broadcast proof fn axiom_target_ord(a: Target, b: Target)
        ensures
            Target::obeys_partial_cmp_spec(),
            #[trigger] a.partial_cmp_spec(&b) == Some(ord_int(a.0 as int, b.0 as int)),
    {}
}
broadcast use ax::axiom_target_ord;

spec fn leq_u32() -> spec_fn(u32, u32) -> bool { |a: u32, b: u32| a <= b }

// [trusted:assumed-spec] <[T]>::sort_unstable leaves the sorted permutation (unique for a total order); for u32 it is sort_by(<=)
pub uninterp spec fn sorted_of<T>(s: Seq<T>) -> Seq<T>;
pub assume_specification<T: Ord>[<[T]>::sort_unstable](v: &mut [T])
    ensures final(v)@ == sorted_of(old(v)@),
;
#[verifier::external_body]
proof fn axiom_sorted_u32(s: Seq<u32>)
    ensures sorted_of(s) == s.sort_by(leq_u32()), sorted_of(s).len() == s.len(),
{}

// [trusted:stand-in] std::time::Duration — whole seconds + nanoseconds; only from_secs/as_secs are used in verified code
#[derive(Clone, Copy)]
struct Duration { secs: u64, nanos: u32 }
impl Duration {
    fn from_secs(s: u64) -> (r: Duration) ensures r.secs == s, r.nanos == 0 { Duration { secs: s, nanos: 0 } }
    fn as_secs(&self) -> (r: u64) ensures r == self.secs { self.secs }
}

type BlockHeight = u32;

fn vp_assert(b: bool)
    requires b,
{}

//@extract file=validation/src/constants.rs item="const DIFFICULTY_ADJUSTMENT_INTERVAL" props=C11
//@end
//@extract file=validation/src/constants.rs item="const TEN_MINUTES" props=C11
//@end
//@extract file=validation/src/constants.rs item="fn max_target" props=C11
//@ ret r
//@ rewrite R3 "Target::MAX_ATTAINABLE_MAINNET" => "Target::max_mainnet()"
//@ rewrite R3 "Target::MAX_ATTAINABLE_TESTNET" => "Target::max_testnet()"
//@ rewrite R3 "Target::MAX_ATTAINABLE_REGTEST" => "Target::max_regtest()"
//@ rewrite R3 "Target::MAX_ATTAINABLE_SIGNET" => "Target::max_signet()"
//@ spec
//@| ensures r == smax_target(*network),
//@end
//@extract file=validation/src/constants.rs item="fn no_pow_retargeting" props=C11
//@ ret r
//@ spec
//@| ensures r == (*network == Network::Regtest),
//@end
//@extract file=validation/src/constants.rs item="fn pow_limit_bits" props=C11
//@ ret r
//@ spec
//@| ensures r == spow_limit_bits(*network),
//@end

//@extract file=validation/src/header/mod.rs item="enum ValidateHeaderError"
//@end

// ---------------------------------------------------------------------------------------
// SPEC written from the statement of C11 (Bitcoin consensus header rules)
// ---------------------------------------------------------------------------------------
// network maximum target: testnet4 shares testnet's
spec fn smax_target(n: Network) -> Target {
    match n {
        Network::Bitcoin => Target::max_attainable(Network::Bitcoin),
        Network::Testnet | Network::Testnet4 => Target::max_attainable(Network::Testnet),
        Network::Regtest => Target::max_attainable(Network::Regtest),
        Network::Signet => Target::max_attainable(Network::Signet),
    }
}
spec fn spow_limit_bits(n: Network) -> CompactTarget {
    match n {
        Network::Bitcoin => CompactTarget(0x1d00ffffu32),
        Network::Testnet | Network::Testnet4 => CompactTarget(0x1d00ffffu32),
        Network::Regtest => CompactTarget(0x207fffffu32),
        Network::Signet => CompactTarget(0x1e0377aeu32),
    }
}
spec fn is_testnet_like(n: Network) -> bool {
    n == Network::Testnet || n == Network::Testnet4 || n == Network::Regtest
}

// A header chain c[0..=H]: c[0] is the initial header, H = c.len()-1 the height of the tip the candidate extends.
// [assumption, stated] block hashes are injective along the chain; heights < 2^32-1; timestamps < 2^32-1200
spec fn chain_wf(c: Seq<Header>) -> bool {
    &&& 1 <= c.len() < u32::MAX
    &&& forall|i: int, j: int| 0 <= i < c.len() && 0 <= j < c.len() && #[trigger] c[i].hash_spec() == #[trigger] c[j].hash_spec() ==> i == j
    &&& forall|i: int| 0 <= i < c.len() - 1 ==> (#[trigger] c[i + 1]).prev_blockhash == c[i].hash_spec()
    &&& forall|i: int| 0 <= i < c.len() ==> (#[trigger] c[i]).time < u32::MAX - 1200
}
spec fn lookup_hash(c: Seq<Header>, h: BlockHash) -> Option<Header> {
    if exists|i: int| 0 <= i < c.len() && (#[trigger] c[i]).hash_spec() == h {
        let i = choose|i: int| 0 <= i < c.len() && (#[trigger] c[i]).hash_spec() == h;
        Some(c[i])
    } else { None }
}
proof fn lemma_lookup(c: Seq<Header>, i: int)
    requires chain_wf(c), 0 <= i < c.len(),
    ensures lookup_hash(c, c[i].hash_spec()) == Some(c[i]),
{
    let h = c[i].hash_spec();
    let j = choose|j: int| 0 <= j < c.len() && (#[trigger] c[j]).hash_spec() == h;
    assert(c[j].hash_spec() == c[i].hash_spec());
}

// timestamps of the k blocks preceding the candidate, most recent first
spec fn pred_times(c: Seq<Header>, k: int) -> Seq<u32> {
    Seq::new(k as nat, |i: int| c[c.len() - 1 - i].time)
}
spec fn n_preds(c: Seq<Header>) -> int { if c.len() < 11 { c.len() as int } else { 11 } }
// median of the up to 11 preceding timestamps (element len/2 of the sorted list)
spec fn median_time_past(c: Seq<Header>) -> u32 {
    let t = pred_times(c, n_preds(c)).sort_by(leq_u32());
    t[t.len() as int / 2]
}

// walk back from height k to the last block that is not minimum-difficulty or sits on a retarget boundary
spec fn walk_back(n: Network, c: Seq<Header>, k: int) -> CompactTarget
    decreases k,
{
    if k < 0 || k >= c.len() { spow_limit_bits(n) }
    else if c[k].bits != spow_limit_bits(n) || k % 2016 == 0 { c[k].bits }
    else { walk_back(n, c, k - 1) }
}
// the 2016-block retarget (clamp inside next_work_required_spec); based on the period's first block on testnet4; none on regtest
spec fn retarget_bits(n: Network, c: Seq<Header>) -> CompactTarget {
    let hh = c.len() as int;   // height of the candidate
    let prev = c[hh - 1];
    if hh % 2016 != 0 || n == Network::Regtest { prev.bits } else {
        let first = c[hh - 2016];
        let base = if n == Network::Testnet4 { first.bits } else { prev.bits };
        let timespan = if prev.time >= first.time { (prev.time - first.time) as u64 } else { 0u64 };
        CompactTarget::next_work_required_spec(base, timespan, n)
    }
}
spec fn required_target(n: Network, c: Seq<Header>, time: u32) -> Target {
    let hh = c.len() as int;
    let prev = c[hh - 1];
    if is_testnet_like(n) && hh % 2016 != 0 {
        if time > prev.time + 1200 { smax_target(n) }
        else { Target::from_compact_spec(walk_back(n, c, hh - 1)) }
    } else {
        Target::from_compact_spec(retarget_bits(n, c))
    }
}

// first failing rule, in the order the statement lists them; None = accepted
spec fn accept_spec(n: Network, c: Seq<Header>, hdr: Header, now_secs: u64) -> Option<ValidateHeaderError> {
    if lookup_hash(c, hdr.prev_blockhash).is_none() { Some(ValidateHeaderError::PrevHeaderNotFound) }
    else if hdr.time as u64 > now_secs + 7200 {
        Some(ValidateHeaderError::HeaderIsTooFarInFuture { block_time: hdr.time as u64, max_allowed_time: (now_secs + 7200) as u64 })
    }
    else if hdr.time <= median_time_past(c) { Some(ValidateHeaderError::HeaderIsOld) }
    else if hdr.target_spec().0 > smax_target(n).0 { Some(ValidateHeaderError::TargetDifficultyAboveMax) }
    else if !hdr.work_ok() { Some(ValidateHeaderError::InvalidPoWForHeaderTarget) }
    else if hdr.target_spec() != required_target(n, c, hdr.time) { Some(ValidateHeaderError::InvalidPoWForComputedTarget) }
    else { None }
}

//@extract file=validation/src/header/mod.rs item="trait HeaderStore"
//@ rewrite R9 "fn get_with_block_hash\(&self, hash: &BlockHash\) -> Option<Header>;" => "spec fn chain(&self) -> Seq<Header>; fn get_with_block_hash(&self, hash: &BlockHash) -> (r: Option<Header>) requires chain_wf(self.chain()), ensures r == lookup_hash(self.chain(), *hash);"
//@ rewrite R9 "fn get_with_height\(&self, height: u32\) -> Option<Header>;" => "fn get_with_height(&self, height: u32) -> (r: Option<Header>) requires chain_wf(self.chain()), ensures r == (if height < self.chain().len() { Some(self.chain()[height as int]) } else { None });"
//@ rewrite R9 "fn height\(&self\) -> u32;" => "fn height(&self) -> (r: u32) requires chain_wf(self.chain()), ensures r == self.chain().len() - 1;"
//@ rewrite R9 "fn get_initial_hash\(&self\) -> BlockHash \{" => "fn get_initial_hash(&self) -> (r: BlockHash) requires chain_wf(self.chain()), ensures r == self.chain()[0].hash_spec(), {"
//@end

//@extract file=validation/src/header/mod.rs item="struct HeaderValidator"
//@end

// [trusted:assumed-contract] timestamp_is_at_most_2h_in_future(block_time, now): std::time::Duration arithmetic is outside
// Verus; the contract below is what the Kani harness `valid_2h_rule` proves on the real function (full domain).
#[verifier::external_body]
fn timestamp_is_at_most_2h_in_future(block_time: Duration, current_time: Duration) -> (r: Result<(), ValidateHeaderError>)
    requires block_time.nanos == 0, current_time.secs < 0x7fff_ffff_ffff_0000,
    ensures
        r.is_ok() <==> block_time.secs <= current_time.secs + 7200,
        r matches Err(e) ==> e == (ValidateHeaderError::HeaderIsTooFarInFuture { block_time: block_time.secs, max_allowed_time: (current_time.secs + 7200) as u64 }),
{ unimplemented!() }

impl<T: HeaderStore> HeaderValidator<T> {
    // the candidate extends the tip of the store (HeaderStore::height is documented as "the height of the tip that
    // the new header will extend"): its parent, if known at all, is c[H]
    spec fn extends_tip(&self, header: Header) -> bool {
        let c = self.store.chain();
        lookup_hash(c, header.prev_blockhash).is_some() ==> header.prev_blockhash == c[c.len() - 1].hash_spec()
    }

//@extract file=validation/src/header/mod.rs in="impl<T: HeaderStore> HeaderValidator<T>" item="fn validate_header" props=C11
//@ ret r
//@ spec
//@| requires
//@|     chain_wf(self.store.chain()),
//@|     self.extends_tip(*header),
//@|     current_time.secs < 0x7fff_ffff_ffff_0000,
//@| ensures
//@|     r.is_ok() <==> accept_spec(self.network, self.store.chain(), *header, current_time.secs).is_none(),
//@|     r matches Err(e) ==> accept_spec(self.network, self.store.chain(), *header, current_time.secs) == Some(e),
//@ before "self.is_timestamp_valid(header, current_time)?;"
//@| proof { lemma_lookup(self.store.chain(), self.store.chain().len() - 1); }
//@end

//@extract file=validation/src/header/mod.rs in="impl<T: HeaderStore> HeaderValidator<T>" item="fn is_timestamp_valid" props=C11
//@ ret r
//@ spec
//@| requires
//@|     chain_wf(self.store.chain()),
//@|     header.prev_blockhash == self.store.chain()[self.store.chain().len() - 1].hash_spec(),
//@|     current_time.secs < 0x7fff_ffff_ffff_0000,
//@| ensures
//@|     r.is_ok() <==> (header.time as u64 <= current_time.secs + 7200 && header.time > median_time_past(self.store.chain())),
//@|     r matches Err(e) ==> e == (if header.time as u64 > current_time.secs + 7200 {
//@|             ValidateHeaderError::HeaderIsTooFarInFuture { block_time: header.time as u64, max_allowed_time: (current_time.secs + 7200) as u64 }
//@|         } else { ValidateHeaderError::HeaderIsOld }),
//@ loop 1 binder=it
//@| invariant_except_break
//@|     chain_wf(self.store.chain()),
//@|     initial_hash == self.store.chain()[0].hash_spec(),
//@|     0 <= it.index@ <= 11,
//@|     times@.len() == it.index@,
//@|     times@.len() < self.store.chain().len(),
//@|     times@ =~= pred_times(self.store.chain(), it.index@),
//@|     current_header.prev_blockhash == self.store.chain()[self.store.chain().len() - 1 - it.index@].hash_spec(),
//@| ensures
//@|     times@ =~= pred_times(self.store.chain(), n_preds(self.store.chain())),
//@ after "current_header = prev_header;"
//@| proof {
//@|     let ghost c = self.store.chain();
//@|     let ghost k = c.len() - 1 - it.index@;
//@|     assert(k >= 1) by { if k == 0 { assert(c[0].hash_spec() == initial_hash); } }
//@|     assert(c[(k - 1) + 1].prev_blockhash == c[k - 1].hash_spec());
//@| }
//@ before "times.sort_unstable();"
//@| proof { axiom_sorted_u32(times@); }
//@ before "if let Some(prev_header) = self"
//@| proof { lemma_lookup(self.store.chain(), self.store.chain().len() - 1 - it.index@); }
//@end

//@extract file=validation/src/header/mod.rs in="impl<T: HeaderStore> HeaderValidator<T>" item="fn get_next_target" props=C11
//@ ret r
//@ spec
//@| requires
//@|     chain_wf(self.store.chain()),
//@|     *prev_header == self.store.chain()[self.store.chain().len() - 1],
//@|     prev_height == self.store.chain().len() - 1,
//@| ensures
//@|     r == required_target(self.network, self.store.chain(), timestamp),
//@end

//@extract file=validation/src/header/mod.rs in="impl<T: HeaderStore> HeaderValidator<T>" item="fn find_next_difficulty_in_chain" props=C11
//@ ret r
//@ spec
//@| requires
//@|     chain_wf(self.store.chain()),
//@|     *prev_header == self.store.chain()[self.store.chain().len() - 1],
//@|     prev_height == self.store.chain().len() - 1,
//@| ensures
//@|     is_testnet_like(self.network) ==> r == walk_back(self.network, self.store.chain(), prev_height as int),
//@|     !is_testnet_like(self.network) ==> r == spow_limit_bits(self.network),
//@ loop 1
//@| invariant
//@|     chain_wf(self.store.chain()),
//@|     is_testnet_like(self.network),
//@|     pow_limit_bits == spow_limit_bits(self.network),
//@|     initial_header_hash == self.store.chain()[0].hash_spec(),
//@|     0 <= current_height < self.store.chain().len(),
//@|     current_header == self.store.chain()[current_height as int],
//@|     current_hash == current_header.hash_spec(),
//@|     walk_back(self.network, self.store.chain(), current_height as int) == walk_back(self.network, self.store.chain(), prev_height as int),
//@| ensures
//@|     walk_back(self.network, self.store.chain(), prev_height as int) == pow_limit_bits,
//@| decreases current_height,
//@ before "let prev_blockhash = current_header.prev_blockhash;"
//@| proof {
//@|     let ghost c = self.store.chain();
//@|     let ghost k = current_height as int;
//@|     assert(k >= 1) by { if k == 0 { assert(c[0].hash_spec() == initial_header_hash); } }
//@|     assert(c[(k - 1) + 1].prev_blockhash == c[k - 1].hash_spec());
//@|     lemma_lookup(c, k - 1);
//@| }
//@end

//@extract file=validation/src/header/mod.rs in="impl<T: HeaderStore> HeaderValidator<T>" item="fn compute_next_difficulty" props=C11
//@ ret r
//@ spec
//@| requires
//@|     chain_wf(self.store.chain()),
//@|     *prev_header == self.store.chain()[self.store.chain().len() - 1],
//@|     prev_height == self.store.chain().len() - 1,
//@| ensures
//@|     r == retarget_bits(self.network, self.store.chain()),
//@end
}

// ---------------------------------------------------------------------------------------
// C12: block body checks (validation/src/block/mod.rs)
// ---------------------------------------------------------------------------------------
// [trusted:stand-in] normalised txid (bitcoin::hashes::sha256d::Hash) — totally ordered value
type Ntxid = u64;
// [trusted:stand-in] bitcoin::Transaction — opaque; only is_coinbase / compute_ntxid are used by the current tree
struct Transaction { id: u64 }
impl Transaction {
    uninterp spec fn is_coinbase_spec(&self) -> bool;
    uninterp spec fn ntxid_spec(&self) -> Ntxid;
    // [trusted:assumed-spec] Transaction::is_coinbase (rust-bitcoin)
    #[verifier::external_body]
    fn is_coinbase(&self) -> (r: bool) ensures r == self.is_coinbase_spec() { unimplemented!() }
    // [trusted:assumed-spec] Transaction::compute_ntxid (rust-bitcoin): a function of the transaction
    #[verifier::external_body]
    fn compute_ntxid(&self) -> (r: Ntxid) ensures r == self.ntxid_spec() { unimplemented!() }
    // the other ids rust-bitcoin offers (not used by the current tree): unrelated functions of the transaction, so that a
    // uniqueness check keyed on one of them is decided (not merely unparsable)
    uninterp spec fn txid_spec(&self) -> Ntxid;
    uninterp spec fn wtxid_spec(&self) -> Ntxid;
    #[verifier::external_body]
    fn compute_txid(&self) -> (r: Ntxid) ensures r == self.txid_spec() { unimplemented!() }
    #[verifier::external_body]
    fn compute_wtxid(&self) -> (r: Ntxid) ensures r == self.wtxid_spec() { unimplemented!() }
}
// [trusted:stand-in] bitcoin::Block {header, txdata}
struct Block { header: Header, txdata: Vec<Transaction> }
impl Block {
    uninterp spec fn merkle_ok(&self) -> bool;
    // [trusted:assumed-spec] Block::check_merkle_root (rust-bitcoin): uninterpreted predicate of the block
    #[verifier::external_body]
    fn check_merkle_root(&self) -> (r: bool) ensures r == self.merkle_ok() { unimplemented!() }
}

//@extract file=validation/src/block/mod.rs item="enum ValidateBlockError"
//@end

// written from the statement of C12
spec fn distinct_ntxids(txs: Seq<Transaction>) -> bool {
    forall|i: int, j: int| 0 <= i < j < txs.len() ==> txs[i].ntxid_spec() != txs[j].ntxid_spec()
}
spec fn block_body_spec(b: Block) -> Option<ValidateBlockError> {
    if b.txdata@.len() == 0 { Some(ValidateBlockError::NoTransactions) }
    else if !b.txdata@[0].is_coinbase_spec() { Some(ValidateBlockError::InvalidCoinbase) }
    else if !b.merkle_ok() { Some(ValidateBlockError::InvalidMerkleRoot) }
    else if !distinct_ntxids(b.txdata@) { Some(ValidateBlockError::DuplicateTransactions) }
    else { None }
}

//@extract file=validation/src/block/mod.rs item="fn validate_block" props=C12
//@ ret r
//@ sigrewrite R3 "&bitcoin::Block" => "&Block"
//@ spec
//@| ensures
//@|     r.is_ok() <==> block_body_spec(*block).is_none(),
//@|     r matches Err(e) ==> block_body_spec(*block) == Some(e),
//@end

//@extract file=validation/src/block/mod.rs item="fn ensure_unique_transactions" props=C12
//@ ret r
//@ spec
//@| ensures
//@|     r.is_ok() <==> distinct_ntxids(transactions@),
//@|     r matches Err(e) ==> e == ValidateBlockError::DuplicateTransactions,
//@ loop 1 binder=it
//@| invariant
//@|     forall|k: Ntxid| unique_normalized_txids@.contains(k) <==> exists|i: int| 0 <= i < it.index@ && transactions@[i].ntxid_spec() == k,
//@|     forall|i: int, j: int| 0 <= i < j < it.index@ ==> transactions@[i].ntxid_spec() != transactions@[j].ntxid_spec(),
//@end

//@extract file=validation/src/block/mod.rs item="struct BlockValidator"
//@end
impl<T: HeaderStore> BlockValidator<T> {
//@extract file=validation/src/block/mod.rs in="impl<T: HeaderStore> BlockValidator<T>" item="fn validate_block" props=C12,C10
//@ ret r
//@ sigrewrite R3 "&bitcoin::Block" => "&Block"
//@ rewrite R10 "self\.header_validator\s*\.validate_header\(&block\.header, current_time\)\s*\.map_err\(ValidateBlockError::InvalidBlockHeader\)\s*\.and_then\(\|\(\)\| validate_block\(block\)\)" => "match self.header_validator.validate_header(&block.header, current_time) { Ok(()) => validate_block(block), Err(e) => Err(ValidateBlockError::InvalidBlockHeader(e)) }"
//@ spec
//@| requires
//@|     chain_wf(self.header_validator.store.chain()),
//@|     self.header_validator.extends_tip(block.header),
//@|     current_time.secs < 0x7fff_ffff_ffff_0000,
//@| ensures
//@|     r.is_ok() <==> (accept_spec(self.header_validator.network, self.header_validator.store.chain(), block.header, current_time.secs).is_none()
//@|                     && block_body_spec(*block).is_none()),
//@|     r matches Err(e) ==> (match accept_spec(self.header_validator.network, self.header_validator.store.chain(), block.header, current_time.secs) {
//@|         Some(he) => e == ValidateBlockError::InvalidBlockHeader(he),
//@|         None => block_body_spec(*block) == Some(e),
//@|     }),
//@end
}

//@lemma fn=lemma_cve_2012_2459 props=C12
// CVE-2012-2459 family: ANY transaction list in which one transaction occurs at two positions is refused,
// whatever its merkle root and whatever the parity of the list at any tree level.
proof fn lemma_cve_2012_2459(b: Block, i: int, j: int)
    requires 0 <= i < j < b.txdata@.len(), b.txdata@[i] == b.txdata@[j],
    ensures block_body_spec(b).is_some(),
{
    assert(b.txdata@[i].ntxid_spec() == b.txdata@[j].ntxid_spec());
}

proof fn vp_canary_axioms()
    ensures false,
{}

} // verus!
fn main() {}
