//@unit name=watchdog
// Unit watchdog: watchdog/src/health.rs::median (C17), watchdog/src/endpoints.rs::apply_to_body (C18)
use vstd::prelude::*;
verus! {

spec fn leq_u64() -> spec_fn(u64, u64) -> bool { |a: u64, b: u64| a <= b }
// [trusted:assumed-spec] <[T]>::sort (stable) leaves the sorted permutation; for u64 it is sort_by(<=) and keeps the length
pub uninterp spec fn sorted_of<T>(s: Seq<T>) -> Seq<T>;
pub assume_specification<T: Ord>[<[T]>::sort](v: &mut [T])
    ensures final(v)@ == sorted_of(old(v)@),
;
#[verifier::external_body]
proof fn axiom_sorted_u64(s: Seq<u64>)
    ensures sorted_of(s) == s.sort_by(leq_u64()), sorted_of(s).len() == s.len(),
{}
// [trusted:assumed-spec] <[T]>::to_vec copies the slice
pub assume_specification<T: Clone>[<[T]>::to_vec](v: &[T]) -> (r: Vec<T>)
    ensures r@ == v@,
;

// C17, written from the statement: the median of a multiset of heights = middle element of the sorted list, the (floored)
// mean of the two middle elements for an even count. It depends on the sorted multiset only (order of explorers irrelevant).
spec fn median_spec(s: Seq<u64>) -> Option<u64> {
    if s.len() == 0 { None } else {
        let t = s.sort_by(leq_u64());
        let mid = s.len() as int / 2;
        if s.len() % 2 == 0 { Some(((t[mid - 1] + t[mid]) / 2) as u64) } else { Some(t[mid]) }
    }
}

//@extract file=watchdog/src/health.rs item="fn median" props=C17
//@ ret r
//@ spec
//@| requires
//@|     // [assumption, stated] heights < 2^63 (the even-count mean adds two of them)
//@|     forall|i: int| 0 <= i < values@.len() ==> (#[trigger] values@[i]) < 0x8000_0000_0000_0000,
//@| ensures r == median_spec(values@), r matches Some(m) ==> m < 0x8000_0000_0000_0000,
//@ before "let mid_index = length / 2;"
//@| proof {
//@|     axiom_sorted_u64(values_in);
//@|     let t = values_in.sort_by(leq_u64());
//@|     values_in.lemma_sort_by_ensures(leq_u64());
//@|     t.to_multiset_ensures();
//@|     values_in.to_multiset_ensures();
//@|     assert forall|i: int| 0 <= i < t.len() implies (#[trigger] t[i]) < 0x8000_0000_0000_0000 by {
//@|         assert(t.contains(t[i]));
//@|         assert(values_in.to_multiset().count(t[i]) > 0);
//@|         assert(values_in.contains(t[i]));
//@|         let j = choose|j: int| 0 <= j < values_in.len() && values_in[j] == t[i];
//@|         assert(values_in[j] < 0x8000_0000_0000_0000);
//@|     }
//@| }
//@ before "let mut values = values.to_vec();"
//@| let ghost values_in = values@;
//@end

// ---------------------------------------------------------------------------------------------------------------------
// C17: "stale heights from earlier rounds are never reused": storing a provider's result REPLACES whatever an earlier
// round stored under that provider (also when the new result is a failed fetch, height None) — storage.rs:52
// ---------------------------------------------------------------------------------------------------------------------
//@extract file=watchdog/src/fetch.rs item="struct BlockInfo" props=C17
//@ rewrite R2? "#\[derive\(([^\]]*)\)\]" => ""
//@end
// [trusted:axioms] String keys obey vstd's hash-map key model (std's Hash/Eq for String are lawful); `x.to_string()` of a
// String is an equal String (Display for String writes the string itself)
#[verifier::external_body]
proof fn axiom_string_keys()
    ensures
        vstd::std_specs::hash::obeys_key_model::<String>(),
        forall|s: &String, r: String| #[trigger] vstd::string::to_string_from_display_ensures::<String>(s, r) ==> r == *s,
{}
//@slice file=watchdog/src/storage.rs item="fn insert_block_info" block_after="BLOCK_INFO_DATA.with(|cell| {" props=C17
//@ rewrite R7 "cell\.borrow_mut\(\)" => "cell"
//@ head
//@| // R8 slice: the closure body of insert_block_info; R7: the thread-local RefCell<HashMap<..>> is passed as `cell: &mut HashMap<..>`
//@| fn insert_block_info_body(cell: &mut std::collections::HashMap<String, BlockInfo>, info: BlockInfo)
//@|     ensures
//@|         // the entry of this provider is exactly the new result; every other provider's entry is untouched
//@|         final(cell)@ == old(cell)@.insert(info.provider, info),
//@| {
//@|     proof { axiom_string_keys(); broadcast use vstd::std_specs::hash::group_hash_axioms; }
//@ tail
//@| }
//@end

// ---------------------------------------------------------------------------------------------------------------------
// C17: "stale heights from earlier rounds are never reused" — lib.rs::fetch_block_height stores what THIS round fetched: the
// canister height is replaced by this round's result (None when the call failed), every provider's entry by this round's entry.
// R7: `async fn` => `fn`; `futures::join!(a, b)` => `(a, b)` (both futures are awaited, their results paired); the thread-local
// storage cells are passed as `vp_store: &mut WdStore`; `storage::insert_block_info` is the verified slice insert_block_info_body
// ---------------------------------------------------------------------------------------------------------------------
struct WdStore { canister_height: Option<u64>, block_info: std::collections::HashMap<String, BlockInfo> }
// [trusted:stand-in] the two fetches of a round (HTTP outcalls / an inter-canister call): any results
uninterp spec fn round_explorer_data() -> Seq<BlockInfo>;
uninterp spec fn round_canister_height() -> Option<u64>;
#[verifier::external_body]
fn vp_fetch_all_providers_data() -> (r: Vec<BlockInfo>) ensures r@ == round_explorer_data() { unimplemented!() }
#[verifier::external_body]
fn vp_fetch_canister_height() -> (r: Option<u64>) ensures r == round_canister_height() { unimplemented!() }
// the provider table after the first n results of a round have been stored
spec fn stored_all(m: Map<String, BlockInfo>, s: Seq<BlockInfo>, n: int) -> Map<String, BlockInfo>
    decreases n
{
    if n <= 0 { m } else { stored_all(m, s, n - 1).insert(s[n - 1].provider, s[n - 1]) }
}
//@extract file=watchdog/src/storage.rs item="fn set_canister_height" props=C17
//@ sigrewrite R7 "fn set_canister_height\(height: Option<u64>\)" => "fn set_canister_height(vp_store: &mut WdStore, height: Option<u64>)"
//@ rewrite R7 "CANISTER_HEIGHT\.with\(\|cell\| \*cell\.borrow_mut\(\) = height\);" => "{ let cell = &mut vp_store.canister_height; *cell = height; }"
//@ spec
//@| ensures final(vp_store).canister_height == height, final(vp_store).block_info == old(vp_store).block_info,
//@end
//@extract file=watchdog/src/lib.rs item="fn fetch_block_height" props=C17
//@ sigrewrite R7 "async fn fetch_block_height\(\)" => "fn fetch_block_height(vp_store: &mut WdStore)"
//@ rewrite R7 "futures::join!\(\s*fetch::fetch_all_providers_data\(\),\s*fetch::fetch_canister_height\(\),?\s*\)" => "(vp_fetch_all_providers_data(), vp_fetch_canister_height())"
//@ rewrite R7 "storage::insert_block_info\((\w+)\);" => "insert_block_info_body(&mut vp_store.block_info, \1);"
//@ rewrite R7 "storage::set_canister_height\(" => "set_canister_height(vp_store, "
//@ rewrite R1? "storage::get_canister\(\)\.canister_principal\(\)" => "()"
//@ spec
//@| ensures
//@|     final(vp_store).canister_height == round_canister_height(),
//@|     final(vp_store).block_info@ == stored_all(old(vp_store).block_info@, round_explorer_data(), round_explorer_data().len() as int),
//@ loopbefore 1
//@| let ghost vp_ch = vp_store.canister_height;
//@ loop 1 binder=itf
//@| invariant
//@|     // the loop stores provider entries only; the canister height is whatever it was when the loop began (set before or after it)
//@|     vp_store.canister_height == vp_ch,
//@|     vp_store.block_info@ == stored_all(old(vp_store).block_info@, round_explorer_data(), itf.index@ as int),
//@|     explorer_data@ == round_explorer_data(),
//@ loopstart 1
//@| proof { assert(info == round_explorer_data()[itf.index@ as int]); }
//@end

// ---------------------------------------------------------------------------------------------------------------------
// C17: calculate_height_target (health.rs:99) for ANY number of explorer heights (the Kani harnesses c17_band_N enumerate N <= 8)
// R17: `xs.iter().filter(|&x| (lo..=hi).contains(x)).count()` => a counting loop with `lo <= *x && *x <= hi` (definitions of
// Iterator::filter/count and RangeInclusive::contains)
// ---------------------------------------------------------------------------------------------------------------------
// [trusted:assumed-spec] i64::saturating_add
pub open spec fn sat_add_i64(a: i64, b: i64) -> i64 { if a + b > i64::MAX { i64::MAX } else if a + b < i64::MIN { i64::MIN } else { (a + b) as i64 } }
pub assume_specification[i64::saturating_add](a: i64, b: i64) -> (r: i64) ensures r == sat_add_i64(a, b);
// how many of the first n heights lie in [lo, hi]
spec fn count_in_band(s: Seq<u64>, lo: u64, hi: u64, n: int) -> int
    decreases n
{
    if n <= 0 { 0 } else { count_in_band(s, lo, hi, n - 1) + (if lo <= s[n - 1] && s[n - 1] <= hi { 1int } else { 0int }) }
}
//@extract file=watchdog/src/health.rs item="fn calculate_height_target" props=C17
//@ ret r
//@ rewrite R17 "let valid_explorers = heights\.iter\(\)\.filter\(\|&x\| \(lo\.\.=hi\)\.contains\(x\)\)\.count\(\);" => "let mut vp_count: usize = 0;\n    for x in heights.iter() {\n        if lo <= *x && *x <= hi { vp_count = vp_count + 1; }\n    }\n    let valid_explorers = vp_count;"
//@ spec
//@| requires
//@|     // [assumption, stated] heights < 2^63 (median's even-count mean adds two of them)
//@|     forall|i: int| 0 <= i < heights@.len() ==> (#[trigger] heights@[i]) < 0x8000_0000_0000_0000,
//@| ensures
//@|     // no target unless at least min_explorers heights were fetched AND at least min_explorers of them lie in the band around
//@|     // their median; then the target is that median. A function of the multiset of heights only (median_spec, count).
//@|     r == (match median_spec(heights@) {
//@|         None => None::<u64>,
//@|         Some(m) => {
//@|             let t = m as i64;
//@|             let lo = sat_add_i64(t, blocks_behind_threshold) as u64;
//@|             let hi = sat_add_i64(t, blocks_ahead_threshold) as u64;
//@|             if heights@.len() >= min_explorers && count_in_band(heights@, lo, hi, heights@.len() as int) >= min_explorers { Some(t as u64) } else { None::<u64> }
//@|         }
//@|     }),
//@|     r matches Some(t) ==> t < 0x8000_0000_0000_0000,
//@ loop 1 binder=itx
//@| invariant vp_count == count_in_band(heights@, lo, hi, itx.index@ as int), vp_count <= itx.index@,
//@ before "if lo <= *x && *x <= hi { vp_count = vp_count + 1; }"
//@| proof { assert(itx.index@ < heights@.len()); assert(heights@.len() == heights.len()); }
//@end

// ---------------------------------------------------------------------------------------------------------------------
// C17: compare (health.rs:123) for ANY list of explorer results: only successful fetches of THIS list count, in any order
// R17: `xs.iter().filter_map(|b| b.height).collect::<Vec<_>>()` => a loop pushing the Some heights; `a.zip(b).map(|(s, t)| e)` =>
// `match (a, b) { (Some(s), Some(t)) => Some(e), _ => None }`; `o.map_or(d, |x| e)` => `match o { None => d, Some(x) => e }`
// ---------------------------------------------------------------------------------------------------------------------
// [trusted:stand-in] watchdog::config::Config as far as compare reads it (the two getters are extracted)
struct Config { blocks_behind_threshold: u64, blocks_ahead_threshold: u64, min_explorers: u64, explorers: Vec<String> }
impl Config {
//@extract file=watchdog/src/config.rs in="impl Config" item="fn get_blocks_behind_threshold" props=C17
//@ ret r
//@ spec
//@| requires self.blocks_behind_threshold <= 1_000_000,
//@| ensures r == -(self.blocks_behind_threshold as int),
//@end
//@extract file=watchdog/src/config.rs in="impl Config" item="fn get_blocks_ahead_threshold" props=C17
//@ ret r
//@ spec
//@| requires self.blocks_ahead_threshold <= 1_000_000,
//@| ensures r == self.blocks_ahead_threshold as int,
//@end
}
// the heights of the successful fetches among the first n results, in order
spec fn fetched_heights(e: Seq<BlockInfo>, n: int) -> Seq<u64>
    decreases n
{
    if n <= 0 { Seq::empty() } else {
        match e[n - 1].height { Some(h) => fetched_heights(e, n - 1).push(h), None => fetched_heights(e, n - 1) }
    }
}
proof fn lemma_fetched_len(e: Seq<BlockInfo>, n: int)
    requires 0 <= n <= e.len(),
    ensures fetched_heights(e, n).len() <= n,
    decreases n
{ if n > 0 { lemma_fetched_len(e, n - 1); } }
proof fn lemma_fetched_small(e: Seq<BlockInfo>, n: int)
    requires 0 <= n <= e.len(), forall|i: int| 0 <= i < e.len() ==> ((#[trigger] e[i]).height matches Some(h) ==> h < 0x4000_0000_0000_0000),
    ensures forall|i: int| 0 <= i < fetched_heights(e, n).len() ==> (#[trigger] fetched_heights(e, n)[i]) < 0x4000_0000_0000_0000,
    decreases n
{
    if n > 0 {
        lemma_fetched_small(e, n - 1);
        let prev = fetched_heights(e, n - 1);
        match e[n - 1].height {
            Some(h) => {
                assert(fetched_heights(e, n) == prev.push(h));
                assert forall|i: int| 0 <= i < fetched_heights(e, n).len() implies (#[trigger] fetched_heights(e, n)[i]) < 0x4000_0000_0000_0000 by {
                    if i < prev.len() { assert(prev.push(h)[i] == prev[i]); }
                }
            }
            None => {}
        }
    }
}
spec fn target_spec(heights: Seq<u64>, min_explorers: usize, behind: i64, ahead: i64) -> Option<u64> {
    match median_spec(heights) {
        None => None::<u64>,
        Some(m) => {
            let t = m as i64;
            let lo = sat_add_i64(t, behind) as u64;
            let hi = sat_add_i64(t, ahead) as u64;
            if heights.len() >= min_explorers && count_in_band(heights, lo, hi, heights.len() as int) >= min_explorers { Some(t as u64) } else { None::<u64> }
        }
    }
}
//@extract file=watchdog/src/health.rs item="fn compare" props=C17
//@ ret r
//@ rewrite R17 "let heights = explorers\s*\.iter\(\)\s*\.filter_map\(\|block\| block\.height\)\s*\.collect::<Vec<_>>\(\);" => "let mut heights: Vec<u64> = Vec::new();\n    for block in explorers.iter() {\n        if let Some(vp_h) = block.height { heights.push(vp_h); }\n    }"
//@ rewrite R17 "let height_diff = canister_height\s*\.zip\(explorer_height\)\s*\.map\(\|\(source, target\)\| (source as i64 - target as i64)\);" => "let height_diff = match (canister_height, explorer_height) { (Some(source), Some(target)) => Some(\1), _ => None };"
//@ rewrite R17 "let height_status = height_diff\.map_or\(HeightStatus::NotEnoughData, \|diff\| \{(.*?)\n    \}\);" => "let height_status = match height_diff { None => HeightStatus::NotEnoughData, Some(diff) => {\1\n    } };"
//@ spec
//@| requires
//@|     // [assumption, stated] the property's domain: heights below 2^62, thresholds up to 10^6, a u64 quorum that fits usize
//@|     forall|i: int| 0 <= i < explorers@.len() ==> ((#[trigger] explorers@[i]).height matches Some(h) ==> h < 0x4000_0000_0000_0000),
//@|     canister_height matches Some(h) ==> h < 0x4000_0000_0000_0000,
//@|     config.blocks_behind_threshold <= 1_000_000, config.blocks_ahead_threshold <= 1_000_000, config.min_explorers <= usize::MAX,
//@| ensures
//@|     ({
//@|         let heights = fetched_heights(explorers@, explorers@.len() as int);
//@|         let target = target_spec(heights, config.min_explorers as usize, (-(config.blocks_behind_threshold as int)) as i64, config.blocks_ahead_threshold as i64);
//@|         &&& r.canister_height == canister_height
//@|         &&& r.explorers@ == explorers@
//@|         // the target is computed from the heights of THIS list's successful fetches only (failed fetches contribute nothing)
//@|         &&& r.explorer_height == target
//@|         // no status unless both the canister height and a target are known; otherwise Behind / Ahead / Ok by the band [-behind, +ahead]
//@|         &&& r.height_status == (match (canister_height, target) {
//@|                 (Some(c), Some(t)) => {
//@|                     let d = c as int - t as int;
//@|                     if d < -(config.blocks_behind_threshold as int) { HeightStatus::Behind }
//@|                     else if d > config.blocks_ahead_threshold as int { HeightStatus::Ahead }
//@|                     else { HeightStatus::Ok }
//@|                 },
//@|                 _ => HeightStatus::NotEnoughData,
//@|             })
//@|     }),
//@ loop 1 binder=itb
//@| invariant
//@|     heights@ == fetched_heights(explorers@, itb.index@ as int),
//@ before "if let Some(vp_h) = block.height { heights.push(vp_h); }"
//@| proof { assert(*block == explorers@[itb.index@ as int]); }
//@ before "let explorer_height = calculate_height_target("
//@| proof {
//@|     lemma_fetched_small(explorers@, explorers@.len() as int);
//@| }
//@end

// ---------------------------------------------------------------------------------------------------------------------
// C17: health_status (health.rs:86) judges the canister by what fetch_block_height STORED: the stored canister height and the stored
// entries of the configured explorers, in configuration order; nothing else enters `compare`
// R17: `xs.iter().filter_map(|e| f(e)).collect::<Vec<_>>()` => a loop pushing the Some results
// ---------------------------------------------------------------------------------------------------------------------
uninterp spec fn config_spec() -> Config;
#[verifier::external_body]
fn vp_get_config() -> (r: Config) ensures r == config_spec() { unimplemented!() }
// [trusted:assumed-contract] storage::get_block_info (storage.rs:59: `cell.borrow().get(provider).cloned()`): a lookup by provider name
#[verifier::external_body]
fn vp_get_block_info(vp_store: &WdStore, provider: &String) -> (r: Option<BlockInfo>)
    ensures r == (if vp_store.block_info@.contains_key(*provider) { Some(vp_store.block_info@[*provider]) } else { None::<BlockInfo> }),
{ unimplemented!() }
// the stored entries of the first n configured explorers, in configuration order
spec fn stored_infos(m: Map<String, BlockInfo>, names: Seq<String>, n: int) -> Seq<BlockInfo>
    decreases n
{
    if n <= 0 { Seq::empty() } else if m.contains_key(names[n - 1]) { stored_infos(m, names, n - 1).push(m[names[n - 1]]) } else { stored_infos(m, names, n - 1) }
}
proof fn lemma_stored_infos_small(m: Map<String, BlockInfo>, names: Seq<String>, n: int)
    requires 0 <= n <= names.len(), forall|k: String| #[trigger] m.contains_key(k) ==> (m[k].height matches Some(h) ==> h < 0x4000_0000_0000_0000),
    ensures forall|i: int| 0 <= i < stored_infos(m, names, n).len() ==> ((#[trigger] stored_infos(m, names, n)[i]).height matches Some(h) ==> h < 0x4000_0000_0000_0000),
    decreases n
{
    if n > 0 {
        lemma_stored_infos_small(m, names, n - 1);
        let prev = stored_infos(m, names, n - 1);
        if m.contains_key(names[n - 1]) {
            assert forall|i: int| 0 <= i < stored_infos(m, names, n).len() implies ((#[trigger] stored_infos(m, names, n)[i]).height matches Some(h) ==> h < 0x4000_0000_0000_0000) by {
                if i < prev.len() { assert(prev.push(m[names[n - 1]])[i] == prev[i]); }
            }
        }
    }
}
//@extract file=watchdog/src/health.rs item="fn health_status" props=C17
//@ ret r
//@ sigrewrite R7 "fn health_status\(\)" => "fn health_status(vp_store: &WdStore)"
//@ rewrite R7 "crate::storage::get_config\(\)" => "vp_get_config()"
//@ rewrite R7 "crate::storage::get_canister_height\(\)" => "vp_store.canister_height"
//@ rewrite R17 "compare\(\s*(.*?),\s*config\s*\.explorers\s*\.iter\(\)\s*\.filter_map\(\|(\w+)\| crate::storage::get_block_info\((\w+)\)\)\s*\.collect::<Vec<_>>\(\),\s*config,?\s*\)" => "let mut vp_infos: Vec<BlockInfo> = Vec::new();\n    for \2 in config.explorers.iter() {\n        if let Some(vp_b) = vp_get_block_info(vp_store, \3) { vp_infos.push(vp_b); }\n    }\n    proof { lemma_stored_infos_small(vp_store.block_info@, config.explorers@, config.explorers@.len() as int); }\n    compare(\1, vp_infos, config)"
//@ spec
//@| requires
//@|     forall|k: String| #[trigger] vp_store.block_info@.contains_key(k) ==> (vp_store.block_info@[k].height matches Some(h) ==> h < 0x4000_0000_0000_0000),
//@|     vp_store.canister_height matches Some(h) ==> h < 0x4000_0000_0000_0000,
//@|     config_spec().blocks_behind_threshold <= 1_000_000, config_spec().blocks_ahead_threshold <= 1_000_000, config_spec().min_explorers <= usize::MAX,
//@| ensures
//@|     r.canister_height == vp_store.canister_height,
//@|     r.explorers@ == stored_infos(vp_store.block_info@, config_spec().explorers@, config_spec().explorers@.len() as int),
//@ loop 1 binder=ith
//@| invariant
//@|     config == config_spec(),
//@|     vp_infos@ == stored_infos(vp_store.block_info@, config.explorers@, ith.index@ as int),
//@end

// ---------------------------------------------------------------------------------------------------------------------
// C17: the decision is ACTED on only when there is one and it differs from the canister's flag (api_access.rs:64)
// ---------------------------------------------------------------------------------------------------------------------
//@extract file=watchdog/src/health.rs item="enum HeightStatus" props=C17
//@ rewrite R2? "#\[derive\(([^\]]*)\)\]" => "#[derive(PartialEq, Eq, Structural)]"
//@ rewrite R2? "#\[serde\([^\]]*\)\]" => ""
//@end
//@extract file=watchdog/src/health.rs item="struct HealthStatus" props=C17
//@ rewrite R2? "#\[derive\(([^\]]*)\)\]" => ""
//@end
// [trusted:stand-in] ic_btc_interface::Flag
#[derive(PartialEq, Eq, Clone, Copy, Structural)]
enum Flag { Enabled, Disabled }
//@extract file=watchdog/src/api_access.rs item="fn calculate_target" props=C17
//@ ret r
//@ spec
//@| ensures r == (match health.height_status {
//@|     HeightStatus::Ok => Some(Flag::Enabled),
//@|     HeightStatus::Behind => Some(Flag::Disabled),
//@|     HeightStatus::Ahead => Some(Flag::Disabled),
//@|     HeightStatus::NotEnoughData => None::<Flag>,
//@| }),
//@end
// [trusted:stand-in] the surroundings of synchronise_api_access: the health status of this round (decided by the C17 Kani harnesses),
// the flag read from the monitored canister (an inter-canister call: any value or failure) and the set_config call, recorded in a
// ghost outbox. R7: `async fn` => `fn`, `.await` dropped, the outbox is passed explicitly
struct ApiOutbox { sent: Ghost<Seq<Option<Flag>>>, stored_target: Ghost<Option<Option<Flag>>> }
uninterp spec fn health_now_spec() -> HealthStatus;
uninterp spec fn actual_flag_spec() -> Option<Flag>;
#[verifier::external_body]
fn vp_health_status() -> (r: HealthStatus) ensures r == health_now_spec() { unimplemented!() }
#[verifier::external_body]
fn vp_set_api_access_target(o: &mut ApiOutbox, flag: Option<Flag>)
    ensures final(o).stored_target@ == Some(flag), final(o).sent@ == old(o).sent@,
{ unimplemented!() }
#[verifier::external_body]
fn vp_fetch_actual_api_access() -> (r: Option<Flag>) ensures r == actual_flag_spec() { unimplemented!() }
#[verifier::external_body]
fn vp_update_api_access(o: &mut ApiOutbox, target: Option<Flag>)
    ensures final(o).sent@ == old(o).sent@.push(target), final(o).stored_target@ == old(o).stored_target@,
{ unimplemented!() }
//@extract file=watchdog/src/api_access.rs item="fn synchronise_api_access" props=C17
//@ sigrewrite R7 "async fn synchronise_api_access\(\)" => "fn synchronise_api_access(vp_out: &mut ApiOutbox)"
//@ rewrite R7 "crate::health::health_status\(\)" => "vp_health_status()"
//@ rewrite R7 "crate::storage::set_api_access_target\(target\);" => "vp_set_api_access_target(vp_out, target);"
//@ rewrite R7 "fetch_actual_api_access\(\)\.await" => "vp_fetch_actual_api_access()"
//@ rewrite R7 "update_api_access\(target\)\.await;" => "vp_update_api_access(vp_out, target);"
//@ spec
//@| requires old(vp_out).sent@.len() == 0,
//@| ensures
//@|     ({
//@|         let target = match health_now_spec().height_status {
//@|             HeightStatus::Ok => Some(Flag::Enabled),
//@|             HeightStatus::Behind => Some(Flag::Disabled),
//@|             HeightStatus::Ahead => Some(Flag::Disabled),
//@|             HeightStatus::NotEnoughData => None::<Flag>,
//@|         };
//@|         // the decision of this round is stored ...
//@|         &&& final(vp_out).stored_target@ == Some(target)
//@|         // ... and the canister's flag is changed exactly when there is a decision and it differs from the flag read back
//@|         &&& final(vp_out).sent@ =~= (if target is Some && target != actual_flag_spec() { seq![target] } else { Seq::<Option<Flag>>::empty() })
//@|     }),
//@end

// ---------------------------------------------------------------------------------------------------------------------
// C18: the common transform wrapper (endpoints.rs:244)
// ---------------------------------------------------------------------------------------------------------------------
// [trusted:stand-in] candid::Nat (HTTP status) with its comparison against u8; ic_management_canister_types::{HttpHeader,
// HttpRequestResult, TransformArgs}
#[derive(PartialEq, Eq, Structural)]
pub struct Nat(pub u64);
impl Clone for Nat {
    #[verifier::external_body]
    fn clone(&self) -> (r: Self) ensures r == *self { unimplemented!() }
}
impl PartialEq<u8> for Nat {
    #[verifier::external_body]
    fn eq(&self, other: &u8) -> (r: bool) ensures r == (self.0 == *other as u64) { unimplemented!() }
}
impl vstd::std_specs::cmp::PartialEqSpecImpl<u8> for Nat {
    closed spec fn obeys_eq_spec() -> bool { true }
    closed spec fn eq_spec(&self, other: &u8) -> bool { self.0 == *other as u64 }
}
pub struct HttpHeader { pub name: String, pub value: String }
pub struct HttpRequestResult { pub status: Nat, pub headers: Vec<HttpHeader>, pub body: Vec<u8> }
impl Default for HttpRequestResult {
    // [trusted:assumed-spec] derive(Default): no headers, empty body
    #[verifier::external_body]
    fn default() -> (r: Self) ensures r.headers@.len() == 0, r.body@.len() == 0 { unimplemented!() }
}
struct TransformArgs { response: HttpRequestResult, context: Vec<u8> }

#[verifier::external_type_specification]
#[verifier::external_body]
pub struct ExFromUtf8Error(std::string::FromUtf8Error);
// [trusted:assumed-spec] String::from_utf8 / String::into_bytes: uninterpreted relation between a string and its bytes
pub uninterp spec fn is_utf8(b: Seq<u8>) -> bool;
pub uninterp spec fn str_bytes(s: String) -> Seq<u8>;
pub assume_specification[String::from_utf8](v: Vec<u8>) -> (r: Result<String, std::string::FromUtf8Error>)
    ensures
        r.is_ok() <==> is_utf8(v@),
        r matches Ok(s) ==> str_bytes(s) == v@,
;
pub assume_specification[String::into_bytes](s: String) -> (r: Vec<u8>)
    ensures r@ == str_bytes(s),
;

//@extract file=watchdog/src/endpoints.rs item="fn apply_to_body" props=C18
//@ ret r
//@ spec
//@| requires
//@|     // the per-endpoint extractor is total
//@|     forall|s: String| f.requires((s,)),
//@| ensures
//@|     // total (this function has no trap obligation left), no headers, only the status is kept
//@|     r.headers@.len() == 0,
//@|     r.status == raw.response.status,
//@|     // body: empty unless the status is 200 and the body is UTF-8 text, in which case it is exactly what the extractor made of that text
//@|     (raw.response.status.0 != 200 || !is_utf8(raw.response.body@)) ==> r.body@.len() == 0,
//@|     (raw.response.status.0 == 200 && is_utf8(raw.response.body@)) ==>
//@|         exists|s: String, t: String| str_bytes(s) == raw.response.body@ && f.ensures((s,), t) && r.body@ == str_bytes(t),
//@end

// ---- the JSON wrapper (endpoints.rs:266): closure passed to apply_to_body, annotated by rule R9 ---------------------------
// [trusted:stand-in] serde_json::{Value, from_str, Value::to_string}: parsing and printing are uninterpreted FUNCTIONS of their
// argument (so the output depends on the text only through the parsed value); their insensitivity to whitespace / member order
// and the canonical form of to_string are properties of serde_json, not decided here
mod serde_json {
    use vstd::prelude::*;
    pub struct Value { pub id: u64 }
    pub struct Error { pub code: u8 }
    pub uninterp spec fn parse_spec(text: String) -> Option<Value>;
    pub uninterp spec fn print_spec(v: Value) -> String;
    #[verifier::external_body]
    pub fn from_str(text: &String) -> (r: Result<Value, Error>)
        ensures r.is_ok() <==> parse_spec(*text).is_some(), r matches Ok(v) ==> parse_spec(*text) == Some(v),
    { unimplemented!() }
    impl Value {
        #[verifier::external_body]
        pub fn to_string(&self) -> (r: String) ensures r == print_spec(*self) { unimplemented!() }
        // indexing (`v[0]`, `v["k"]`; rule R13 turns the index syntax into these calls) and the integer accessors: uninterpreted
        // functions of the value
        pub uninterp spec fn at_spec(&self, i: usize) -> Value;
        pub uninterp spec fn get_spec(&self, k: &str) -> Value;
        pub uninterp spec fn as_u64_spec(&self) -> Option<u64>;
        pub uninterp spec fn as_i64_spec(&self) -> Option<i64>;
        #[verifier::external_body] pub fn vp_at(&self, i: usize) -> (r: &Value) ensures *r == self.at_spec(i) { unimplemented!() }
        #[verifier::external_body] pub fn vp_get(&self, k: &str) -> (r: &Value) ensures *r == self.get_spec(k) { unimplemented!() }
        #[verifier::external_body] pub fn as_u64(&self) -> (r: Option<u64>) ensures r == self.as_u64_spec() { unimplemented!() }
        #[verifier::external_body] pub fn as_i64(&self) -> (r: Option<i64>) ensures r == self.as_i64_spec() { unimplemented!() }
    }
    impl Clone for Value { #[verifier::external_body] fn clone(&self) -> (r: Self) ensures r == *self { unimplemented!() } }
    // the JSON object with the single member "height" (null for None): what `json!({"height": h})` builds
    pub uninterp spec fn height_object_spec(h: Option<u64>) -> Value;
    // C18: "the canonical JSON object with the single member height (a non-negative integer or null)"
    pub open spec fn is_height_object(v: Value) -> bool { exists|h: Option<u64>| v == height_object_spec(h) }
    // what `json!` serialises for the member, by the static type of the expression: unsigned integers and their Options are
    // always a non-negative integer or null; a signed integer only when it is not negative
    pub trait HeightMember: Sized {
        spec fn canonical(&self) -> bool;
        spec fn height(&self) -> Option<u64>;
    }
    impl HeightMember for u64 { open spec fn canonical(&self) -> bool { true } open spec fn height(&self) -> Option<u64> { Some(*self) } }
    impl HeightMember for Option<u64> { open spec fn canonical(&self) -> bool { true } open spec fn height(&self) -> Option<u64> { *self } }
    impl HeightMember for i64 {
        open spec fn canonical(&self) -> bool { *self >= 0 }
        open spec fn height(&self) -> Option<u64> { Some(*self as u64) }
    }
    impl HeightMember for Option<i64> {
        open spec fn canonical(&self) -> bool { self matches Some(v) ==> v >= 0 }
        open spec fn height(&self) -> Option<u64> { match self { Some(v) => Some(*v as u64), None => None } }
    }
    // [trusted:stand-in] `json!({"height": e})` (rule R13 turns the macro call into this call): requires the member to be canonical
    #[verifier::external_body]
    pub fn height_object<T: HeightMember>(h: T) -> (r: Value)
        requires h.canonical(),
        ensures r == height_object_spec(h.height()),
    { unimplemented!() }
}
// [trusted:axioms] the empty string has no bytes
#[verifier::external_body]
proof fn axiom_empty_string_bytes()
    ensures forall|s: String| s@.len() == 0 ==> (#[trigger] str_bytes(s)).len() == 0,
{}

//@extract file=watchdog/src/endpoints.rs item="fn apply_to_body_json" props=C18
//@ ret r
//@ rewrite R9 "\|text\| match serde_json::from_str\(&text\) \{" => "|text: String| -> (out: String) requires forall|v: serde_json::Value| f.requires((v,)), ensures (serde_json::parse_spec(text) matches Some(v) && exists|w: serde_json::Value| f.ensures((v,), w) && out == serde_json::print_spec(w)) || (serde_json::parse_spec(text).is_none() && out@.len() == 0), { match serde_json::from_str(&text) {"
//@ rewrite R9 "\}\)\s*\}$" => "} }) }"
//@ before "apply_to_body(raw,"
//@| proof { axiom_empty_string_bytes(); }
//@ spec
//@| requires forall|v: serde_json::Value| f.requires((v,)),
//@| ensures
//@|     r.headers@.len() == 0,
//@|     r.status == raw.response.status,
//@|     // body: empty, or the printed form of what the extractor made of the parsed body
//@|     r.body@.len() == 0 || exists|s: String, v: serde_json::Value, w: serde_json::Value|
//@|         str_bytes(s) == raw.response.body@ && serde_json::parse_spec(s) == Some(v) && f.ensures((v,), w) && r.body@ == str_bytes(serde_json::print_spec(w)),
//@end

// ---------------------------------------------------------------------------------------------------------------------
// C18: every `transform_*` query of lib.rs goes through HttpRequestConfig::transform (http.rs:40): its answer IS the endpoint's transform
// of the raw response — nothing is answered past it (so what the transforms guarantee — no headers, canonical body — is what leaves)
// R7: the call through the `fn` pointer field `(self.transform_implementation)(raw)` => vp_call_transform(self, raw)
// ---------------------------------------------------------------------------------------------------------------------
// [trusted:stand-in] HttpRequestConfig as far as `transform` reads it; the stored fn pointer is an uninterpreted function of the raw response
struct HttpRequestConfig { request_id: u64, transform_id: u64 }
uninterp spec fn transform_impl_spec(c: &HttpRequestConfig, raw: TransformArgs) -> HttpRequestResult;
#[verifier::external_body]
fn vp_call_transform(c: &HttpRequestConfig, raw: TransformArgs) -> (r: HttpRequestResult) ensures r == transform_impl_spec(c, raw) { unimplemented!() }
impl HttpRequestConfig {
//@extract file=watchdog/src/http.rs in="impl HttpRequestConfig" item="fn transform" props=C18
//@ ret r
//@ rewrite R7 "\(self\.transform_implementation\)\(raw\)" => "vp_call_transform(self, raw)"
//@ spec
//@| ensures r == transform_impl_spec(self, raw),
//@end
}

proof fn vp_canary_axioms()
    ensures false,
{}


// ---------------------------------------------------------------------------------------------------------------------
// C18: the per-endpoint extractors (endpoints.rs:17-243): the closure each endpoint hands to apply_to_body(_json).
// R13 (macro / index desugaring): `json!({"height": e})` => serde_json::height_object(e); `v[0]` => v.vp_at(0); `v["k"]` => v.vp_get("k").
// ---------------------------------------------------------------------------------------------------------------------
// [trusted:assumed-spec] str::parse::<F> (uninterpreted function of the text), Result::unwrap_or_default, String::default is empty
#[verifier::external_type_specification]
#[verifier::external_body]
pub struct ExParseIntError(std::num::ParseIntError);
#[verifier::external_trait_specification]
pub trait ExFromStr: Sized {
    type ExternalTraitSpecificationFor: std::str::FromStr;
    type Err;
    fn from_str(s: &str) -> Result<Self, Self::Err>;
}
pub uninterp spec fn str_parse_spec<F>(s: &str) -> Option<F>;
pub assume_specification<F: std::str::FromStr>[str::parse::<F>](s: &str) -> (r: Result<F, <F as std::str::FromStr>::Err>)
    ensures r.is_ok() <==> str_parse_spec::<F>(s).is_some(), r matches Ok(v) ==> str_parse_spec::<F>(s) == Some(v),
;
pub uninterp spec fn default_of<T>() -> T;
pub assume_specification<T: std::default::Default, E>[std::result::Result::<T, E>::unwrap_or_default](x: std::result::Result<T, E>) -> (r: T)
    ensures x matches Ok(v) ==> r == v, x is Err ==> r == default_of::<T>(),
;
#[verifier::external_body]
proof fn axiom_default_string()
    ensures default_of::<String>()@.len() == 0,
{}
//@slice file=watchdog/src/endpoints.rs item="fn endpoint_bitcoin_mainnet_api_bitcore_io" block_after="apply_to_body_json(raw, |json| {" props=C18
//@ rewrite R13 "json!\(\{\s*\"height\":\s*(.*?),?\s*\}\)" => "serde_json::height_object(\1)"
//@ rewrite R13? "\[(\d+)\]" => ".vp_at(\1)"
//@ rewrite R13? "\[\"([^\"]*)\"\]" => ".vp_get(\"\1\")"
//@ head
//@| // R8 slice: the extractor closure of endpoint_bitcoin_mainnet_api_bitcore_io
//@| fn extractor_bitcoin_bitcore(json: serde_json::Value) -> (r: serde_json::Value)
//@|     ensures serde_json::is_height_object(r),
//@ tail
//@end
//@slice file=watchdog/src/endpoints.rs item="fn endpoint_bitcoin_mainnet_api_blockchair_com" block_after="apply_to_body_json(raw, |json| {" props=C18
//@ rewrite R13 "json!\(\{\s*\"height\":\s*(.*?),?\s*\}\)" => "serde_json::height_object(\1)"
//@ rewrite R13? "\[(\d+)\]" => ".vp_at(\1)"
//@ rewrite R13? "\[\"([^\"]*)\"\]" => ".vp_get(\"\1\")"
//@ head
//@| // R8 slice: the extractor closure of endpoint_bitcoin_mainnet_api_blockchair_com
//@| fn extractor_bitcoin_blockchair(json: serde_json::Value) -> (r: serde_json::Value)
//@|     ensures serde_json::is_height_object(r),
//@ tail
//@end
//@slice file=watchdog/src/endpoints.rs item="fn endpoint_bitcoin_mainnet_api_blockcypher_com" block_after="apply_to_body_json(raw, |json| {" props=C18
//@ rewrite R13 "json!\(\{\s*\"height\":\s*(.*?),?\s*\}\)" => "serde_json::height_object(\1)"
//@ rewrite R13? "\[(\d+)\]" => ".vp_at(\1)"
//@ rewrite R13? "\[\"([^\"]*)\"\]" => ".vp_get(\"\1\")"
//@ head
//@| // R8 slice: the extractor closure of endpoint_bitcoin_mainnet_api_blockcypher_com
//@| fn extractor_bitcoin_blockcypher(json: serde_json::Value) -> (r: serde_json::Value)
//@|     ensures serde_json::is_height_object(r),
//@ tail
//@end
//@slice file=watchdog/src/endpoints.rs item="fn endpoint_dogecoin_mainnet_api_bitcore_io" block_after="apply_to_body_json(raw, |json| {" props=C18
//@ rewrite R13 "json!\(\{\s*\"height\":\s*(.*?),?\s*\}\)" => "serde_json::height_object(\1)"
//@ rewrite R13? "\[(\d+)\]" => ".vp_at(\1)"
//@ rewrite R13? "\[\"([^\"]*)\"\]" => ".vp_get(\"\1\")"
//@ head
//@| // R8 slice: the extractor closure of endpoint_dogecoin_mainnet_api_bitcore_io
//@| fn extractor_dogecoin_bitcore(json: serde_json::Value) -> (r: serde_json::Value)
//@|     ensures serde_json::is_height_object(r),
//@ tail
//@end
//@slice file=watchdog/src/endpoints.rs item="fn endpoint_dogecoin_mainnet_api_blockchair_com" block_after="apply_to_body_json(raw, |json| {" props=C18
//@ rewrite R13 "json!\(\{\s*\"height\":\s*(.*?),?\s*\}\)" => "serde_json::height_object(\1)"
//@ rewrite R13? "\[(\d+)\]" => ".vp_at(\1)"
//@ rewrite R13? "\[\"([^\"]*)\"\]" => ".vp_get(\"\1\")"
//@ head
//@| // R8 slice: the extractor closure of endpoint_dogecoin_mainnet_api_blockchair_com
//@| fn extractor_dogecoin_blockchair(json: serde_json::Value) -> (r: serde_json::Value)
//@|     ensures serde_json::is_height_object(r),
//@ tail
//@end
//@slice file=watchdog/src/endpoints.rs item="fn endpoint_dogecoin_mainnet_api_blockcypher_com" block_after="apply_to_body_json(raw, |json| {" props=C18
//@ rewrite R13 "json!\(\{\s*\"height\":\s*(.*?),?\s*\}\)" => "serde_json::height_object(\1)"
//@ rewrite R13? "\[(\d+)\]" => ".vp_at(\1)"
//@ rewrite R13? "\[\"([^\"]*)\"\]" => ".vp_get(\"\1\")"
//@ head
//@| // R8 slice: the extractor closure of endpoint_dogecoin_mainnet_api_blockcypher_com
//@| fn extractor_dogecoin_blockcypher(json: serde_json::Value) -> (r: serde_json::Value)
//@|     ensures serde_json::is_height_object(r),
//@ tail
//@end
//@slice file=watchdog/src/endpoints.rs item="fn endpoint_bitcoin_mainnet_blockchain_info" block_after="apply_to_body(raw, |text| {" props=C18
//@ rewrite R13 "json!\(\{\s*\"height\":\s*(.*?),?\s*\}\)" => "serde_json::height_object(\1)"
//@ rewrite R9 "\.map\(\|height\| \{" => ".map(|height: u64| -> (vp_s: String) ensures vp_s == serde_json::print_spec(serde_json::height_object_spec(Some(height))) {"
//@ head
//@| // R8 slice: the extractor closure of endpoint_bitcoin_mainnet_blockchain_info (plain-text height)
//@| fn extractor_bitcoin_blockchain_info(text: String) -> (r: String)
//@|     ensures r@.len() == 0 || exists|h: u64| r == #[trigger] serde_json::print_spec(serde_json::height_object_spec(Some(h))),
//@| {
//@|     proof { axiom_default_string(); }
//@ tail
//@| }
//@end
//@slice file=watchdog/src/endpoints.rs item="fn endpoint_bitcoin_mainnet_blockstream_info" block_after="apply_to_body(raw, |text| {" props=C18
//@ rewrite R13 "json!\(\{\s*\"height\":\s*(.*?),?\s*\}\)" => "serde_json::height_object(\1)"
//@ rewrite R9 "\.map\(\|height\| \{" => ".map(|height: u64| -> (vp_s: String) ensures vp_s == serde_json::print_spec(serde_json::height_object_spec(Some(height))) {"
//@ head
//@| // R8 slice: the extractor closure of endpoint_bitcoin_mainnet_blockstream_info (plain-text height)
//@| fn extractor_bitcoin_blockstream(text: String) -> (r: String)
//@|     ensures r@.len() == 0 || exists|h: u64| r == #[trigger] serde_json::print_spec(serde_json::height_object_spec(Some(h))),
//@| {
//@|     proof { axiom_default_string(); }
//@ tail
//@| }
//@end
//@slice file=watchdog/src/endpoints.rs item="fn endpoint_bitcoin_mempool" block_after="apply_to_body(raw, |text| {" props=C18
//@ rewrite R13 "json!\(\{\s*\"height\":\s*(.*?),?\s*\}\)" => "serde_json::height_object(\1)"
//@ rewrite R9 "\.map\(\|height\| \{" => ".map(|height: u64| -> (vp_s: String) ensures vp_s == serde_json::print_spec(serde_json::height_object_spec(Some(height))) {"
//@ head
//@| // R8 slice: the extractor closure of endpoint_bitcoin_mempool (plain-text height)
//@| fn extractor_bitcoin_mempool(text: String) -> (r: String)
//@|     ensures r@.len() == 0 || exists|h: u64| r == #[trigger] serde_json::print_spec(serde_json::height_object_spec(Some(h))),
//@| {
//@|     proof { axiom_default_string(); }
//@ tail
//@| }
//@end
//@slice file=watchdog/src/endpoints.rs item="fn endpoint_dogecoin_mainnet_psy_protocol" block_after="apply_to_body(raw, |text| {" props=C18
//@ rewrite R13 "json!\(\{\s*\"height\":\s*(.*?),?\s*\}\)" => "serde_json::height_object(\1)"
//@ rewrite R9 "\.map\(\|height\| \{" => ".map(|height: u64| -> (vp_s: String) ensures vp_s == serde_json::print_spec(serde_json::height_object_spec(Some(height))) {"
//@ head
//@| // R8 slice: the extractor closure of endpoint_dogecoin_mainnet_psy_protocol (plain-text height)
//@| fn extractor_dogecoin_psy(text: String) -> (r: String)
//@|     ensures r@.len() == 0 || exists|h: u64| r == #[trigger] serde_json::print_spec(serde_json::height_object_spec(Some(h))),
//@| {
//@|     proof { axiom_default_string(); }
//@ tail
//@| }
//@end


// ---------------------------------------------------------------------------------------------------------------------
// C18: the transform of each endpoint as a whole: the closure `|raw| { apply_to_body(_json)(raw, extractor) }` each endpoint hands
// to HttpRequestConfig::new. The wrapper contract and the extractor contract COMPOSE here (the extractor closure is annotated
// by rule R9 with the contract proved for its slice above)
// ---------------------------------------------------------------------------------------------------------------------
// C18, from the statement: no headers, only the status is kept, and the body is empty or the canonical JSON object with the single
// member height (a non-negative integer or null)
spec fn transform_result_ok(raw: TransformArgs, r: HttpRequestResult) -> bool {
    &&& r.headers@.len() == 0
    &&& r.status == raw.response.status
    &&& (r.body@.len() == 0 || exists|h: Option<u64>| r.body@ == str_bytes(#[trigger] serde_json::print_spec(serde_json::height_object_spec(h))))
}
//@slice file=watchdog/src/endpoints.rs item="fn endpoint_bitcoin_mainnet_api_bitcore_io" block_after="|raw| {" props=C18
//@ rewrite R13 "json!\(\{\s*\"height\":\s*(.*?),?\s*\}\)" => "serde_json::height_object(\1)"
//@ rewrite R13? "\[(\d+)\]" => ".vp_at(\1)"
//@ rewrite R13? "\[\"([^\"]*)\"\]" => ".vp_get(\"\1\")"
//@ rewrite R9 "apply_to_body_json\(raw, \|json\| \{" => "apply_to_body_json(raw, |json: serde_json::Value| -> (vp_w: serde_json::Value) ensures serde_json::is_height_object(vp_w) {"
//@ head
//@| // R8 slice: the transform closure of endpoint_bitcoin_mainnet_api_bitcore_io
//@| fn transform_bitcoin_bitcore(raw: TransformArgs) -> (r: HttpRequestResult)
//@|     ensures transform_result_ok(raw, r),
//@ tail
//@end
//@slice file=watchdog/src/endpoints.rs item="fn endpoint_bitcoin_mainnet_api_blockchair_com" block_after="|raw| {" props=C18
//@ rewrite R13 "json!\(\{\s*\"height\":\s*(.*?),?\s*\}\)" => "serde_json::height_object(\1)"
//@ rewrite R13? "\[(\d+)\]" => ".vp_at(\1)"
//@ rewrite R13? "\[\"([^\"]*)\"\]" => ".vp_get(\"\1\")"
//@ rewrite R9 "apply_to_body_json\(raw, \|json\| \{" => "apply_to_body_json(raw, |json: serde_json::Value| -> (vp_w: serde_json::Value) ensures serde_json::is_height_object(vp_w) {"
//@ head
//@| // R8 slice: the transform closure of endpoint_bitcoin_mainnet_api_blockchair_com
//@| fn transform_bitcoin_blockchair(raw: TransformArgs) -> (r: HttpRequestResult)
//@|     ensures transform_result_ok(raw, r),
//@ tail
//@end
//@slice file=watchdog/src/endpoints.rs item="fn endpoint_bitcoin_mainnet_api_blockcypher_com" block_after="|raw| {" props=C18
//@ rewrite R13 "json!\(\{\s*\"height\":\s*(.*?),?\s*\}\)" => "serde_json::height_object(\1)"
//@ rewrite R13? "\[(\d+)\]" => ".vp_at(\1)"
//@ rewrite R13? "\[\"([^\"]*)\"\]" => ".vp_get(\"\1\")"
//@ rewrite R9 "apply_to_body_json\(raw, \|json\| \{" => "apply_to_body_json(raw, |json: serde_json::Value| -> (vp_w: serde_json::Value) ensures serde_json::is_height_object(vp_w) {"
//@ head
//@| // R8 slice: the transform closure of endpoint_bitcoin_mainnet_api_blockcypher_com
//@| fn transform_bitcoin_blockcypher(raw: TransformArgs) -> (r: HttpRequestResult)
//@|     ensures transform_result_ok(raw, r),
//@ tail
//@end
//@slice file=watchdog/src/endpoints.rs item="fn endpoint_dogecoin_mainnet_api_bitcore_io" block_after="|raw| {" props=C18
//@ rewrite R13 "json!\(\{\s*\"height\":\s*(.*?),?\s*\}\)" => "serde_json::height_object(\1)"
//@ rewrite R13? "\[(\d+)\]" => ".vp_at(\1)"
//@ rewrite R13? "\[\"([^\"]*)\"\]" => ".vp_get(\"\1\")"
//@ rewrite R9 "apply_to_body_json\(raw, \|json\| \{" => "apply_to_body_json(raw, |json: serde_json::Value| -> (vp_w: serde_json::Value) ensures serde_json::is_height_object(vp_w) {"
//@ head
//@| // R8 slice: the transform closure of endpoint_dogecoin_mainnet_api_bitcore_io
//@| fn transform_dogecoin_bitcore(raw: TransformArgs) -> (r: HttpRequestResult)
//@|     ensures transform_result_ok(raw, r),
//@ tail
//@end
//@slice file=watchdog/src/endpoints.rs item="fn endpoint_dogecoin_mainnet_api_blockchair_com" block_after="|raw| {" props=C18
//@ rewrite R13 "json!\(\{\s*\"height\":\s*(.*?),?\s*\}\)" => "serde_json::height_object(\1)"
//@ rewrite R13? "\[(\d+)\]" => ".vp_at(\1)"
//@ rewrite R13? "\[\"([^\"]*)\"\]" => ".vp_get(\"\1\")"
//@ rewrite R9 "apply_to_body_json\(raw, \|json\| \{" => "apply_to_body_json(raw, |json: serde_json::Value| -> (vp_w: serde_json::Value) ensures serde_json::is_height_object(vp_w) {"
//@ head
//@| // R8 slice: the transform closure of endpoint_dogecoin_mainnet_api_blockchair_com
//@| fn transform_dogecoin_blockchair(raw: TransformArgs) -> (r: HttpRequestResult)
//@|     ensures transform_result_ok(raw, r),
//@ tail
//@end
//@slice file=watchdog/src/endpoints.rs item="fn endpoint_dogecoin_mainnet_api_blockcypher_com" block_after="|raw| {" props=C18
//@ rewrite R13 "json!\(\{\s*\"height\":\s*(.*?),?\s*\}\)" => "serde_json::height_object(\1)"
//@ rewrite R13? "\[(\d+)\]" => ".vp_at(\1)"
//@ rewrite R13? "\[\"([^\"]*)\"\]" => ".vp_get(\"\1\")"
//@ rewrite R9 "apply_to_body_json\(raw, \|json\| \{" => "apply_to_body_json(raw, |json: serde_json::Value| -> (vp_w: serde_json::Value) ensures serde_json::is_height_object(vp_w) {"
//@ head
//@| // R8 slice: the transform closure of endpoint_dogecoin_mainnet_api_blockcypher_com
//@| fn transform_dogecoin_blockcypher(raw: TransformArgs) -> (r: HttpRequestResult)
//@|     ensures transform_result_ok(raw, r),
//@ tail
//@end
//@slice file=watchdog/src/endpoints.rs item="fn endpoint_bitcoin_mainnet_blockchain_info" block_after="|raw| {" props=C18
//@ rewrite R13 "json!\(\{\s*\"height\":\s*(.*?),?\s*\}\)" => "serde_json::height_object(\1)"
//@ rewrite R9 "\.map\(\|height\| \{" => ".map(|height: u64| -> (vp_s: String) ensures vp_s == serde_json::print_spec(serde_json::height_object_spec(Some(height))) {"
//@ rewrite R9 "apply_to_body\(raw, \|text\| \{" => "apply_to_body(raw, |text: String| -> (vp_t: String) ensures vp_t@.len() == 0 || exists|h: u64| vp_t == #[trigger] serde_json::print_spec(serde_json::height_object_spec(Some(h))) { proof { axiom_default_string(); }"
//@ head
//@| // R8 slice: the transform closure of endpoint_bitcoin_mainnet_blockchain_info (plain-text height)
//@| fn transform_bitcoin_blockchain_info(raw: TransformArgs) -> (r: HttpRequestResult)
//@|     ensures transform_result_ok(raw, r),
//@| {
//@|     proof { axiom_empty_string_bytes(); }
//@ tail
//@| }
//@end
//@slice file=watchdog/src/endpoints.rs item="fn endpoint_bitcoin_mainnet_blockstream_info" block_after="|raw| {" props=C18
//@ rewrite R13 "json!\(\{\s*\"height\":\s*(.*?),?\s*\}\)" => "serde_json::height_object(\1)"
//@ rewrite R9 "\.map\(\|height\| \{" => ".map(|height: u64| -> (vp_s: String) ensures vp_s == serde_json::print_spec(serde_json::height_object_spec(Some(height))) {"
//@ rewrite R9 "apply_to_body\(raw, \|text\| \{" => "apply_to_body(raw, |text: String| -> (vp_t: String) ensures vp_t@.len() == 0 || exists|h: u64| vp_t == #[trigger] serde_json::print_spec(serde_json::height_object_spec(Some(h))) { proof { axiom_default_string(); }"
//@ head
//@| // R8 slice: the transform closure of endpoint_bitcoin_mainnet_blockstream_info (plain-text height)
//@| fn transform_bitcoin_blockstream(raw: TransformArgs) -> (r: HttpRequestResult)
//@|     ensures transform_result_ok(raw, r),
//@| {
//@|     proof { axiom_empty_string_bytes(); }
//@ tail
//@| }
//@end
//@slice file=watchdog/src/endpoints.rs item="fn endpoint_bitcoin_mempool" block_after="|raw| {" props=C18
//@ rewrite R13 "json!\(\{\s*\"height\":\s*(.*?),?\s*\}\)" => "serde_json::height_object(\1)"
//@ rewrite R9 "\.map\(\|height\| \{" => ".map(|height: u64| -> (vp_s: String) ensures vp_s == serde_json::print_spec(serde_json::height_object_spec(Some(height))) {"
//@ rewrite R9 "apply_to_body\(raw, \|text\| \{" => "apply_to_body(raw, |text: String| -> (vp_t: String) ensures vp_t@.len() == 0 || exists|h: u64| vp_t == #[trigger] serde_json::print_spec(serde_json::height_object_spec(Some(h))) { proof { axiom_default_string(); }"
//@ head
//@| // R8 slice: the transform closure of endpoint_bitcoin_mempool (plain-text height)
//@| fn transform_bitcoin_mempool(raw: TransformArgs) -> (r: HttpRequestResult)
//@|     ensures transform_result_ok(raw, r),
//@| {
//@|     proof { axiom_empty_string_bytes(); }
//@ tail
//@| }
//@end
//@slice file=watchdog/src/endpoints.rs item="fn endpoint_dogecoin_mainnet_psy_protocol" block_after="|raw| {" props=C18
//@ rewrite R13 "json!\(\{\s*\"height\":\s*(.*?),?\s*\}\)" => "serde_json::height_object(\1)"
//@ rewrite R9 "\.map\(\|height\| \{" => ".map(|height: u64| -> (vp_s: String) ensures vp_s == serde_json::print_spec(serde_json::height_object_spec(Some(height))) {"
//@ rewrite R9 "apply_to_body\(raw, \|text\| \{" => "apply_to_body(raw, |text: String| -> (vp_t: String) ensures vp_t@.len() == 0 || exists|h: u64| vp_t == #[trigger] serde_json::print_spec(serde_json::height_object_spec(Some(h))) { proof { axiom_default_string(); }"
//@ head
//@| // R8 slice: the transform closure of endpoint_dogecoin_mainnet_psy_protocol (plain-text height)
//@| fn transform_dogecoin_psy(raw: TransformArgs) -> (r: HttpRequestResult)
//@|     ensures transform_result_ok(raw, r),
//@| {
//@|     proof { axiom_empty_string_bytes(); }
//@ tail
//@| }
//@end

} // verus!
fn main() {}
