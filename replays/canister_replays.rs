// Concrete replays of findings, compiled into a scratch copy of /repo's working tree (appended to canister/src/lib.rs).
// Each test asserts what the PROPERTY demands; it fails on a tree that has the defect and passes on a repaired tree.
#[cfg(test)]
mod vp_replays {
    use crate::{
        api::{get_balance, get_utxos, send_transaction},
        genesis_block, heartbeat, state,
        test_utils::{BlockBuilder, BlockChainBuilder, TransactionBuilder},
        types::{into_bitcoin_network, GetBalanceRequest, GetUtxosRequest},
        with_state, with_state_mut,
    };
    use bitcoin::{Address as BitcoinAddress, ScriptBuf, WScriptHash};
    use bitcoin::hashes::Hash;
    use ic_btc_interface::{Fees, Flag, InitConfig, Network, NetworkInRequest, SendTransactionError, SendTransactionRequest, UtxosFilter};
    use ic_btc_test_utils::random_p2wpkh_address;

    const BECH32: &str = "qpzry9x8gf2tvdw0s3jn54khce6mua7l";

    // A P2WSH address whose text EXTENDS the text of `victim` (a P2WPKH address): its 32-byte witness program is chosen so
    // that the bech32 characters of the program start with the victim's program + checksum characters.
    fn address_extending(victim: &str, btc_network: bitcoin::Network) -> BitcoinAddress {
        let sep = victim.rfind('1').unwrap();
        let data = &victim[sep + 2..]; // after the separator '1' and the witness version character 'q'
        let mut bits: Vec<bool> = vec![];
        for ch in data.chars() {
            let v = BECH32.find(ch).unwrap() as u8;
            for k in (0..5).rev() {
                bits.push((v >> k) & 1 == 1);
            }
        }
        bits.resize(256, false);
        let mut prog = [0u8; 32];
        for (i, b) in bits.iter().enumerate() {
            if *b {
                prog[i / 8] |= 1 << (7 - (i % 8));
            }
        }
        let script = ScriptBuf::new_p2wsh(&WScriptHash::from_byte_array(prog));
        BitcoinAddress::from_script(&script, btc_network).unwrap()
    }

    // F1 (C01, C05): an output paying a script whose address text merely starts with the queried address must not
    // appear in that address's UTXOs, and balance and UTXOs must agree.
    #[test]
    fn f1_prefix_address_does_not_leak() {
        let network = Network::Regtest;
        let btc_network = into_bitcoin_network(network);
        crate::init(InitConfig { stability_threshold: Some(1), network: Some(network), ..Default::default() });

        let victim = random_p2wpkh_address(btc_network);
        let victim_text = victim.to_string();
        let foreign = address_extending(&victim_text, btc_network);
        let foreign_text = foreign.to_string();
        assert!(foreign_text.starts_with(&victim_text) && foreign_text != victim_text);

        // Two blocks so that the first one (paying the foreign script) becomes stable and lands in the stable index.
        let tx = TransactionBuilder::coinbase().with_output(&foreign.clone().into(), 1000).build();
        let b1 = BlockBuilder::with_prev_header(genesis_block(network).header()).with_transaction(tx).build();
        let b2 = BlockBuilder::with_prev_header(b1.header()).build();
        let b3 = BlockBuilder::with_prev_header(b2.header()).build();
        with_state_mut(|s| {
            state::insert_block(s, b1.clone()).unwrap();
            state::insert_block(s, b2.clone()).unwrap();
            state::insert_block(s, b3.clone()).unwrap();
            let _ = state::ingest_stable_blocks_into_utxoset(s);
        });
        assert!(with_state(|s| s.stable_height()) >= 2, "the block paying the foreign script must be stable");

        let utxos = get_utxos(GetUtxosRequest { address: victim_text.clone(), filter: None }).unwrap();
        let balance = get_balance(GetBalanceRequest { address: victim_text.clone(), min_confirmations: None }).unwrap();
        assert!(utxos.utxos.is_empty(), "UTXOs of {} leaked into the answer for {}: {:?}", foreign_text, victim_text, utxos.utxos);
        assert_eq!(balance, utxos.utxos.iter().map(|u| u.value).sum::<u64>());
        // the foreign address itself still sees its output
        let own = get_utxos(GetUtxosRequest { address: foreign_text, filter: None }).unwrap();
        assert_eq!(own.utxos.len(), 1);
    }

    fn empty_transaction() -> Vec<u8> {
        use bitcoin::consensus::Encodable;
        let mut buf = vec![];
        bitcoin::Transaction {
            version: bitcoin::transaction::Version(0),
            lock_time: bitcoin::absolute::LockTime::from_consensus(0),
            input: vec![],
            output: vec![],
        }
        .consensus_encode(&mut buf)
        .unwrap();
        buf
    }

    // F2 (C19): a payload with bytes after the transaction is refused, nothing is counted.
    #[async_std::test]
    async fn f2_send_transaction_rejects_trailing_bytes() {
        crate::init(InitConfig {
            fees: Some(Fees { send_transaction_base: 13, send_transaction_per_byte: 27, ..Default::default() }),
            network: Some(Network::Mainnet),
            ..Default::default()
        });
        let mut transaction = empty_transaction();
        transaction.extend_from_slice(&[0xde, 0xad, 0xbe, 0xef]);
        let result = send_transaction(SendTransactionRequest { network: NetworkInRequest::Mainnet, transaction }).await;
        assert_eq!(result, Err(SendTransactionError::MalformedTransaction));
        assert_eq!(with_state(|s| s.metrics.send_transaction_count), 0);
    }

    use crate::api::get_block_headers;
    use crate::unstable_blocks;
    use crate::types::Slicing;
    use ic_btc_interface::{GetBlockHeadersRequest, GetUtxosResponse};
    use ic_btc_test_utils::random_p2pkh_address;

    // F8 (C02): with no confirmation filter, get_utxos must answer with respect to the tip of the heaviest chain,
    // the same tip get_blockchain_info reports — also when a lighter but longer fork competes.
    #[test]
    fn f8_unfiltered_get_utxos_serves_the_heaviest_tip() {
        let network = Network::Regtest;
        let btc_network = into_bitcoin_network(network);
        crate::init(InitConfig { stability_threshold: Some(100), network: Some(network), ..Default::default() });
        let address: crate::types::Address = random_p2pkh_address(btc_network).into();

        // G -> A (difficulty 100, pays `address`)          <- heaviest chain
        //  \-> C (1) -> D (1)                              <- longer, lighter
        let genesis = genesis_block(network);
        let coinbase = TransactionBuilder::coinbase().with_output(&address, 1000).build();
        let a = BlockBuilder::with_prev_header(genesis.header()).with_transaction(coinbase).build_with_mock_difficulty(100);
        let light = BlockChainBuilder::fork(&genesis, 2).build();
        with_state_mut(|s| {
            state::insert_block(s, a.clone()).unwrap();
            for b in light.iter() {
                state::insert_block(s, b.clone()).unwrap();
            }
        });
        let info = crate::get_blockchain_info();
        assert_eq!(info.block_hash, a.block_hash().to_vec());
        assert_eq!(info.height, 1);
        let r = get_utxos(GetUtxosRequest { address: address.to_string(), filter: None }).unwrap();
        assert_eq!((r.tip_height, r.tip_block_hash.clone()), (info.height, info.block_hash.clone()),
            "unfiltered get_utxos names tip at height {} but get_blockchain_info reports height {}", r.tip_height, info.height);
        assert_eq!(r.utxos.len(), 1);
    }

    // F5 (C05): balance(address, c) == sum of get_utxos(address, c), also on a forked tree.
    #[test]
    fn f5_balance_equals_sum_of_utxos_on_forks() {
        let network = Network::Regtest;
        let btc_network = into_bitcoin_network(network);
        crate::init(InitConfig { stability_threshold: Some(100), network: Some(network), ..Default::default() });
        let address: crate::types::Address = random_p2pkh_address(btc_network).into();

        // main chain G -> B1 (pays address) -> B2 -> B3 ; side fork G -> S1 -> S2
        let genesis = genesis_block(network);
        let coinbase = TransactionBuilder::coinbase().with_output(&address, 1000).build();
        let b1 = BlockBuilder::with_prev_header(genesis.header()).with_transaction(coinbase).build();
        let b2 = BlockBuilder::with_prev_header(b1.header()).build();
        let b3 = BlockBuilder::with_prev_header(b2.header()).build();
        let side = BlockChainBuilder::fork(&genesis, 2).build();
        with_state_mut(|s| {
            for b in [&b1, &b2, &b3] {
                state::insert_block(s, b.clone()).unwrap();
            }
            for b in side.iter() {
                state::insert_block(s, b.clone()).unwrap();
            }
        });
        for c in 0..=4u32 {
            let utxos = get_utxos(GetUtxosRequest { address: address.to_string(), filter: Some(UtxosFilter::MinConfirmations(c)) });
            let balance = get_balance(GetBalanceRequest { address: address.to_string(), min_confirmations: Some(c) });
            match (utxos, balance) {
                (Ok(u), Ok(b)) => assert_eq!(b, u.utxos.iter().map(|x| x.value).sum::<u64>(), "min_confirmations = {c}"),
                (Err(_), Err(_)) => {}
                (u, b) => panic!("min_confirmations = {c}: one endpoint refuses, the other answers: {:?} vs {:?}", u.map(|x| x.utxos.len()), b),
            }
        }
    }

    // F3 (C07): while a stabilising block is being ingested in slices, a header range across the stable boundary
    // still has exactly one header per height, each linked to the one before it.
    #[test]
    fn f3_header_ranges_are_exact_while_ingestion_is_paused() {
        use bitcoin::consensus::Decodable;
        let network = Network::Regtest;
        let btc_network = into_bitcoin_network(network);
        crate::init(InitConfig { stability_threshold: Some(1), network: Some(network), ..Default::default() });
        let address: crate::types::Address = random_p2pkh_address(btc_network).into();
        let mut tx = TransactionBuilder::coinbase();
        for _ in 0..40 {
            tx = tx.with_output(&address, 1000);
        }
        let genesis = genesis_block(network);
        let b1 = BlockBuilder::with_prev_header(genesis.header()).with_transaction(tx.build()).build();
        let b2 = BlockBuilder::with_prev_header(b1.header()).build();
        let b3 = BlockBuilder::with_prev_header(b2.header()).build();
        with_state_mut(|s| {
            for b in [&b1, &b2, &b3] {
                state::insert_block(s, b.clone()).unwrap();
            }
        });
        // a budget that allows only a few outputs per round
        crate::runtime::set_performance_counter_step(375_000_000);
        let mut paused = false;
        for _ in 0..50 {
            crate::runtime::performance_counter_reset();
            let r = with_state_mut(state::ingest_stable_blocks_into_utxoset);
            if r == Slicing::Paused(()) {
                paused = true;
                break;
            }
        }
        assert!(paused, "the scenario must reach a paused ingestion");
        let tip = with_state(state::main_chain_height);
        let resp = get_block_headers(GetBlockHeadersRequest { start_height: 0, end_height: None, network: NetworkInRequest::Regtest }).unwrap();
        assert_eq!(resp.block_headers.len() as u32, tip + 1, "one header per height 0..={tip} expected while paused at stable height {}", with_state(|s| s.stable_height()));
        let mut prev: Option<bitcoin::block::Header> = None;
        for raw in resp.block_headers.iter() {
            let h = bitcoin::block::Header::consensus_decode(&mut raw.as_slice()).unwrap();
            if let Some(p) = prev {
                assert_eq!(h.prev_blockhash, p.block_hash());
            }
            prev = Some(h);
        }
    }

    // F6 (C03): on testnet/regtest the depth rule must not let the anchor advance (discarding forks) while ANOTHER
    // child's longest chain is less than the adaptive bound behind the leader's.
    #[test]
    fn f6_depth_rule_compares_with_the_deepest_other_child() {
        let network = Network::Regtest;
        let utxos = crate::UtxoSet::new(network);
        let threshold: u32 = 2;
        // anchor with a huge difficulty so that the difficulty rule cannot fire
        let anchor = BlockChainBuilder::new(1).with_difficulty(1_000_000, 0..).build().remove(0);
        // A: 700 blocks (first one of difficulty 30) -> heaviest (729) and deepest
        // B:  60 blocks of difficulty 12            -> second heaviest (720), shallow
        // C: 690 blocks of difficulty 1             -> lightest (690) but only 10 blocks shorter than A
        let a = BlockChainBuilder::fork(&anchor, 700).with_difficulty(30, 0..1).with_difficulty(1, 1..).build();
        let b = BlockChainBuilder::fork(&anchor, 60).with_difficulty(12, 0..).build();
        let c = BlockChainBuilder::fork(&anchor, 690).with_difficulty(1, 0..).build();
        let cache = crate::test_utils::TestBlocksCache::new(network);
        let mut blocks = unstable_blocks::UnstableBlocks::new(cache, &utxos, threshold, anchor.clone(), network);
        for blk in a.iter().chain(b.iter()).chain(c.iter()) {
            unstable_blocks::push(&mut blocks, &utxos, blk.clone()).unwrap();
        }
        let bound = unstable_blocks::testnet_unstable_max_depth_difference(unstable_blocks::blocks_count(&blocks), threshold).get();
        assert!(bound > 10 && bound <= 700 - 60, "scenario: A leads B by more than the bound ({bound}) but C by only 10");
        assert!(blocks.blocks_difficulty_based_depth().get() < blocks.normalized_stability_threshold() + 1_000_000);
        assert!(unstable_blocks::peek(&blocks).is_none(),
            "the anchor is reported stable although fork C is only 10 blocks shorter than A (bound {bound})");
    }

    // F9 (C06): pages form one snapshot even if the block holding the UTXOs stabilises between two page requests.
    // One transaction pays the address with 1300 outputs; page 1 is served while the block is unstable (unstable source,
    // ordered by Utxo::cmp = numeric vout), page 2 after it has become stable (stable index, ordered by key bytes).
    #[test]
    fn f9_pages_are_one_snapshot_across_stabilisation() {
        let network = Network::Regtest;
        let btc_network = into_bitcoin_network(network);
        crate::init(InitConfig { stability_threshold: Some(3), network: Some(network), ..Default::default() });
        let address: crate::types::Address = random_p2pkh_address(btc_network).into();
        let mut tx = TransactionBuilder::coinbase();
        for i in 0..1300u64 {
            tx = tx.with_output(&address, 1000 + i);
        }
        let genesis = genesis_block(network);
        let b1 = BlockBuilder::with_prev_header(genesis.header()).with_transaction(tx.build()).build();
        let b2 = BlockBuilder::with_prev_header(b1.header()).build();
        let b3 = BlockBuilder::with_prev_header(b2.header()).build();
        with_state_mut(|s| {
            for b in [&b1, &b2] {
                state::insert_block(s, b.clone()).unwrap();
            }
        });
        let p1 = get_utxos(GetUtxosRequest { address: address.to_string(), filter: None }).unwrap();
        assert_eq!(p1.utxos.len(), 1000);
        let token = p1.next_page.clone().expect("more than one page");
        // the chain grows, genesis and then b1 become stable and are ingested into the stable UTXO set
        with_state_mut(|s| {
            for b in [&b3, &BlockBuilder::with_prev_header(b3.header()).build()] {
                state::insert_block(s, b.clone()).unwrap();
            }
        });
        for _ in 0..10 {
            with_state_mut(state::ingest_stable_blocks_into_utxoset);
        }
        assert!(with_state(|s| s.utxos.next_height()) >= 2, "scenario: b1 is stable now");
        let p2 = get_utxos(GetUtxosRequest { address: address.to_string(), filter: Some(UtxosFilter::Page(token.to_vec().into())) }).unwrap();
        assert_eq!(p2.tip_block_hash, p1.tip_block_hash, "every page names the first response's tip");
        assert!(p2.next_page.is_none());
        let mut vouts: Vec<u32> = p1.utxos.iter().chain(p2.utxos.iter()).map(|u| u.outpoint.vout).collect();
        vouts.sort();
        let expected: Vec<u32> = (0..1300).collect();
        let missing: Vec<u32> = expected.iter().filter(|v| !vouts.contains(v)).cloned().collect();
        let mut dup = vouts.clone();
        dup.dedup();
        assert!(vouts == expected, "following the pages returned {} outputs ({} distinct) of 1300; missing {:?}",
            vouts.len(), dup.len(), &missing[..missing.len().min(8)]);
    }
}
