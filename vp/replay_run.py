"""Concrete replays (#[test]s compiled into a scratch copy of /repo's working tree)."""


def run_replays(replays, pid):
    return dict(results=[], cmds=[])
