"""Concrete replays of findings: #[test]s (replays/*.rs) appended to a source file of a scratch copy of /repo's CURRENT
working tree, built and run with cargo test. A replay asserts what the property demands: it fails on a tree that has the
defect and passes on a repaired one. Replays are evidence about findings, never counted as discharged obligations."""
import os
import re
import shutil
import subprocess
import tempfile
import time

HERE = os.path.dirname(os.path.abspath(__file__))
ROOT = os.path.dirname(HERE)
REPO = os.environ.get("VP_REPO", "/repo")

# replay sets: file to append, target source file, crate
SETS = {
    "canister": dict(src="replays/canister_replays.rs", append_to="canister/src/lib.rs", crate="ic-btc-canister", module="vp_replays"),
}


def run_replays(replays, pid):
    """replays: list of dicts {set, test, finding}"""
    out = dict(results=[], cmds=[])
    by_set = {}
    for r in replays:
        by_set.setdefault(r["set"], []).append(r)
    for sname, rs in by_set.items():
        cfg = SETS[sname]
        scratch = tempfile.mkdtemp(prefix="vp_replay_")
        try:
            dst = os.path.join(scratch, "repo")
            subprocess.run(["rsync", "-a", "--exclude", "target", "--exclude", ".git", REPO + "/", dst + "/"], check=True)
            with open(os.path.join(ROOT, cfg["src"])) as f:
                txt = f.read()
            with open(os.path.join(dst, cfg["append_to"]), "a") as f:
                f.write("\n\n// ---- appended by /verif (replays of findings) ----\n" + txt)
            env = dict(os.environ, CARGO_NET_OFFLINE="true", CARGO_TARGET_DIR=os.path.join(scratch, "target"))
            cmd = ["cargo", "test", "-p", cfg["crate"], "--lib", "--offline", "--no-fail-fast", cfg["module"] + "::"]
            out["cmds"].append(" ".join(cmd) + "   (in a scratch copy of /repo with %s appended to %s)" % (cfg["src"], cfg["append_to"]))
            t0 = time.time()
            try:
                p = subprocess.run(["timeout", "1500"] + cmd, cwd=dst, env=env, capture_output=True, text=True)
                log = p.stdout + "\n" + p.stderr
            except Exception as e:  # noqa
                log = "runner error: %s" % e
            os.makedirs(os.path.join(ROOT, "out"), exist_ok=True)
            lp = os.path.join(ROOT, "out", "replay_%s_%s.log" % (sname, pid))
            with open(lp, "w") as f:
                f.write(log[-400000:])
            for r in rs:
                m = re.search(r"test %s::%s(?: - should panic)? \.\.\. (ok|FAILED)" % (re.escape(cfg["module"]), re.escape(r["test"])), log)
                if not m:
                    st, detail = "undecided", "test did not run (build error?): %s" % log[-600:]
                elif m.group(1) == "ok":
                    st, detail = "pass", ""
                else:
                    mm = re.search(r"---- %s::%s stdout ----(.*?)(?:\n---- |\nfailures:)" % (re.escape(cfg["module"]), re.escape(r["test"])), log, re.S)
                    msg = ""
                    if mm:
                        pm = re.search(r"panicked at[^\n]*\n([^\n]*)", mm.group(1))
                        msg = pm.group(0)[:600] if pm else mm.group(1)[-600:]
                    st, detail = "fail", msg
                rp = os.path.join(ROOT, "out", "replay", "replay.%s.%s.json" % (pid, r["test"]))
                os.makedirs(os.path.dirname(rp), exist_ok=True)
                import json
                with open(rp, "w") as f:
                    json.dump(dict(property=pid, obligation="replay." + r["test"], finding=r.get("finding"), status=st,
                                   test="%s::%s in %s" % (cfg["module"], r["test"], cfg["src"]), output=detail,
                                   failing_input_found=(st == "fail"),
                                   how_to_replay="python3 vp/check.py %s --replay %s" % (pid, rp)), f, indent=1)
                out["results"].append(dict(name=r["test"], finding=r.get("finding"), status=st, detail=detail, path=rp,
                                           wall_s=round(time.time() - t0, 1)))
        finally:
            shutil.rmtree(scratch, ignore_errors=True)
    return out
