#!/usr/bin/env python3
"""check.py <Cxx> [--tier quick|thorough] [--replay FILE]

Exit 0: every obligation of the property discharged on /repo's current working tree
        (known findings printed as KNOWN-FINDING lines).
Exit 1: a `VIOLATION property=<id> replay=<path>` line was printed.
Exit 2: undecided (anchor lost, front-end error, resource limit, tool crash) — never an alarm.
"""
import argparse
import hashlib
import json
import os
import re
import sys
import time

HERE = os.path.dirname(os.path.abspath(__file__))
ROOT = os.path.dirname(HERE)
sys.path.insert(0, HERE)

import verus_run  # noqa: E402
import kani_run  # noqa: E402
import replay_run  # noqa: E402
from props import PROPS  # noqa: E402

OUT = os.path.join(ROOT, "out")
EVID = os.path.join(ROOT, "evidence")
# dev runs (a seeded tree via VP_REPO, or a run with the Kani / replay side skipped) must never overwrite the evidence about /repo
if os.environ.get("VP_REPO") or os.environ.get("VP_DEV_SKIP_KANI") or os.environ.get("VP_DEV_SKIP_REPLAYS"):
    EVID = os.path.join(ROOT, "out", "dev_evidence")
    os.makedirs(EVID, exist_ok=True)


def load_known():
    p = os.path.join(ROOT, "known_findings.json")
    if not os.path.exists(p):
        return []
    with open(p) as f:
        return json.load(f).get("findings", [])


def scan_trusted(unit, gen_src):
    """mechanical scan of the emitted text for everything that is assumed rather than proved"""
    out = []
    lines = gen_src.split("\n")
    for i, l in enumerate(lines, 1):
        s = l.strip()
        m = re.search(r"\[trusted:([\w-]+)\]\s*(.*)", s)
        if m:
            out.append("verus unit %s: %s — %s" % (unit, m.group(1), m.group(2)))
        if re.search(r"\bassume_specification\b", s) and not s.startswith("//"):
            out.append("verus unit %s line %d: %s" % (unit, i, s[:160]))
        if "external_body" in s and not s.startswith("//"):
            nxt = ""
            for k in range(i, min(i + 4, len(lines))):
                if re.search(r"\bfn\b", lines[k]):
                    nxt = lines[k].strip()
                    break
            out.append("verus unit %s line %d: external_body %s" % (unit, i, nxt[:160]))
        if re.search(r"\b(assume|admit)\s*\(", s) and not s.startswith("//"):
            out.append("verus unit %s line %d: !! %s" % (unit, i, s[:160]))
    return out


# a property whose statement depends on another property's subject also owns that property's obligations:
# C10 ("... and it passes header and block validation") includes the validation rules of C11 and C12
PROP_INCLUDES = {"C10": ("C11", "C12")}


def relevant(rec_props, pid):
    return (not rec_props) or pid in rec_props or any(q in rec_props for q in PROP_INCLUDES.get(pid, ()))


# names too common to tell a callee by (a method call `.name(` does not say which type's method it is)
COMMON_METHOD_NAMES = {"new", "from", "get", "len", "clone", "default", "insert", "remove", "iter", "next", "first", "last", "push",
                       "pop", "into", "as_slice", "to_vec", "to_bytes", "from_bytes", "contains", "is_empty", "start", "end", "height"}


def propagate_props(records, gen_src):
    """A function carries the properties of every extracted function that calls it (transitively): main_chain_height (C02, C07,
    C14) calls get_main_chain_length, which calls main_chain_length_by_difficulty(_inner) — a change of the callee that breaks its
    contract is a violation of every property that reaches it. Callees are recognised by name in the caller's rendered text:
    free functions by `name(` / `path::name(`, methods by `.name(` or `Type::name(`, except for very common method names."""
    if not gen_src:
        return
    lines = gen_src.split("\n")
    fns = [rec for rec in records if rec.get("fn_name") and rec.get("gen_lines")]
    body = {}
    for rec in fns:
        a, b = rec["gen_lines"]
        body[id(rec)] = "\n".join(lines[a - 1:b])
    changed = True
    rounds = 0
    while changed and rounds < 20:
        changed = False
        rounds += 1
        for callee in fns:
            nm = callee["fn_name"]
            is_method = bool(callee.get("container"))
            if is_method and nm in COMMON_METHOD_NAMES:
                continue
            rx = re.compile((r"(?:\.|::)%s\s*(?:::<[^>]*>)?\(" if is_method else r"(?<![\w.])(?:\w+::)*%s\s*\(") % re.escape(nm))
            for caller in fns:
                if caller is callee or not caller["props"]:
                    continue
                extra = [p_ for p_ in caller["props"] if p_ not in callee["props"]]
                if not extra:
                    continue
                if rx.search(body[id(caller)]):
                    callee["props"] = callee["props"] + extra
                    changed = True


def main():
    ap = argparse.ArgumentParser()
    ap.add_argument("prop")
    ap.add_argument("--tier", default=os.environ.get("VERIF_TIER", "quick"))
    ap.add_argument("--replay")
    ap.add_argument("--keep", help="keep rendered verus files in this directory")
    a = ap.parse_args()
    pid = a.prop
    if pid not in PROPS:
        print("unknown property %s" % pid)
        return 2
    cfg = PROPS[pid]
    tier = a.tier if a.tier in ("quick", "thorough") else "quick"
    seed = int(os.environ.get("VERIF_SEED", "0") or 0)
    t0 = time.time()
    os.makedirs(OUT, exist_ok=True)
    os.makedirs(EVID, exist_ok=True)
    replay_only = None
    if a.replay:
        with open(a.replay) as f:
            replay_only = json.load(f)

    known = [k for k in load_known() if k.get("property") == pid or pid in (k.get("also") or [])]
    obligations = []     # dicts: id, tool, status(discharged|failed|undecided), detail
    violations = []      # dicts: obligation, kind, text, replay
    undecided = []
    trusted = []
    functions_under_contract = []
    slices = []
    bounded = []
    samples = []
    solver_ms = 0
    checker_cmds = []
    canary_info = {}

    # ---------------------------------------------------------------- Verus units
    for unit in cfg.get("verus_units", []):
        tpl = os.path.join(ROOT, "units", unit, "unit.rs.tpl")
        keep = None
        if a.keep:
            keep = os.path.join(a.keep, unit)
            os.makedirs(keep, exist_ok=True)
        r = verus_run.run_unit(tpl, keep_dir=keep)
        if r["status"] != "ok" and tier == "quick" and any("resource" in t or "rlimit" in t for t in r["tool_errors"]):
            r = verus_run.run_unit(tpl, rlimit=40, keep_dir=keep)
        checker_cmds.append(r.get("verus_cmd", ""))
        solver_ms += r.get("solver_ms", 0)
        if r.get("gen_src"):
            trusted += scan_trusted(unit, r["gen_src"])
        lemma_props = {}
        for lm in r.get("meta", {}).get("lemmas", []):
            lemma_props[lm["fn"]] = lm["props"]
        # per-function relevance
        rec_by_fn = {}
        for rec in r.get("records", []):
            if rec.get("fn_name"):
                rec_by_fn.setdefault(rec["fn_name"], []).append(rec)
            for fnm in rec.get("fn_names", []) or []:
                rec_by_fn.setdefault(fnm, []).append(rec)
        propagate_props(r.get("records", []), r.get("gen_src", ""))
        canary_info[unit] = r.get("canary", {})
        if r["status"] == "undecided" and not r.get("functions"):
            undecided.append("verus unit %s: %s" % (unit, "; ".join(r["tool_errors"])))
            continue
        failed_by_fn = {}
        for f_ in r["failures"]:
            failed_by_fn.setdefault(f_["fn"], []).append(f_)
        for qname, info in sorted(r["functions"].items()):
            short = qname.split("::")[-1]
            if short.startswith("vp_canary_"):
                continue
            if info.get("mode") == "spec":
                continue  # termination checks of spec fns are support, not obligations of the repo code
            recs = rec_by_fn.get(short, [])
            parts = qname.split("::")
            nested_in = None
            if not recs and len(parts) >= 3 and parts[-2] in rec_by_fn:
                # a fn nested inside an extracted fn: it belongs to that extraction (its props, its record, its diagnostics)
                nested_in = parts[-2]
                recs = rec_by_fn[nested_in]
            # which record does this qualified name belong to? match container type name if several
            rec = None
            if len(recs) == 1:
                rec = recs[0]
            elif len(recs) > 1:
                ty = qname.split("::")[-2] if "::" in qname else ""
                for c in recs:
                    cont = c.get("container") or c.get("item") or ""
                    if re.search(r"\b%s\b" % re.escape(ty), cont):
                        rec = c
                rec = rec or recs[0]
            if rec is not None:
                props = rec["props"]
            elif short in lemma_props:
                props = lemma_props[short]
            else:
                props = []  # shared support (spec lemmas, prelude helpers)
            if not relevant(props, pid):
                continue
            oid = "%s.%s.%s" % (pid, unit, qname.split("::", 1)[-1])
            fails = failed_by_fn.get(short, [])
            if nested_in and not info.get("success"):
                fails = failed_by_fn.get(nested_in, [])
            if rec is not None:
                fails = [x for x in fails if x["record"] is rec or x["record"] is None]
            status = "discharged" if info.get("success") else "failed"
            ob = dict(id=oid, tool="verus", status=status, mode=info.get("mode"), solver_ms=info.get("time_ms"),
                      rlimit=info.get("rlimit"), shared_support=(rec is None and short not in lemma_props))
            obligations.append(ob)
            if rec is not None and rec.get("contracted", False) or (rec is not None):
                fu = dict(function=rec["item"], container=rec.get("container"), file=rec["file"], lines=rec["lines"],
                          sha256=rec["sha256"][:16], rules=rec["rules"], tool="verus", solver_ms=info.get("time_ms"),
                          rlimit=info.get("rlimit"), verified=bool(info.get("success")), kind=rec["kind"])
                if rec["kind"] == "slice":
                    fu["slice_lines"] = rec.get("slice_lines")
                    slices.append("%s %s lines %s: only this statement range is verified; the rest of the function is not"
                                  % (rec["file"], rec["item"], rec.get("slice_lines")))
                if rec.get("rewrites"):
                    fu["rewrites"] = rec["rewrites"]
                functions_under_contract.append(fu)
            if status == "failed":
                sem = [x for x in fails]
                if sem:
                    for x in sem:
                        violations.append(dict(obligation=oid + "." + x["kind"], unit=unit, fn=short, kind=x["kind"],
                                               clause=x["clause"], text=x["rendered"], tool="verus",
                                               file=rec["file"] if rec else None, item=rec["item"] if rec else None))
                else:
                    undecided.append("verus unit %s: %s failed without a semantic diagnostic: %s"
                                     % (unit, short, "; ".join(r["tool_errors"])[:400]))
        # tool errors that are not attributable
        if r["status"] == "undecided":
            for t in r["tool_errors"]:
                if "failed without a semantic" in t:
                    continue
                undecided.append("verus unit %s: %s" % (unit, t))
        # sample obligations: clause text of contracted functions
        for rec in r.get("records", []):
            if rec.get("contracted") and relevant(rec["props"], pid) and len(samples) < 12:
                lo, hi = rec["gen_lines"]
                txt = r["gen_src"].split("\n")[lo - 1:hi]
                spec = [l.strip() for l in txt if re.match(r"\s*(requires|ensures|invariant|decreases)\b", l) or l.strip().endswith(",")][:8]
                samples.append(dict(obligation="%s.%s.%s" % (pid, unit, rec["fn_name"]), source="%s:%d-%d" % (rec["file"], rec["lines"][0], rec["lines"][1]),
                                    clauses=spec))

    # ---------------------------------------------------------------- Kani harness groups
    kani_groups = cfg.get("kani", [])
    if os.environ.get("VP_DEV_SKIP_KANI"):
        kani_groups = []
    rp = cfg.get("replays", [])
    if os.environ.get("VP_DEV_SKIP_REPLAYS"):
        rp = []
    rp = [r_ for r_ in rp if tier == "thorough" or r_.get("tier", "thorough") == "quick"]
    replay_future = None
    pool = None
    if rp:
        import concurrent.futures
        pool = concurrent.futures.ThreadPoolExecutor(max_workers=1)
        replay_future = pool.submit(replay_run.run_replays, rp, pid)
    if kani_groups:
        kr = kani_run.run_groups(kani_groups, pid, tier)
        checker_cmds += kr["cmds"]
        trusted += kr["trusted"]
        for h in kr["harnesses"]:
            oid = "%s.kani.%s" % (pid, h["name"])
            if h["kind"] == "bounded":
                bounded.append(dict(harness=h["name"], bound=h.get("bound"), result=h["status"], time_s=h.get("time_s"),
                                    what=h.get("what")))
                if h["status"] == "failed":
                    violations.append(dict(obligation=oid, unit="kani", fn=h["name"], kind="kani-bounded",
                                           clause=h.get("what", ""), text=h.get("output", ""), tool="kani",
                                           file=h.get("file"), item=h.get("target"), playback=h.get("playback")))
                elif h["status"] != "ok":
                    undecided.append("kani harness %s: %s" % (h["name"], h.get("detail", h["status"])))
                continue
            ob = dict(id=oid, tool="kani", status="discharged" if h["status"] == "ok" else ("failed" if h["status"] == "failed" else "undecided"),
                      solver_ms=int(1000 * (h.get("time_s") or 0)), complete_because=h.get("complete_because"))
            obligations.append(ob)
            functions_under_contract.append(dict(function=h.get("target"), file=h.get("file"), tool="kani", harness=h["name"],
                                                 what=h.get("what"), verified=h["status"] == "ok", time_s=h.get("time_s")))
            if len(samples) < 16:
                samples.append(dict(obligation=oid, what=h.get("what"), target=h.get("target")))
            if h["status"] == "failed":
                violations.append(dict(obligation=oid, unit="kani", fn=h["name"], kind="kani", clause=h.get("what", ""),
                                       text=h.get("output", ""), tool="kani", file=h.get("file"), item=h.get("target"),
                                       playback=h.get("playback")))
            elif h["status"] != "ok":
                undecided.append("kani harness %s: %s" % (h["name"], h.get("detail", h["status"])))
        solver_ms += int(1000 * kr.get("solver_s", 0))

    # ---------------------------------------------------------------- concrete replays of findings (fixed / open)
    replay_results = []
    if replay_future is not None:
        rr = replay_future.result()
        pool.shutdown()
        replay_results = rr["results"]
        checker_cmds += rr["cmds"]

    # ---------------------------------------------------------------- verdict
    lines_out = []
    exit_code = 0
    n_viol = 0
    reported = set()

    def known_match(ob_id, kind):
        for k in known:
            if k.get("status") == "open" and k.get("obligation") == ob_id:
                return k
        return None

    for v in violations:
        if replay_only and replay_only.get("obligation") != v["obligation"]:
            continue
        k = known_match(v["obligation"], v["kind"])
        if k:
            key = ("K", v["obligation"])
            if key not in reported:
                lines_out.append("KNOWN-FINDING: property=%s %s — %s" % (pid, v["obligation"], k.get("what", "")))
                reported.add(key)
            continue
        key = v["obligation"]
        if key in reported:
            continue
        reported.add(key)
        n_viol += 1
        rpath = os.path.join(OUT, "replay", "%s.json" % re.sub(r"[^A-Za-z0-9_.-]", "_", v["obligation"]))
        os.makedirs(os.path.dirname(rpath), exist_ok=True)
        has_input = bool(v.get("playback"))
        with open(rpath, "w") as f:
            json.dump(dict(property=pid, obligation=v["obligation"], tool=v["tool"], kind=v["kind"],
                           repo_file=v.get("file"), repo_item=v.get("item"), failed_clause=v["clause"],
                           verifier_output=v["text"], concrete_playback=v.get("playback"),
                           failing_input_found=has_input,
                           how_to_replay="python3 vp/check.py %s --replay %s" % (pid, rpath)), f, indent=1)
        suffix = "" if has_input else " no-failing-input-found"
        lines_out.append("VIOLATION property=%s replay=%s obligation=%s%s" % (pid, rpath, v["obligation"], suffix))
        exit_code = 1

    for r_ in replay_results:
        fk = r_.get("finding")
        if r_["status"] == "fail":
            k = None
            for kk in known:
                if kk.get("id") == fk and kk.get("status") == "open":
                    k = kk
            if k:
                lines_out.append("KNOWN-FINDING: property=%s %s — %s" % (pid, fk, k.get("what", "")))
            else:
                n_viol += 1
                lines_out.append("VIOLATION property=%s replay=%s obligation=replay.%s" % (pid, r_["path"], r_["name"]))
                exit_code = 1
        elif r_["status"] == "pass":
            for kk in known:
                if kk.get("id") == fk and kk.get("status") == "open":
                    lines_out.append("NOTE: known finding %s no longer reproduces (stale entry?)" % fk)
        else:
            undecided.append("replay %s: %s" % (r_["name"], r_.get("detail", "")))

    if exit_code == 0 and undecided:
        exit_code = 2

    n_ob = len(obligations)
    n_dis = len([o for o in obligations if o["status"] == "discharged"])
    assumptions = list(cfg.get("assumptions", []))
    ev = dict(
        property_id=pid, tier=tier, seed=seed, level="proof",
        coverage=dict(
            obligations=n_ob, discharged=n_dis,
            checker_cmd=" ; ".join(sorted(set(c for c in checker_cmds if c))),
            trusted_base=sorted(set(trusted)),
            explanation=cfg.get("explanation", ""),
            back_ends=sorted(set(o["tool"] for o in obligations)),
            obligation_ids=[o["id"] for o in obligations],
            obligations_detail=obligations,
            functions_under_contract=functions_under_contract,
            slices=sorted(set(slices)),
            bounded=bounded,
            unverified_links=cfg.get("unverified_links", []),
            samples=samples or [dict(note="no obligations rendered")],
            canary=canary_info,
            solver_ms=solver_ms,
            replays=[dict(name=r_["name"], status=r_["status"], finding=r_.get("finding")) for r_ in replay_results],
            undecided=undecided,
            known_findings=[dict(id=k.get("id"), status=k.get("status"), what=k.get("what")) for k in known],
            exhaustive=False,
        ),
        assumptions=assumptions,
        wall_s=round(time.time() - t0, 2),
        violations=n_viol,
    )
    with open(os.path.join(EVID, "%s.json" % pid), "w") as f:
        json.dump(ev, f, indent=1, sort_keys=False)
        f.write("\n")

    for l in lines_out:
        print(l)
    for u in undecided:
        print("UNDECIDED: %s" % u)
    print("%s tier=%s obligations=%d discharged=%d bounded=%d violations=%d undecided=%d wall=%.1fs exit=%d"
          % (pid, tier, n_ob, n_dis, len(bounded), n_viol, len(undecided), time.time() - t0, exit_code))
    return exit_code


if __name__ == "__main__":
    sys.exit(main())
