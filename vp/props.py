"""Per-property configuration: which units / harness groups / replays decide it, and the
named gaps (unverified links) and assumptions that every evidence file repeats."""

COMMON_ASSUMPTIONS = [
    "Verus 0.2026.09.13 / Z3 and Kani 0.68 / CBMC 6.11 are sound",
    "extraction rules R1 (logging removed), R2 (visibility/attributes stripped), R5 (assert! => proof obligation) do not change run-time meaning; R4/R7/R8 rewrites are listed per function in coverage.functions_under_contract[].rewrites",
    "stand-in types of the Verus preludes (coverage.trusted_base) model the dependency types they replace",
    "IC message atomicity: one message runs to completion on one state between awaits",
]

PROPS = {
    "C02": dict(
        verus_units=["core"],
        explanation="Verus proves, on the function text extracted from canister/src/blocktree.rs at run time, that "
                    "main_chain_by_difficulty(_inner) / main_chain_length_by_difficulty(_inner) return exactly best_path/best_key, "
                    "and lemma_best_is_max proves best_path is the maximum over ALL root-to-leaf branches by (sum difficulty, length) "
                    "and the first such branch in child (arrival) order.",
        technique="Verus contracts on extracted blocktree.rs best-chain functions + max-over-all-leaf-paths lemma",
        level_text="unbounded deductive proof (all trees, all difficulty assignments) that the real best-chain functions return the "
                   "lexicographic maximum by (accumulated difficulty, length, arrival order) over all root-to-leaf branches",
        level_note="assumes BlockTree::wf (difficulty sums < 2^128), derive(Ord)/tuple-order/std::cmp::max/slice::reverse specs; "
                   "endpoints' use of the chain is covered only as far as units state/walk go (see unverified_links in evidence)",
        unverified_links=[],
        assumptions=COMMON_ASSUMPTIONS + [
            "accumulated difficulty of every branch of the unstable tree < 2^128 and branch lengths < 2^64 (BlockTree::wf)",
        ],
    ),
    "C08": dict(
        verus_units=["ingest", "core"],
        technique="Verus contracts on the real bodies of utxos_delta.rs and of utxo_set.rs's time-sliced ingestion, with the budget predicate "
                  "replaced by an arbitrary boolean at every call (the quantifier over schedules), a pause-point invariant (paused_ok) and a "
                  "schedule-free spec function of the finished block (apply_txs); heartbeat phase order from unit core",
        level_text="PARTIAL, unbounded (any block, any pause positions, any number of rounds). Decided for the UTXO map and its reader: "
                   "(1) at EVERY pause of ingest_block_continue — whatever the budget predicate answers, at every input and every output — "
                   "UtxoSet::get_utxo (verified: it reverts the ingesting block's delta) answers, for every output that pays an address, exactly what "
                   "it answered before the block's ingestion began; (2) the position stored at a pause (transaction, input, output index) is exact: "
                   "the set equals the start state with precisely the work up to that position applied (progress), so nothing is applied twice or "
                   "skipped on resume; (3) when the block is done the set is apply_txs(start state, block) — a function of the start state and the "
                   "block only, hence identical to an unsliced run; the delta's five indexes stay consistent (UtxosDelta::wf) and the repo's own "
                   "assertions on them never fire. (core) heartbeat() returns before fetching or processing while a block is being ingested and the "
                   "stable height does not move at a pause (C03/C13 obligations)",
        level_note="NOT decided: the balances map and the address index under pauses (UtxoSet::get_balance and get_address_outpoints revert "
                   "per-address sums / BTreeSets built by closures: not under contract; seed C01e is nevertheless caught because it breaks the "
                   "delta bookkeeping that get_utxo reads), outputs that pay no address (the code does not record them in the delta; no endpoint "
                   "can ask for them), termination (needs a fairness assumption on the budget predicate), the endpoints' answers as wholes "
                   "(headers / info / utxos with filters), upgrades in the middle of an ingestion. Traps of the repo on blocks that are not "
                   "transaction-valid or on disagreeing stable maps end the message (refuse mode: outside the property's domain).",
        explanation="unit `ingest` verifies utxos_delta.rs (whole) and six functions of impl UtxoSet on stand-in stable maps (map semantics) and "
                    "stand-in transaction types; each function's contract carries view_ok + frame + exact progress, so a caller is checked against "
                    "the callee's contract only.",
        unverified_links=[
            "utxo_set.rs::get_balance / get_address_outpoints (reverted balances and address index while paused) and state.rs/heartbeat.rs glue that calls ingest_block(_continue)",
            "utxos.rs (small/medium/large stable maps), StableBTreeMap<Address, u64>, the address index keyed by AddressUtxo::to_bytes: stand-ins with map semantics (key codec: Kani harnesses of C01)",
            "liveness (ingestion finishes after finitely many rounds): needs an assumption on default_should_time_slice",
        ],
        assumptions=COMMON_ASSUMPTIONS + [
            "domain, stated as preconditions (block_static / block_domain / tx_domain): transaction-valid block — pairwise different transaction ids, no outpoint spent twice, no transaction spends an output of itself or of a later transaction, inputs not yet spent by this block, created outpoints new (no BIP-30 duplicates), fewer than 2^32 transactions / inputs / outputs",
            "machine arithmetic: address balances stay below 2^64 (an `assume`, listed in trusted_base); instruction-count statistics removed (R1)",
            "rewrites R4 (enumerate().skip(k) => counter + `if i < k { continue; }`), R24 (continue elimination), R7 (budget predicate => arbitrary boolean), R21, R17, R3, R10 preserve meaning; each application is listed per function",
        ],
    ),
    "C20": dict(
        verus_units=["ledger", "core"],
        technique="Verus contracts on the real bodies of outpoints_cache.rs (insert_outpoints, OutPointsCache::remove with its nested fn, the getters) "
                  "and next_block_headers.rs (all six methods), with representation invariants; history lemmas (induction over any sequence of "
                  "insertions and removals) over the two contracts",
        level_text="PARTIAL, unbounded. Decided for the cached transaction outputs, their reference counts, the per-block address deltas and the "
                   "announced headers: (ledger) insert_outpoints adds exactly one reference per spending input and per created output of the block "
                   "(refs_block, written from the statement) and records the block's two deltas under its hash, or changes nothing when an input "
                   "cannot be found; OutPointsCache::remove releases exactly those references, deletes an entry exactly when its last reference goes, "
                   "drops the block's deltas and never traps for a block that is held; lemma_insert_keeps_exact / lemma_held_block_can_be_removed / "
                   "lemma_remove_keeps_exact / lemma_no_leak_no_dangle lift this to: after ANY history the count of every outpoint equals the number "
                   "of references from the blocks currently held, an entry exists iff some held block references it. (core) NextBlockHeaders: the "
                   "per-height and per-hash indexes stay in step (nbh_wf) under insert / remove / remove_until_height, remove drops exactly the "
                   "arrived block's header and never traps, remove_until_height drops exactly the headers at or below the stable height, "
                   "get_max_height is the greatest announced height; pop drops the announced headers at or below the new stable height; "
                   "insert_next_block_headers never announces a header twice",
        level_note="NOT decided: block bodies in stable memory (BlocksCache behind Rc<RefCell<Box<dyn ..>>>: remove_from_cache, extend_cached are stand-ins), "
                   "the cached tip depths (refresh_tip_depths_cache stores an opaque vector), the CONTENT of the per-address delta lists (only their keys), "
                   "that unstable_blocks::push / pop call insert_outpoints / remove for exactly the blocks entering / leaving the tree (push is an assumed "
                   "contract; pop's loop over the discarded subtree iterates an opaque `blocks()` vector), upgrades",
        explanation="two Verus units: `ledger` verifies outpoints_cache.rs on stand-in transaction types; `core` verifies next_block_headers.rs in the same "
                    "crate as its callers (pop, insert_next_block_header(s), is_synced), so the representation invariant is threaded through them.",
        unverified_links=[
            "blocks_cache.rs (BlocksCache trait object, stable-memory bodies) and BlockTree::remove_from_cache / extend_cached / tip_depths: stand-ins",
            "unstable_blocks::push (assumed contract) and the loop of pop over `tree.blocks()` (opaque vector): that insert_outpoints / OutPointsCache::remove are called for exactly the blocks that enter / leave the tree",
            "content of added_outpoints / removed_outpoints per address (which outpoints, in which order): only the key sets are specified",
            "std BTreeMap::pop_first / first_key_value / last_key_value / Entry::or_insert, <[T]>::contains (assumed specifications); Ord lawfulness of the key types (axioms)",
            "upgrades (serialisation of the caches)",
        ],
        assumptions=COMMON_ASSUMPTIONS + [
            "ranges: reference counts fit u32, fewer than 2^28 transactions per block and inputs / outputs per transaction, the input values of one transaction sum below 2^64 (an `assume`, listed in trusted_base), announced heights below 2^32 - 1",
            "rewrites R21-R26 (entry API, first/last key, position, continue elimination, by-value map iteration, slice iteration) preserve meaning; each application is listed per function",
        ],
    ),
}

PROPS["C11"] = dict(
    verus_units=["valid", "core"],
    kani=["validation_leaf"],
    technique="Verus contracts on all of validation/src/header/mod.rs against a consensus-rule spec (accept_spec)",
    level_text="unbounded deductive proof (all header chains, networks, candidates, times) that validate_header accepts iff the consensus rules "
               "listed in the statement hold and otherwise reports the first failing rule; loops (median-time-past walk, min-difficulty walk-back) by invariant",
    level_note="rust-bitcoin is uninterpreted (target/from_compact/validate_pow/from_next_work_required incl. the 4x clamp and 256-bit arithmetic, hashing); "
               "store is an abstract chain with injective hashes; heights < 2^32-1, times < 2^32-1200; 2h rule's Duration arithmetic proved by Kani, assumed in Verus",
    explanation="validate_header, is_timestamp_valid, get_next_target, find_next_difficulty_in_chain, compute_next_difficulty and constants.rs are extracted "
                "verbatim and proved equal to accept_spec / median_time_past / required_target / walk_back / retarget_bits.",
    unverified_links=[
        "canister/src/validation.rs: the three HeaderStore methods of ValidationContext ARE verified (unit core, fragment hstore: lookups over stable headers ++ context chain) given the assumed map semantics of BlockHeaderStore; ValidationContext::new / new_with_next_block_headers building that chain are not",
        "rust-bitcoin CompactTarget::from_next_work_required (4x clamp, pow limit) and Header::validate_pow are dependencies: uninterpreted",
    ],
    assumptions=COMMON_ASSUMPTIONS + [
        "block hashes are injective along the header chain", "chain heights < 2^32-1, header times < 2^32-1200, current time < 2^63 s",
        "HeaderStore contract: height() is the height of the tip the candidate extends (its parent, if known, is that tip)",
    ],
)

PROPS["C12"] = dict(
    verus_units=["valid", "core"],
    technique="Verus contracts on validation/src/block/mod.rs (validate_block, ensure_unique_transactions) + duplication lemma",
    level_text="unbounded deductive proof (all transaction lists) that a block body is accepted iff it is non-empty, starts with a coinbase, "
               "has a matching merkle root and pairwise distinct normalised txids; every list repeating a transaction is refused (CVE-2012-2459 family) by lemma",
    level_note="is_coinbase / check_merkle_root / compute_ntxid are rust-bitcoin (uninterpreted); 'every valid block is accepted' additionally needs "
               "'distinct valid transactions never share an ntxid' (hash collision freedom), assumed",
    explanation="validate_block and ensure_unique_transactions extracted verbatim; loop invariant over the BTreeSet view gives the iff; "
                "BlockValidator::validate_block verified after the reported R10 rewrite of map_err/and_then into a match.",
    unverified_links=[
        "rust-bitcoin Block::check_merkle_root, Transaction::compute_ntxid, Transaction::is_coinbase (dependencies, uninterpreted)",
    ],
    assumptions=COMMON_ASSUMPTIONS + [
        "two distinct valid transactions never share a normalised txid (needed only for 'every valid block is accepted')",
        "Result::map_err / and_then behave as their definition (rule R10 rewrite, listed in evidence)",
    ],
)

PROPS["C14"] = dict(
    verus_units=["core"],
    technique="Verus contracts on lib.rs guards (refusal mode + no-trap mode) and the six gated endpoint wrappers",
    level_text="unbounded deductive proof that verify_api_access / verify_network / verify_synced / is_synced return only when their condition holds "
               "(and never trap when it holds), and that every gated wrapper in lib.rs reaches its implementation only after all three conditions "
               "were established for the request's network; is_synced equals the 'announced header at most 2 above the tip' rule",
    level_note="the thread-local state is an explicit immutable value during the guard prefix (rule R7); NextBlockHeaders::get_max_height is opaque "
               "(its bookkeeping over histories is not verified); candid dispatch in main.rs and send_transaction's guards are covered under C19",
    explanation="guards extracted twice (refusal: panic! => diverging call, no-trap: panic! => unreachable obligation); wrappers carry an inserted "
                "ghost assertion of gate_spec immediately before the call of the endpoint implementation.",
    unverified_links=[
        "value of next_block_headers_max_height() over histories (NextBlockHeaders is entry-API maps + header hashing: neither tool); the height RECORDED for an announced header IS verified (UnstableBlocks::insert_next_block_header: parent's announced height or stable height + distance from the anchor, plus one; unconnected headers refused)",
        "canister/src/main.rs candid dispatch; lib.rs::get_blockchain_info is verified to answer with no precondition on any flag; get_config / http_request contain no guard call (by inspection)",
    ],
    assumptions=COMMON_ASSUMPTIONS + ["tip height < 2^32 - 2^20 (state_ranges)", "stable, unstable and announced heights below 2^31 - 2^17 (heights_in_range)"],
)

PROPS["C10"] = dict(
    verus_units=["core", "valid"],
    technique="Verus contract on state::insert_block (iff + atomic reject), the admission checks of ValidationContext::new, maybe_process_response; validity = all obligations of unit valid (C11, C12) are part of this check",
    level_text="unbounded deductive proof that insert_block succeeds iff the parent is in the unstable tree, the block is not already a child of it and "
               "block validation succeeds at the message time; on failure the whole state is unchanged; on success exactly that block is appended",
    level_note="the admission checks of ValidationContext::new (connected? already a child of its parent?) are verified as a slice against the same "
               "ctx_error_spec insert_block relies on, on top of BlockTree::get_chain_with_tip proved as a whole (`any` desugared by rule R15); unstable_blocks::push and "
               "BlockValidator::validate_block are callees with ASSUMED contracts here (find_mut returning &mut / Rc<RefCell<dyn>>; unit valid); decode totality of rust-bitcoin on arbitrary bytes is a dependency",
    explanation="insert_block extracted verbatim; `?` conversions through the extracted From impls; the `expect` on push is discharged from the contract "
                "'push succeeds iff the parent is in the tree'. Meaning of 'valid' is C11/C12 (unit valid).",
    unverified_links=[
        "heartbeat::maybe_process_response (closure passed to with_state_mut, consensus_decode): order of processing, counters, dropping the rest of a response",
        "what insert_next_block_headers' callees decide (header decoder, ValidationContext::new_with_next_block_headers, HeaderValidator of unit valid, UnstableBlocks::insert_next_block_header: stand-ins); the function's own loop IS verified: total on any list of blobs, touches only the announced headers",
        "the glue of ValidationContext::new's two verified halves (admission checks; the (header, hash) chain = the branch to the parent); unstable_blocks::push body",
    ],
    assumptions=COMMON_ASSUMPTIONS + ["block.hash is the hash of block.header (ic_btc_types::Block)", "stable, unstable and announced heights below 2^31 - 2^17; a reply carries fewer than 2^15 blocks and announces fewer than 2^16 headers (preconditions of maybe_process_response)"],
)

PROPS["C03"] = dict(
    verus_units=["core"],
    kani=["canister_leaf"],
    technique="Verus contracts on ingest_stable_blocks_into_utxoset + depth functions + leading-child lemma; Kani full-domain proof of the depth bound",
    level_text="unbounded deductive proof that the ingestion loop never decreases the stable height, never touches a header recorded below the old stable "
               "height, pops only the block it ingested, leaves no stable child behind when it reports Done, and changes nothing when there is nothing to do; "
               "depth / difficulty_based_depth equal max-over-all-branches; a child leading every sibling by a positive margin lies on the served chain; "
               "testnet depth bound proved over its full domain by Kani",
    level_note="the decision function get_stable_child (sort_by_key + closures) is NOT under contract: peek/pop are assumed to implement an uninterpreted "
               "stable_child_spec; UtxoSet::ingest_block(_continue), BlockHeaderStore::insert_block assumed (stable structures)",
    explanation="see coverage.functions_under_contract; bounded/absent parts are listed under unverified_links.",
    unverified_links=[
        "unstable_blocks::get_stable_child: the rule itself (threshold x difficulty(anchor), lead over runner-up, testnet depth escape) is outside Verus "
        "(enumerate/map/collect/sort_by_key/closures) and Kani cannot build an UnstableBlocks (ic-stable-structures ICE) — NOT decided by this check",
        "unstable_blocks::pop / peek bodies, UtxoSet::ingest_block(_continue)",
        "stability threshold raised by set_config while a block is being ingested (pop would return None and the repo's unwrap traps): stated as precondition wf_ingesting",
    ],
    assumptions=COMMON_ASSUMPTIONS + ["difficulty(anchor) x stability_threshold < 2^128", "stable height + tree height + 2^20 < 2^32"],
)

PROPS["C13"] = dict(
    verus_units=["core"],
    technique="Verus contracts on request selection, reply handling (slice), single-flight guard, reset and response processing, with message-boundary invariant wf_sync",
    level_text="unbounded deductive proof, per message, that: the next request is None / follow-up k / an initial request naming the anchor and every other "
               "unstable block exactly as the stored reply dictates; a reply is folded into the stored state as the statement says (reject discards, partial "
               "starts at page 0, page k+1 appended bit-identically, complete exactly at the announced page count); the guard is handed out iff none is alive; "
               "processing leaves a non-complete reply untouched and consumes a complete one exactly once; wf_sync is preserved by every step",
    level_note="heartbeat()/maybe_fetch_blocks() are async fns: liveness ('eventually applied') and the interleaving quantifier are NOT decided; the phase order "
               "of heartbeat() is verified on its real body with the phases as trace-appending stand-ins (ingest first; fetch only if nothing was ingested; process "
               "only if no request was sent); maybe_fetch_blocks from its start to the get_successors call is verified as a slice with Rust's drop timing made "
               "explicit (R14): a request goes out only if none was outstanding and the guard's flag is still raised when the call is made; replies are assumed to conform to the request in flight (else the repo traps)",
    explanation="the closure after the await is lifted as a statement slice (R8); with_state_mut closures are made state-passing (R7).",
    unverified_links=[
        "call_get_successors and the scheduling of the async fns; the guard being dropped only after the reply closure ran (end of the async fn's scope: Rust semantics, by inspection)",
        "liveness: 'once the source answers normally every offered valid block is eventually applied'",
        "upgrades (pre/post_upgrade call reset_syncing_state, which IS verified; serialisation is not)",
    ],
    assumptions=COMMON_ASSUMPTIONS + [
        "a reply conforms to the request in flight (complete/partial answer initial requests, a follow-up page answers a follow-up request, a partial reply announces >= 1 follow-up)",
        "statistics counters are below 2^63; replies hold < 2^32 blocks and < 2^33 bytes",
    ],
)

def _rp(test, finding, tier="thorough"):
    # replays of FIXED findings whose return would also fail a contract obligation run in the thorough tier only;
    # F1 and F2 sit in code neither verifier reads (closure pipeline / dependency decoder), so their replays run in quick too
    return dict(set="canister", test=test, finding=finding, tier=tier)


PROPS["C02"]["replays"] = [_rp("f8_unfiltered_get_utxos_serves_the_heaviest_tip", "F8")]
PROPS["C02"]["unverified_links"] = [
    "get_utxos / get_balance / get_block_headers / fee percentiles obtain their chain from unstable_blocks::get_main_chain (verified: r == best_path); what they do with it is covered under C04, C05, C07, C15 only as far as those checks go",
]
PROPS["C02"]["level_note"] += "; state::blockchain_info is verified as a whole (height/hash/timestamp/difficulty of the last block of the served branch); unfiltered get_utxos applies the whole served chain (lemma_unfiltered_walk_serves_the_tip + get_utxos_walk slice)"
PROPS["C03"]["kani"] = ["canister_leaf", "stable_child"]
PROPS["C03"]["replays"] = [_rp("f6_depth_rule_compares_with_the_deepest_other_child", "F6")]
PROPS["C03"]["technique"] = "Verus contracts on the ingestion loop, peek / pop, get_stable_child (unbounded in the number of children) and the depth functions; Kani cross-check of get_stable_child with concrete counterexamples"
PROPS["C03"]["level_note"] = ("unstable_blocks::get_stable_child is PROVED by Verus on its real decision logic for ANY number of children against stable_child_spec, which is written "
                              "from the statement (candidate = heaviest child, later one among equals; stable iff the testnet depth rule or the difficulty rule holds against EVERY "
                              "sibling); lemma_stable_child_never_early / _never_withheld restate the two directions. Its three iterator pipelines are desugared mechanically (R16) "
                              "and std's stable sort_by_key is an assumed specification (sorted permutation, equal keys keep their order). unstable_blocks::peek and ::pop are "
                              "verified on their real bodies against that contract. The Kani harnesses of group stable_child (<= 3, thorough 4 children) remain as an independent, "
                              "bounded cross-check that produces concrete counterexamples (they found defect F6); they are reported under coverage.bounded. "
                              "UtxoSet::ingest_block(_continue), BlockHeaderStore::insert_block assumed (stable structures)")
PROPS["C03"]["unverified_links"] = [
    "cache side effects inside pop (OutPointsCache::remove, NextBlockHeaders::remove_until_height, remove_from_cache, tip_depths: opaque stand-ins that cannot touch the tree), UtxoSet::ingest_block(_continue)",
    "std sort_by_key (assumed specification), blocks_count and the f64 depth bound (uninterpreted; its range is the Kani contract c03_depth_bound_contract)",
    "stability threshold raised by set_config while a block is being ingested (pop would return None and the repo's expect traps): stated as precondition wf_ingesting",
]
PROPS["C03"]["assumptions"] = COMMON_ASSUMPTIONS + ["threshold x difficulty(b) < 2^128 for every unstable block b (tree_ok)", "stable height + tree height + 2^20 < 2^32"]

PROPS["C07"] = dict(
    verus_units=["core"],
    replays=[_rp("f3_header_ranges_are_exact_while_ingestion_is_paused", "F3")],
    technique="Verus contracts on the range arithmetic + message-boundary invariant wf_headers on every exit of the ingestion loop",
    level_text="unbounded deductive proof that verify_and_return_effective_range returns the documented errors or (start, min(end or tip, start+99)); that the unstable "
               "part of a range is exactly the indices [start -. stable, end - stable] of the served branch (none iff end < stable height); and that the header "
               "store holds exactly the heights below the stable height after EVERY exit of ingest_stable_blocks_into_utxoset, paused ones included, so the two "
               "parts partition the range (composition lemma)",
    level_note="BlockHeaderStore over StableBTreeMaps is a stand-in (map view); the stable part's iterator pipeline and the serialisation of headers "
               "(consensus_encode) are stand-in calls inside get_block_headers_internal, which is verified as a whole (documented errors with the real tip height, "
               "tip_height = last height served, stable part then unstable part, one header per height of the effective range when wf_headers holds); linking of consecutive headers follows from path-ness of best_path (C02) and is not separately proved",
    explanation="R8 slice of get_block_headers_in_range (index arithmetic), whole verify_and_return_effective_range, second extraction of the ingestion loop with wf_headers.",
    unverified_links=[
        "the CONTENTS produced by the two materialisation pipelines of get_block_headers_internal (range(..).map(..).collect(), consensus_encode): uninterpreted there; UnstableBlocks::get_block_headers_in_range itself IS verified as a whole (the headers of the served branch at exactly the requested indices, in order); the stable side (BlockHeaderStore over stable maps) is not",
        "BlockHeaderStore::{insert, get_block_headers_in_range} over StableBTreeMap (assumed map semantics)",
        "upgrades",
    ],
    assumptions=COMMON_ASSUMPTIONS + ["tip height < 2^32 - 2^20"],
)

PROPS["C04"] = dict(
    verus_units=["core"],
    technique="Verus contracts on get_stability_count and on get_utxos_from_chain as a whole (bound check, prefix walk, page cut) + fork-free corollary lemma",
    level_text="unbounded deductive proof that get_stability_count is (depth of the block) - (greatest depth of a competing block at the same height), that the walk applies "
               "exactly the longest prefix of the served chain whose blocks all have stability count >= c and names its last block and height as tip, that a c larger "
               "than the chain is refused with MinConfirmationsTooLarge{given, max}, and (lemma) that on a fork-free chain of L blocks the cut is after block L-c (tip at H-c+1)",
    level_note="block_hashes_with_depths_by_heights(_helper) is PROVED (fragment rows.tpl) to return, per distance from the anchor, the blocks at that distance with "
               "the length of their longest descendant chain; get_utxos_from_chain is ALSO verified as a whole (second extraction `get_utxos_from_chain_whole`): address refusals, the bound on c, the cut, the tip "
               "hash/height reported, `limit` elements of the stream as of that tip, and the next-page token (the lazy take/map/collect pipeline is one stand-in call: "
               "a prefix of an uninterpreted merged stream); that the applied blocks yield the ledger at the cut is C01's unverified refinement; tree height < 2^31",
    explanation="R4 (enumerate => counter) and R8 (statement slice) rewrites are listed per function in the evidence.",
    unverified_links=[
        "AddressUtxoSet::apply_block / into_iter and the page cut (closure pipelines)",
    ],
    assumptions=COMMON_ASSUMPTIONS + ["depths < 2^31 (the repo casts them to i32)"],
)

PROPS["C05"] = dict(
    verus_units=["core"],
    kani=["canister_leaf"],
    replays=[_rp("f5_balance_equals_sum_of_utxos_on_forks", "F5"), _rp("f1_prefix_address_does_not_leak", "F1", "quick")],
    technique="Verus contracts on get_utxos_from_chain (whole) and get_balance_private (up to its metrics) against the SAME cut function, parser and bound",
    level_text="unbounded deductive proof that get_balance adds the per-block deltas of exactly the first cut_len blocks of the served chain — the same blocks, by the same "
               "cut function, that the get_utxos walk applies for the same request — with every u64 addition/subtraction discharged under the stated range assumption; "
               "both refuse a too-large c by comparing with the chain length",
    level_note="that the stable `balances` map equals the sum over the stable address index, and that per-block deltas equal the UTXO changes, is C01's unverified ledger "
               "refinement (stable structures + entry-API caches); get_balance_private is verified up to its metrics as one slice (`get_balance_private_core`): the same "
               "address parser on the same network and the same bound on c as get_utxos_from_chain_whole (so both refuse the same requests), None = 0 confirmations, the "
               "served chain, the stability rule; Address::from_str_checked itself is an uninterpreted function of (text, network)",
    explanation="get_balance_private verified up to its metrics with ghost accounting (balance_after); agreement follows because both contracts are stated over cut_len.",
    unverified_links=[
        "UtxoSet::get_balance (stable balances map with in-progress block reverted), insert_utxo / remove_inputs keeping balances and index in step",
        "OutPointsCache getters (assumed to return the block's outpoints and their cached values)",
        "address parsing and the identical error mapping in both endpoints (two 3-arm matches, not under contract)",
    ],
    assumptions=COMMON_ASSUMPTIONS + ["running balances stay within [0, 2^64) (sum of all satoshi <= 21e14; no address spends more than it holds)", "OutPointsCache representation invariant (stated precondition cache_lists_have_tx_outs): every outpoint the cache lists for a block and an address has its TxOut in the cache"],
)

PROPS["C16"] = dict(
    verus_units=["fees"],
    technique="Verus contracts on charge_cycles / verify_has_enough_cycles and on the charging code of all five endpoints; fee tables vs client constants as postconditions of the client's cost_* functions",
    level_text="unbounded deductive proof (all fee configurations with maximum >= base, all instruction counts, all payload lengths) that: the cycles accepted are "
               "base + min(instructions/10 x rate, maximum - base) for get_utxos / get_block_headers on success and only the base on a request-level error, the flat fee for "
               "get_balance / fee percentiles, base + per_byte x length for send_transaction, nothing for query variants; a call with less than the maximum never returns "
               "(refused before anything is charged); and every cost_* function of ic-cdk-bitcoin-canister returns at least the canister's default maximum "
               "(resp. base + per_byte x length for every length) for the same network",
    level_note="the IC cycles interface and the thread-local state are explicit values (rule R7, reported); msg_cycles_accept/available semantics assumed; "
               "instruction counter arbitrary; derive(Default) for Fees is all-zero (regtest); metrics observation statements removed (R1)",
    explanation="Fees::mainnet/testnet bodies are emitted a second time as spec functions (also_spec) so that the client-side postconditions can refer to them; "
                "get_utxos_private, get_block_headers, get_balance(_query), send_transaction are whole-function extractions, get_current_fee_percentiles a prefix slice.",
    unverified_links=[
        "ic0.msg_cycles_accept / msg_cycles_available (IC system API)",
        "State::new choosing Fees::mainnet / Fees::testnet / Fees::default per network (by inspection)",
    ],
    assumptions=COMMON_ASSUMPTIONS + ["fee configuration: maximum >= base, per-ten-instructions rate < 2^64, send_transaction base < 2^127 and per_byte < 2^32"],
)

PROPS["C19"] = dict(
    verus_units=["fees"],
    replays=[_rp("f2_send_transaction_rejects_trailing_bytes", "F2", "quick")],
    technique="Verus contract on the whole body of send_transaction (sync, state-passing extraction) + concrete replay of the trailing-bytes payload",
    level_text="unbounded deductive proof that send_transaction returns only if API access is enabled and the network matches, returns Ok iff the payload is exactly "
               "one transaction encoding, and then (and only then) increments the counter by one and forwards (block source, network, payload) unchanged; "
               "otherwise MalformedTransaction with nothing forwarded or counted",
    level_note="rust-bitcoin's decoder is uninterpreted: bitcoin::consensus::deserialize is assumed to accept exactly the inputs that are one whole transaction "
               "encoding (it rejects unconsumed data), consensus_decode on a slice to accept any input with such a prefix; which byte strings those are is the dependency's business; "
               "async/await and the inter-canister call are replaced by an explicit outbox (R7)",
    explanation="if the code goes back to consensus_decode(&mut slice) without checking the remainder, r.is_ok() <==> is_tx_encoding(payload) is no longer provable "
                "and the F2 replay fails.",
    unverified_links=["rust-bitcoin Transaction decoding", "runtime::call_send_transaction_internal and the await point"],
    assumptions=COMMON_ASSUMPTIONS,
)

PROPS["C17"] = dict(
    verus_units=["watchdog"],
    kani=["watchdog"],
    engine="kani-inject",
    technique="Verus contracts on median, calculate_height_target, compare, calculate_target, synchronise_api_access and insert_block_info (all for ANY number of explorers); Kani full-domain cross-checks per concrete explorer count",
    level_text="unbounded deductive proofs on the real code, for EVERY number of explorer results: median(values) is the middle element of the sorted multiset (mean of the two "
               "middle ones for an even count), hence order independent; calculate_height_target yields that median iff at least min_explorers heights were fetched and at least "
               "min_explorers of them lie in the band around it; compare collects exactly the successful fetches of the list it is given, computes the target from them and maps "
               "(canister height, target) to NotEnoughData / Behind / Ahead / Ok by the inclusive band [-behind, +ahead]; the flag target is Enabled exactly for Ok, Disabled for "
               "Behind/Ahead, none for NotEnoughData; synchronise_api_access changes the canister's flag exactly when there is a target and it differs from the flag read back; "
               "storing a provider's result REPLACES the earlier one (so stale heights cannot survive a failed fetch). For N = 0..=6 and 8 Kani re-proves the band/quorum, compare and "
               "flag rules over fully symbolic values (with concrete counterexamples on failure)",
    level_note="heights below 2^62 and thresholds up to 10^6 (the property's own domain; beyond it the repo's i64 casts wrap); three iterator/Option pipelines are desugared "
               "mechanically (R17); that every provider's slot is written in every round is in async fetch code (not decided)",
    explanation="std's sort makes a monolithic CBMC proof infeasible beyond 3 elements, hence the modular split with Verus carrying the sort-dependent part.",
    unverified_links=[
        "watchdog/src/fetch.rs fetch_all_providers_data (async, join_all) writing every provider's BlockInfo each round",
        "the inter-canister calls around synchronise_api_access (get_config / set_config: stand-ins); the function itself IS verified: the flag is changed exactly when this round has a decision and it differs from the flag read back",
    ],
    assumptions=COMMON_ASSUMPTIONS + ["heights < 2^62, thresholds <= 10^6", "slice::sort yields the sorted permutation"],
)

PROPS["C18"] = dict(
    verus_units=["watchdog"],
    technique="Verus contracts on endpoints.rs::apply_to_body and apply_to_body_json (the two wrappers every transform goes through) and on the ten per-endpoint extractor closures (slices)",
    level_text="unbounded deductive proof (any status, any number/size of headers, any body bytes) that apply_to_body returns, with no headers, the original status and a "
               "body that is empty unless the status is 200 and the body is UTF-8 text, in which case it is exactly the extractor's output for that text; and that "
               "apply_to_body_json's body is empty or print(extractor(parse(text))) — a function of the parsed value only",
    level_note="PARTIAL: serde_json::from_str / Value::to_string are uninterpreted functions (their insensitivity to whitespace and member order and the canonical "
               "printed form are serde_json's, not decided); the ten per-endpoint extractor closures are verified as R8 slices against 'the result is the object with the "
               "single member height, a non-negative integer or null' (JSON endpoints) / 'empty or print of that object' (plain-text endpoints), with json!, Value indexing "
               "and the integer accessors modelled by typed stand-ins (R13); the closure inside apply_to_body_json is annotated by a reported R9 rewrite; the TRANSFORM of each of the ten endpoints "
               "(wrapper applied to its extractor) is verified as one slice against 'no headers, status kept, body empty or the canonical object with the single member height'",
    explanation="the wrappers guarantee stripping (headers, everything outside the extractor's output) and totality for everything that is not produced by the extractor closure.",
    unverified_links=[
        "serde_json's Index / as_u64 / json! themselves (typed stand-ins), str::parse (uninterpreted)",
        "candid::Nat comparison with 200u8, String::from_utf8 / into_bytes, serde_json parse/print (assumed specs)",
    ],
    assumptions=COMMON_ASSUMPTIONS + ["the extractor closure is total"],
)

PROPS["C15"] = dict(
    verus_units=["core", "ledger"],
    technique="Verus contracts on fee_rate_per_vbyte, get_fees_per_byte, get_tx_fee_per_byte, percentiles (whole + closure bodies as slices) and the tip-keyed result cache",
    level_text="unbounded deductive proof that the fee rate is floor(1000 x fee / vsize) millisatoshi per vbyte (None for vsize 0); that for every p in 0..=100 and every "
               "n up to 2^25 the value picked is the one at the nearest-rank index max(0, ceil(p n/100) - 1), which is 0 for p = 0, n-1 for p = 100 and monotone in p "
               "(so 101 non-decreasing values of a sorted vector); and that the cached answer is returned while the tip of the served chain is unchanged, kept when no "
               "fee-paying transaction exists, and otherwise recomputed and stored under the new tip",
    level_note="get_fees_per_byte is verified on its real loops against 'the rates of the served chain's blocks, most recent block first, cut after n' (Cow eliminated "
               "by rule R12); the fee rate of one transaction is verified for BOTH paths against one spec function tx_rate_spec(tx, input sum): the post-upgrade "
               "recomputation get_tx_fee_per_byte (whole function) and the insertion-time statement of insert_outpoints (slice) — so recomputed and cached rates agree "
               "whenever the input sums agree. PARTIAL: the fallback pipeline that maps get_tx_fee_per_byte over a block's transactions (filter_map/collect), the "
               "input-sum bookkeeping of insert_outpoints (entry-API maps) are assumed as uninterpreted functions; percentiles() is verified as a WHOLE against 'nothing, or exactly "
               "101 values, the p-th being the nearest-rank percentile p of the sorted values' (slice::sort_unstable is an assumed specification; the map/collect over 0..=100 "
               "is desugared, R18); lemma_percentiles_non_decreasing proves the 101 values non-decreasing",
    explanation="the closure bodies of `percentiles` are lifted as R8 slices (ceil_div, the per-percentile pick, the constant 100).",
    unverified_links=[
        "fee_percentiles.rs:110-116 the fallback `txdata().iter().filter_map(get_tx_fee_per_byte).collect()`; outpoints_cache.rs insert_outpoints: how input_sum is accumulated (cache / same-block / UTXO-set lookups)",
        "slice::sort_unstable (assumed specification: the ascending permutation)",
    ],
    assumptions=COMMON_ASSUMPTIONS + ["fee < 2^64/1000 satoshi; the inputs of one transaction sum to < 2^64/1000 satoshi; at most 2^25 fee rates", "the previous outputs spent by a transaction of an unstable block are in the TxOut cache (precondition of get_tx_fee_per_byte; the repo traps otherwise)"],
)

PROPS["C01"] = dict(
    verus_units=["core", "ingest"],
    kani=["canister_leaf"],
    replays=[_rp("f1_prefix_address_does_not_leak", "F1", "quick"), _rp("f8_unfiltered_get_utxos_serves_the_heaviest_tip", "F8")],
    engine="kani-inject",
    technique="Kani harnesses on the real stable-index key codec / range / order + Verus contracts on chain lookup and the prefix walk + concrete replay of the prefix-address leak",
    level_text="PARTIAL. Decided: (Kani, on the real encoders) key round trip; the key range of address A contains every key of A and, besides, only keys of addresses "
               "whose text has A as a proper prefix (cover: it happens), so the equality filter on the decoded address added by fix 1e27d173 is load-bearing and exact; "
               "byte order of an address's keys is (height descending, outpoint); an offset cuts the range exactly at the offset key; Utxo order is "
               "(height descending, outpoint, value). (Verus) the walked chain is the served branch / the branch to the named tip; exactly the blocks up to the named "
               "tip are applied, in order, and the tip height is stable height + index. The F1 replay re-runs the prefix-address scenario on the real endpoints",
    level_note="NOT decided: that the stable maps plus per-block deltas equal the ledger replay (remove_inputs / insert_outputs / insert_utxo / insert_outpoints / "
               "OutPointsCache / get_address_outpoints / AddressUtxoSet::into_iter are closure pipelines over StableBTreeMaps and entry-API maps: neither tool reads them), "
               "one-height-per-outpoint in the outpoints cache for a transaction confirmed on two forks; address texts bounded to <= 3 ASCII bytes in the Kani harnesses "
               "(labelled bounded, not counted as discharged)",
    explanation="the codec facts are what make the address filter both necessary and sufficient; the pipeline applying it is covered by the concrete replay only.",
    unverified_links=[
        "utxo_set.rs remove_inputs / insert_outputs / insert_utxo (stable ingestion), utxos.rs small/medium/large split",
        "outpoints_cache.rs insert_outpoints / remove (unstable deltas), address_utxoset.rs apply_block / into_iter, multi_iter.rs merge",
        "utxo_set.rs::get_address_outpoints pipeline (range scan + the equality filter + in-progress block merge)",
    ],
    assumptions=COMMON_ASSUMPTIONS + ["heights < 2^31 in the key-range harnesses", "StableBTreeMap::range returns exactly the keys within the bounds in Blob order", "OutPointsCache representation invariant (stated precondition cache_lists_have_tx_outs): every outpoint the cache lists for a block and an address has its TxOut in the cache"],
)

PROPS["C06"] = dict(
    verus_units=["core"],
    kani=["canister_leaf"],
    engine="kani-inject",
    technique="Kani full-domain proof of the page codec on 72-byte inputs + Verus slice for every other length + Verus contract on the tip lookup + Kani order/offset harnesses",
    level_text="decided per call: every byte string given as page is refused with an error unless it has 72 bytes (Verus, any length) and every 72-byte string decodes "
               "without trap to (tip hash, height, outpoint) with to_bytes its inverse (Kani, all 2^576 inputs); the tip named by a page is looked up in the unstable tree "
               "and the walked chain is exactly the branch from the anchor to it, None (=> UnknownTipBlockHash) iff it is not in the tree (Verus, all trees); resuming "
               "from an offset cuts the stable key range exactly at the offset key and the unstable source by Utxo order, and the two orders agree (Utxo::cmp = byte order of the stable "
               "encoding, Kani complete), so an offset keeps its meaning when a block stabilises between two pages (Kani, bounded address text)",
    level_note="get_utxos_internal is verified as a whole: a page request is answered on the branch from the anchor to the tip the token names (whatever "
               "was added to the tree since), resuming at the element it names; an unknown tip is the explicit UnknownTipBlockHash error; an undecodable token is an error; "
               "the page cut is verified as slices (limit+1 elements are requested; the response keeps the first min(len, limit) in order; a next page is "
               "announced iff something is left over and its token names this response's tip and the FIRST omitted element), the offset filter of the unstable source "
               "is verified as a slice; NOT decided: the lazy take/map/collect pipeline between them and MultiIter's merge (Kani, bounded lengths); the interleaving "
               "quantifier (blocks arriving, stabilisation, upgrades between pages) rests on C01's unverified ledger refinement",
    explanation="see coverage.bounded for the harnesses with bounded address text.",
    unverified_links=[
        "get_utxos.rs:246-262 (into_iter / take / map / collect: lazy closure pipeline feeding the verified page cut)",
        "interleavings of page requests with ingestion, stabilisation and upgrades",
    ],
    replays=[_rp("f9_pages_are_one_snapshot_across_stabilisation", "F9")],
    assumptions=COMMON_ASSUMPTIONS,
)


# ----------------------------------------------------------------------------------------------------------------------------------
# third session: amendments to the texts above (the functions named here moved from assumed / not decided to verified)
# ----------------------------------------------------------------------------------------------------------------------------------
def _amend(pid, key, old, new):
    v = PROPS[pid][key]
    assert old in v, (pid, key, old[:50])
    PROPS[pid][key] = v.replace(old, new)


def _relink(pid, old_prefix, new):
    ls = PROPS[pid]["unverified_links"]
    k = [i for i, x in enumerate(ls) if x.startswith(old_prefix)]
    assert k, (pid, old_prefix)
    ls[k[0]] = new


_amend("C01", "level_text", "The F1 replay re-runs the prefix-address scenario on the real endpoints",
       "(Verus, unit ingest, real bodies of utxo_set.rs / utxos_delta.rs) throughout the ingestion of a stable block — at every pause, for any "
       "schedule — the address index is exactly the address-paying part of the UTXO map (index_ok: every such output listed once under its address "
       "and height, nothing else), the UTXO map after the block is apply_txs(start, block) (every input removed once, every non-OP_RETURN output "
       "inserted once with the block's height), and readers see the pre-block state of every address-paying output while it is in progress. "
       "The F1 replay re-runs the prefix-address scenario on the real endpoints")
_amend("C01", "level_note", "NOT decided: that the stable maps plus per-block deltas equal the ledger replay (remove_inputs / insert_outputs / insert_utxo / insert_outpoints / "
       "OutPointsCache / get_address_outpoints / AddressUtxoSet::into_iter are closure pipelines over StableBTreeMaps and entry-API maps: neither tool reads them),",
       "NOT decided: the balances map, the CONTENT of the unstable per-block address deltas (insert_outpoints is verified for reference counts and delta keys "
       "only), the lazy pipelines of get_address_outpoints / AddressUtxoSet::into_iter beyond the verified closure slices, the three stable maps themselves "
       "(stand-ins with map semantics),")
_relink("C01", "utxo_set.rs remove_inputs", "utxos.rs small/medium/large split and the two other stable maps (stand-ins with map semantics); the balances map under ingestion "
        "(remove_inputs / insert_utxo keep it in step with the set: not specified)")
_relink("C01", "outpoints_cache.rs insert_outpoints", "content of the per-address delta lists built by insert_outpoints (keys and reference counts ARE verified, unit ledger), "
        "address_utxoset.rs into_iter, multi_iter.rs merge")
_amend("C03", "level_note", "UtxoSet::ingest_block(_continue), BlockHeaderStore::insert_block assumed (stable structures)",
       "UtxoSet::ingest_block(_continue) are assumed contracts in unit core (they are VERIFIED on their real bodies in unit ingest, see C08), "
       "BlockHeaderStore::insert_block assumed (stable structures); NextBlockHeaders::remove_until_height and BlockTree::remove_from_cache inside pop are verified real bodies")
_amend("C10", "level_note", "unstable_blocks::push and BlockValidator::validate_block are callees with ASSUMED contracts here (find_mut returning &mut / Rc<RefCell<dyn>>; unit valid);",
       "unstable_blocks::push is a callee with an ASSUMED contract (BlockTree::find_mut — recursion through iter_mut returning &mut — is an assumed contract; what push "
       "calls is verified: insert_outpoints in unit ledger, NextBlockHeaders::remove here), BlockValidator::validate_block is verified in unit valid; "
       "insert_next_block_headers skips announced headers, which discharges NextBlockHeaders::insert's precondition;")
_amend("C14", "level_note", "NextBlockHeaders::get_max_height is opaque (its bookkeeping over histories is not verified);",
       "NextBlockHeaders is the REAL struct: get_max_height is verified to return the greatest announced height (nbh_max_height) under the representation invariant "
       "nbh_wf, which insert / remove / remove_until_height are verified to keep; UnstableBlocks::block_depth is verified on its real body over an assumed find_mut;")
_relink("C14", "value of next_block_headers_max_height() over histories",
        "BlockTree::find_mut (assumed contract) under block_depth; unstable_blocks::push (assumed contract) calling NextBlockHeaders::remove; NextBlockHeaders itself "
        "(two BTreeMaps) IS verified: insert / remove / remove_until_height / get_max_height / get_height / get_header on their real bodies with the representation "
        "invariant nbh_wf")
_amend("C15", "level_note", "the input-sum bookkeeping of insert_outpoints (entry-API maps) are assumed as uninterpreted functions;",
       "the exact input sums of insert_outpoints are not specified (the function is verified as a WHOLE in unit ledger for its reference counts, its atomic failure and "
       "'at most one rate per non-coinbase transaction');")
_amend("C17", "level_note", "that every provider's slot is written in every round is in async fetch code (not decided)",
       "lib.rs::fetch_block_height is verified: a round stores exactly what it fetched (the canister height included, None when the call failed) and every fetched provider "
       "entry; health::health_status is verified to judge by exactly the stored canister height and the stored entries of the configured explorers; that "
       "fetch_all_providers_data returns one entry per provider is in async fetch code (not decided)")
_relink("C03", "cache side effects inside pop", "cache side effects inside pop: OutPointsCache::remove (verified in unit ledger; a stand-in here) over the opaque `blocks()` vector, tip_depths "
        "(opaque); NextBlockHeaders::remove_until_height and remove_from_cache ARE verified real bodies; UtxoSet::ingest_block(_continue) (verified in unit ingest; assumed contracts here)")
_relink("C10", "the glue of ValidationContext::new", "unstable_blocks::push body (assumed contract; BlockTree::find_mut assumed)")

_amend("C12", "level_note", "", "")
PROPS["C12"]["level_note"] += " The canister's glue is part of this check: state::insert_block (unit core) is verified to admit a block only after BlockValidator::validate_block accepted it, whether or not its header had been announced before."
PROPS["C03"]["unverified_links"] = [x for x in PROPS["C03"]["unverified_links"] if not x.startswith("stability threshold raised by set_config")] + [
    "the repo's `expect` on unstable_blocks::pop after an ingestion (no stable child any more, e.g. because set_config raised the stability threshold while the block was being ingested) ends the message: refuse mode, no longer a stated precondition"]

_amend("C20", "level_note", "the CONTENT of the per-address delta lists (only their keys)",
       "the exact content of the per-address REMOVED lists (verified: every outpoint listed there is spent by a non-null input of the block — all_spent; not verified: under which address, how often and in which order. The ADDED lists are verified exactly: the block's outputs paying the address, in block order)")
_relink("C20", "content of added_outpoints / removed_outpoints per address",
        "content of removed_outpoints per address: verified that every listed outpoint is the previous output of a non-null input of the block (all_spent); the address it is filed under (resolved through cache / same block / UTXO set), multiplicity and order are not specified; the added_outpoints lists ARE specified exactly (added_for)")
_amend("C20", "level_text", "and records the block's two deltas under its hash,",
       "and records the block's two deltas under its hash — the added delta of an address being exactly the block's outputs that pay it, in block order —,")
