"""Per-property configuration: which units / harness groups / replays decide it, and the
named gaps (unverified links) and assumptions that every evidence file repeats."""

COMMON_ASSUMPTIONS = [
    "Verus 0.2026.09.13 / Z3 and Kani 0.68 / CBMC 6.11 are sound",
    "extraction rules R1 (logging removed), R2 (visibility/attributes stripped), R5 (assert! => proof obligation) do not change run-time meaning; R4/R7/R8 rewrites are listed per function in coverage.functions_under_contract[].rewrites",
    "stand-in types of the Verus preludes (coverage.trusted_base) model the dependency types they replace",
    "IC message atomicity: one message runs to completion on one state between awaits",
]

PROPS = {
    "C02": dict(
        verus_units=["tree"],
        explanation="Verus proves, on the function text extracted from canister/src/blocktree.rs at run time, that "
                    "main_chain_by_difficulty(_inner) / main_chain_length_by_difficulty(_inner) return exactly best_path/best_key, "
                    "and lemma_best_is_max proves best_path is the maximum over ALL root-to-leaf branches by (sum difficulty, length) "
                    "and the first such branch in child (arrival) order.",
        technique="Verus contracts on extracted blocktree.rs best-chain functions + max-over-all-leaf-paths lemma",
        level_text="unbounded deductive proof (all trees, all difficulty assignments) that the real best-chain functions return the "
                   "lexicographic maximum by (accumulated difficulty, length, arrival order) over all root-to-leaf branches",
        level_note="assumes BlockTree::wf (difficulty sums < 2^128), derive(Ord)/tuple-order/std::cmp::max/slice::reverse specs; "
                   "endpoints' use of the chain is covered only as far as units state/walk go (see unverified_links in evidence)",
        unverified_links=[],
        assumptions=COMMON_ASSUMPTIONS + [
            "accumulated difficulty of every branch of the unstable tree < 2^128 and branch lengths < 2^64 (BlockTree::wf)",
        ],
    ),
}
