"""Per-property configuration: which units / harness groups / replays decide it, and the
named gaps (unverified links) and assumptions that every evidence file repeats."""

COMMON_ASSUMPTIONS = [
    "Verus 0.2026.09.13 / Z3 and Kani 0.68 / CBMC 6.11 are sound",
    "extraction rules R1 (logging removed), R2 (visibility/attributes stripped), R5 (assert! => proof obligation) do not change run-time meaning; R4/R7/R8 rewrites are listed per function in coverage.functions_under_contract[].rewrites",
    "stand-in types of the Verus preludes (coverage.trusted_base) model the dependency types they replace",
    "IC message atomicity: one message runs to completion on one state between awaits",
]

PROPS = {
    "C02": dict(
        verus_units=["core"],
        explanation="Verus proves, on the function text extracted from canister/src/blocktree.rs at run time, that "
                    "main_chain_by_difficulty(_inner) / main_chain_length_by_difficulty(_inner) return exactly best_path/best_key, "
                    "and lemma_best_is_max proves best_path is the maximum over ALL root-to-leaf branches by (sum difficulty, length) "
                    "and the first such branch in child (arrival) order.",
        technique="Verus contracts on extracted blocktree.rs best-chain functions + max-over-all-leaf-paths lemma",
        level_text="unbounded deductive proof (all trees, all difficulty assignments) that the real best-chain functions return the "
                   "lexicographic maximum by (accumulated difficulty, length, arrival order) over all root-to-leaf branches",
        level_note="assumes BlockTree::wf (difficulty sums < 2^128), derive(Ord)/tuple-order/std::cmp::max/slice::reverse specs; "
                   "endpoints' use of the chain is covered only as far as units state/walk go (see unverified_links in evidence)",
        unverified_links=[],
        assumptions=COMMON_ASSUMPTIONS + [
            "accumulated difficulty of every branch of the unstable tree < 2^128 and branch lengths < 2^64 (BlockTree::wf)",
        ],
    ),
}

PROPS["C11"] = dict(
    verus_units=["valid"],
    technique="Verus contracts on all of validation/src/header/mod.rs against a consensus-rule spec (accept_spec)",
    level_text="unbounded deductive proof (all header chains, networks, candidates, times) that validate_header accepts iff the consensus rules "
               "listed in the statement hold and otherwise reports the first failing rule; loops (median-time-past walk, min-difficulty walk-back) by invariant",
    level_note="rust-bitcoin is uninterpreted (target/from_compact/validate_pow/from_next_work_required incl. the 4x clamp and 256-bit arithmetic, hashing); "
               "store is an abstract chain with injective hashes; heights < 2^32-1, times < 2^32-1200; 2h rule's Duration arithmetic proved by Kani, assumed in Verus",
    explanation="validate_header, is_timestamp_valid, get_next_target, find_next_difficulty_in_chain, compute_next_difficulty and constants.rs are extracted "
                "verbatim and proved equal to accept_spec / median_time_past / required_target / walk_back / retarget_bits.",
    unverified_links=[
        "canister/src/validation.rs: the canister's HeaderStore implementation (unstable chain + announced headers + stable store) is assumed to satisfy the abstract store contract (chain_wf, lookups by hash/height)",
        "rust-bitcoin CompactTarget::from_next_work_required (4x clamp, pow limit) and Header::validate_pow are dependencies: uninterpreted",
    ],
    assumptions=COMMON_ASSUMPTIONS + [
        "block hashes are injective along the header chain", "chain heights < 2^32-1, header times < 2^32-1200, current time < 2^63 s",
        "HeaderStore contract: height() is the height of the tip the candidate extends (its parent, if known, is that tip)",
    ],
)

PROPS["C12"] = dict(
    verus_units=["valid"],
    technique="Verus contracts on validation/src/block/mod.rs (validate_block, ensure_unique_transactions) + duplication lemma",
    level_text="unbounded deductive proof (all transaction lists) that a block body is accepted iff it is non-empty, starts with a coinbase, "
               "has a matching merkle root and pairwise distinct normalised txids; every list repeating a transaction is refused (CVE-2012-2459 family) by lemma",
    level_note="is_coinbase / check_merkle_root / compute_ntxid are rust-bitcoin (uninterpreted); 'every valid block is accepted' additionally needs "
               "'distinct valid transactions never share an ntxid' (hash collision freedom), assumed",
    explanation="validate_block and ensure_unique_transactions extracted verbatim; loop invariant over the BTreeSet view gives the iff; "
                "BlockValidator::validate_block verified after the reported R10 rewrite of map_err/and_then into a match.",
    unverified_links=[
        "rust-bitcoin Block::check_merkle_root, Transaction::compute_ntxid, Transaction::is_coinbase (dependencies, uninterpreted)",
    ],
    assumptions=COMMON_ASSUMPTIONS + [
        "two distinct valid transactions never share a normalised txid (needed only for 'every valid block is accepted')",
        "Result::map_err / and_then behave as their definition (rule R10 rewrite, listed in evidence)",
    ],
)
