#!/usr/bin/env python3
"""setup: nothing is built ahead of time (every check re-extracts from /repo and re-verifies);
this only checks that the tools the checks need are present."""
import shutil
import subprocess
import sys

ok = True
for tool in ("verus", "cargo-kani", "cbmc", "cargo", "rsync"):
    p = shutil.which(tool)
    print("%-12s %s" % (tool, p or "MISSING"))
    ok = ok and bool(p)
try:
    out = subprocess.run(["verus", "--version"], capture_output=True, text=True, timeout=60).stdout
    print(out.strip().splitlines()[0] if out.strip() else "verus --version: no output")
except Exception as e:  # noqa
    print("verus --version failed: %s" % e)
    ok = False
sys.exit(0 if ok else 1)
