#!/usr/bin/env python3
"""dev helper: mutant_try.py PROP FILE OLD NEW [NTH] — apply a textual mutation to /repo, run the check, revert."""
import subprocess
import sys

prop, path, old, new = sys.argv[1:5]
nth = int(sys.argv[5]) if len(sys.argv) > 5 else 1
full = "/repo/" + path
s = open(full).read()
idx = -1
start = 0
for _ in range(nth):
    idx = s.find(old, start)
    start = idx + 1
    if idx < 0:
        print("pattern not found")
        sys.exit(3)
orig = s
s = s[:idx] + new + s[idx + len(old):]
open(full, "w").write(s)
try:
    r = subprocess.run(["python3", "/verif/vp/check.py", prop], capture_output=True, text=True, cwd="/verif")
    print(r.stdout[-1500:])
    print("exit", r.returncode)
finally:
    open(full, "w").write(orig)
