"""Minimal Rust-aware lexer utilities: mask comments / strings so that brace matching and
keyword search can be done with plain string operations on text that has the same length
and the same offsets as the original source."""
import re


class LexError(Exception):
    pass


def mask(src: str, keep_strings: bool = False) -> str:
    """Return a copy of src in which comments, string literals and char literals are
    replaced by spaces (newlines kept), so that offsets are preserved."""
    out = list(src)
    n = len(src)
    i = 0

    def blank(a, b):
        for k in range(a, b):
            if out[k] != "\n":
                out[k] = " "

    while i < n:
        c = src[i]
        if c == "/" and i + 1 < n and src[i + 1] == "/":
            j = src.find("\n", i)
            if j < 0:
                j = n
            blank(i, j)
            i = j
        elif c == "/" and i + 1 < n and src[i + 1] == "*":
            depth = 1
            j = i + 2
            while j < n and depth > 0:
                if src.startswith("/*", j):
                    depth += 1
                    j += 2
                elif src.startswith("*/", j):
                    depth -= 1
                    j += 2
                else:
                    j += 1
            blank(i, j)
            i = j
        elif c == '"' or (c in "rb" and re.match(r'(?:b?r#*"|b")', src[i:i + 8]) and (i == 0 or not (src[i - 1].isalnum() or src[i - 1] == "_"))):
            m = re.match(r'(b?)(r(#*))?"', src[i:])
            raw = m.group(2) is not None
            hashes = m.group(3) or ""
            j = i + m.end()
            if raw:
                end = '"' + hashes
                k = src.find(end, j)
                if k < 0:
                    raise LexError("unterminated raw string")
                j2 = k + len(end)
            else:
                k = j
                while k < n and src[k] != '"':
                    if src[k] == "\\":
                        k += 2
                    else:
                        k += 1
                j2 = k + 1
            if not keep_strings:
                blank(i + m.end(), j2 - (len(hashes) + 1 if raw else 1))
            i = j2
        elif c == "'":
            # char literal or lifetime
            m = re.match(r"'(\\.[^']*|[^'\\])'", src[i:])
            if m:
                if not keep_strings:
                    blank(i + 1, i + m.end() - 1)
                i += m.end()
            else:
                i += 1
        else:
            i += 1
    return "".join(out)


OPEN = {"{": "}", "(": ")", "[": "]"}
CLOSE = {v: k for k, v in OPEN.items()}


def match_close(masked: str, pos: int) -> int:
    """masked[pos] is an opening bracket; return the index of its partner."""
    op = masked[pos]
    cl = OPEN[op]
    depth = 0
    for k in range(pos, len(masked)):
        ch = masked[k]
        if ch == op:
            depth += 1
        elif ch == cl:
            depth -= 1
            if depth == 0:
                return k
    raise LexError("unbalanced %r at %d" % (op, pos))


def find_at_depth0(masked: str, start: int, end: int, targets, angle: bool = False) -> int:
    """First index in [start,end) of any of `targets` (strings) at bracket depth 0
    (with respect to (), [], {} — the target itself may be an opening bracket)."""
    depth = 0
    k = start
    while k < end:
        ch = masked[k]
        if depth == 0:
            for t in targets:
                if masked.startswith(t, k):
                    return k
        if ch in OPEN:
            depth += 1
        elif ch in CLOSE:
            depth -= 1
            if depth < 0:
                return -1
        k += 1
    return -1


def line_of(src: str, pos: int) -> int:
    return src.count("\n", 0, pos) + 1


def line_start(src: str, pos: int) -> int:
    k = src.rfind("\n", 0, pos)
    return k + 1
