#!/usr/bin/env python3
"""Regenerate MANIFEST.json from vp/props.py (claimed properties) and vp/na.py (not applicable)."""
import json
import os
import sys

HERE = os.path.dirname(os.path.abspath(__file__))
ROOT = os.path.dirname(HERE)
sys.path.insert(0, HERE)
from props import PROPS  # noqa: E402
from na import NOT_APPLICABLE  # noqa: E402

ALL = ["C%02d" % i for i in range(1, 21)]

checks = []
for pid in ALL:
    if pid not in PROPS:
        continue
    c = PROPS[pid]
    checks.append(dict(
        property_id=pid,
        quick_cmd="python3 vp/check.py %s --tier quick" % pid,
        thorough_cmd="python3 vp/check.py %s --tier thorough" % pid,
        evidence_file="evidence/%s.json" % pid,
        replay_cmd_template="python3 vp/check.py %s --replay {path}" % pid,
        engine=c.get("engine", "verus-extract"),
        level_claimed=dict(category="proof", text=c["level_text"], design_ref="DESIGN.md section 5, %s" % pid),
        level_note=c["level_note"],
        technique=c["technique"],
    ))

na = []
for pid in ALL:
    if pid in PROPS:
        continue
    na.append(dict(property_id=pid, reason=NOT_APPLICABLE.get(pid, "not decided by any check in this revision of /verif (work in progress; see DESIGN.md)")))

m = dict(
    version=1,
    setup_cmd="python3 vp/setup.py",
    hooks=dict(
        guard="kani",
        enable="no hook is committed into /repo: vp/kani_run.py copies /repo's working tree to a scratch directory at run time and appends "
               "#[cfg(kani)] harness modules / #[cfg_attr(kani, ...)] contract attributes there (cfg(kani) is set only by cargo kani); "
               "the Verus side reads /repo's sources and never builds them",
        baseline_off_cmd="cd /repo && cargo nextest run --workspace --no-fail-fast --tool-config-file pb:/w/lib/nextest.toml --profile pb --test-threads 8 --offline || cargo test --workspace --no-fail-fast --offline",
        source_commits=[],
        add_only=True,
    ),
    engines=[
        dict(name="verus-extract", path="vp/extract.py + vp/verus_run.py + units/*/unit.rs.tpl",
             serves_properties=sorted(p for p in PROPS if PROPS[p].get("verus_units")),
             kind_free_text="contract-based deductive verification: functions are copied byte-for-byte out of /repo's working tree on every run, "
                            "woven with requires/ensures/invariants from the unit template, and discharged by Verus (Z3), function by function"),
        dict(name="kani-inject", path="vp/kani_run.py + units/kani/*",
             serves_properties=sorted(p for p in PROPS if PROPS[p].get("kani")),
             kind_free_text="Kani function contracts / loop-free full-domain harnesses injected under cfg(kani) into a scratch copy of /repo; "
                            "bounded harnesses are labelled bounded and never counted as discharged obligations"),
    ],
    checks=checks,
    not_applicable=na,
    notes="exit 2 from a check means undecided (anchor lost / front-end error / resource limit) and prints no VIOLATION line. "
          "known_findings.json lists genuine defects (open or fixed). out/ holds run-time replay files and is not committed.",
)
with open(os.path.join(ROOT, "MANIFEST.json"), "w") as f:
    json.dump(m, f, indent=1)
    f.write("\n")
print("MANIFEST.json: %d checks, %d not_applicable" % (len(checks), len(na)))
