#!/usr/bin/env python3
"""dev helper: seed_save.py <src dir> <ID> [note] — copy a confirmed seeded change into /verif/seeded/<ID>/"""
import json, os, shutil, sys
src, sid = sys.argv[1], sys.argv[2]
note = sys.argv[3] if len(sys.argv) > 3 else ""
dst = f"/verif/seeded/{sid}"
os.makedirs(dst, exist_ok=True)
for f in ("patch.diff", "demo.diff"):
    shutil.copy(os.path.join(src, f), os.path.join(dst, f))
m = json.load(open(os.path.join(src, "meta.json")))
m["confirmed_by_me"] = ("vp/seed_verify.py in scratch worktree /tmp/wt/verify at /repo HEAD (with the fix: commits): demo passes without the "
    "change, fails with it; `cargo test -p <crate> --offline --lib --no-fail-fast` with the change fails only the demo test(s) and the "
    "two data-file tests that also fail at baseline. " + note)
json.dump(m, open(os.path.join(dst, "meta.json"), "w"), indent=1)
print("saved", dst)
