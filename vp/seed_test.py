#!/usr/bin/env python3
"""dev helper: seed_test.py PATCH PROP [PROP...] — apply a seeded change to /repo, run the checks, revert."""
import shutil
import subprocess
import sys
import tempfile

patch = sys.argv[1]
props = sys.argv[2:]
r = subprocess.run(["git", "-C", "/repo", "apply", patch], capture_output=True, text=True)
if r.returncode != 0:
    print("patch does not apply:", r.stderr[:500])
    sys.exit(3)
bak = tempfile.mkdtemp(prefix="vp_ev_")
shutil.copytree("/verif/evidence", bak + "/evidence")
try:
    for p in props:
        q = subprocess.run(["python3", "/verif/vp/check.py", p], capture_output=True, text=True, cwd="/verif")
        lines = [l for l in q.stdout.splitlines() if l.startswith(("VIOLATION", "UNDECIDED", "KNOWN", p))]
        print("\n".join(l[:260] for l in lines[-6:]))
        print("exit", q.returncode)
finally:
    subprocess.run(["git", "-C", "/repo", "checkout", "--", "."])
    # evidence written while a seeded change was applied is not evidence about /repo: restore
    shutil.rmtree("/verif/evidence"); shutil.copytree(bak + "/evidence", "/verif/evidence"); shutil.rmtree(bak)
