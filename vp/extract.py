"""Mechanical extractor + contract weaver.

A unit is ONE template file (`units/<unit>/unit.rs.tpl`): ordinary Verus text (trusted
prelude, spec functions and lemmas written from the property statements) with `//@`
directives marking the places where text of /repo is copied in, byte for byte, on every
run. Nothing of /repo is ever typed into a template by hand.

Directives (a block runs from `//@extract` / `//@slice` to `//@end`; lines `//@| …` are the
payload of the sub-directive above them):

  //@extract file=<repo path> [in="<container header>"] item="fn NAME"|"struct NAME"|...
  //@        [props=C02,C03] [mode=refuse] [canary=skip] [rename=NEW]
  //@ ret r                     name the return value:  -> T   ==>  -> (r: T)
  //@ spec                      requires/ensures/decreases clauses, inserted before the body
  //@ loop K [binder=it]        invariant/decreases clauses for the K-th loop of the body (1-based)
  //@ before "anchor" [nth=N]   ghost text inserted on its own line before the line holding anchor
  //@ after "anchor" [nth=N]    ghost text inserted after the statement that holds anchor
  //@ rewrite RULE "regex" => "replacement"   an executable-text rewrite (R4/R7 …), reported in evidence
  //@ sigrewrite RULE "regex" => "replacement"  same, applied to the signature only
  //@end

  //@slice  file=.. [in=..] item="fn NAME" from="anchor" to="anchor" [to_block=1] [props=..]
  //@ head                      the header of the lifted function (fn name(params) -> (r: T) requires.. ensures..)
  //@ tail                      expression placed after the slice (the value of the lifted function)
  //@ loop/before/after/rewrite as above
  //@end

Rules applied automatically to every extracted text (each application is counted):
  R1 logging statements removed         R2 visibility / unparsable attributes stripped
  R5 assert!/assert_eq!/debug_assert! ==> vp_assert(cond)    R6 (mode=refuse only) panic!(..) ==> vp_refuse()
"""
import hashlib
import json
import os
import re
import shlex
import sys

from rustlex import mask, match_close, find_at_depth0, line_of, line_start, LexError

REPO = os.environ.get("VP_REPO", "/repo")


class AnchorLost(Exception):
    """An item / anchor named by a template is not (uniquely) present in /repo any more."""


class TemplateError(Exception):
    pass


ALLOWED_DERIVES = {"Clone", "Copy", "PartialEq", "Eq", "PartialOrd", "Ord", "Hash", "Default", "Debug"}

_src_cache = {}


def read_repo(path):
    full = os.path.join(REPO, path)
    if full not in _src_cache:
        try:
            with open(full, encoding="utf-8") as f:
                s = f.read()
        except OSError as e:
            raise AnchorLost("file %s: %s" % (path, e))
        _src_cache[full] = (s, mask(s))
    return _src_cache[full]


def norm_ws(s):
    return re.sub(r"\s+", " ", s).strip()


def _test_mod_spans(masked):
    """Spans of `#[cfg(test)] mod … { }` so that look-alike items in tests are ignored."""
    spans = []
    for m in re.finditer(r"#\[cfg\(test\)\]\s*(?:pub\s+)?mod\s+\w+\s*\{", masked):
        o = m.end() - 1
        spans.append((m.start(), match_close(masked, o)))
    return spans


def find_container(src, masked, header, lo=0, hi=None):
    """Find `impl … {` / `mod … {` / `trait … {` whose header text (whitespace-normalised,
    up to the `{`) equals `header`. Returns (body_start, body_end) of the braces' inside."""
    hi = len(masked) if hi is None else hi
    want = norm_ws(header)
    kw = want.split(" ")[0].split("<")[0]
    tests = _test_mod_spans(masked)
    hits = []
    for m in re.finditer(r"(?m)^[ \t]*(?:pub(?:\([^)]*\))?\s+)?(?:unsafe\s+)?\b%s\b" % re.escape(kw), masked[lo:hi]):
        s = lo + m.start()
        if any(a <= s <= b for a, b in tests):
            continue
        o = find_at_depth0(masked, s, hi, ["{", ";"])
        if o < 0 or masked[o] != "{":
            continue
        head = norm_ws(re.sub(r"^\s*pub(\([^)]*\))?\s+", "", src[s:o]))
        if head == want:
            hits.append((o + 1, match_close(masked, o)))
    if len(hits) != 1:
        raise AnchorLost("container %r: %d matches" % (header, len(hits)))
    return hits[0]


def list_fns(path, container):
    """names of the fn items directly inside a container (impl/mod/trait), in order"""
    src, masked = read_repo(path)
    lo, hi = 0, len(masked)
    if container:
        for part in container.split(" >> "):
            lo, hi = find_container(src, masked, part, lo, hi)
    tests = _test_mod_spans(masked)
    names = []
    depth = 0
    k = lo
    for m in re.finditer(r"[{}]|\bfn\s+(\w+)\b\s*[<(]", masked[lo:hi]):
        tok = m.group(0)
        if tok == "{":
            depth += 1
        elif tok == "}":
            depth -= 1
        elif depth == 0 and not any(a <= lo + m.start() <= b for a, b in tests):
            names.append(m.group(1))
    return names


def find_item(path, container, item):
    """Locate an item. Returns dict(start, end, text, kind, name). `start` is the start of
    the line holding the item keyword (outer attributes / doc comments directly above are
    included for struct/enum so that derives can be filtered; for fns they are dropped)."""
    src, masked = read_repo(path)
    lo, hi = 0, len(masked)
    if container:
        for part in container.split(" >> "):
            lo, hi = find_container(src, masked, part, lo, hi)
    kind, _, name = item.partition(" ")
    name = name.strip()
    tests = _test_mod_spans(masked)
    hits = []
    if kind == "fn":
        rx = r"\bfn\s+%s\b\s*[<(]" % re.escape(name)
    elif kind in ("struct", "enum", "trait", "type", "const", "static", "mod", "union"):
        rx = r"\b%s\s+%s\b" % (kind, re.escape(name))
    elif kind == "impl":
        rx = None
    else:
        raise TemplateError("unknown item kind %r" % kind)
    if kind == "impl":
        a, b = find_container(src, masked, item, lo, hi)
        # whole impl block
        s = line_start(src, masked.rfind("impl", lo, a))
        return dict(start=s, end=b + 1, text=src[s:b + 1], kind=kind, name=name, path=path)
    for m in re.finditer(rx, masked[lo:hi]):
        s = lo + m.start()
        if any(a <= s <= b for a, b in tests):
            continue
        # must be at depth 0 relative to the container
        depth = 0
        for ch in masked[lo:s]:
            if ch == "{":
                depth += 1
            elif ch == "}":
                depth -= 1
        if depth != 0:
            continue
        hits.append(s)
    if len(hits) != 1:
        raise AnchorLost("%s: item %r in %r: %d matches" % (path, item, container, len(hits)))
    s = hits[0]
    ls = line_start(src, s)
    # end of item
    o = find_at_depth0(masked, s, hi, ["{", ";"])
    if o < 0:
        raise AnchorLost("%s: item %r has no body/terminator" % (path, item))
    if masked[o] == "{":
        e = match_close(masked, o) + 1
        # tuple struct: `struct X(..);`
    else:
        e = o + 1
    if kind in ("struct", "enum") and masked[o] == "{" and False:
        pass
    # struct with tuple body: the first depth-0 target may be `;` after `(…)` – handled (depth tracking).
    attr_start = ls
    if kind in ("struct", "enum", "union"):
        # include attributes/doc lines directly above
        k = ls
        while k > 0:
            p = src.rfind("\n", 0, k - 1)
            prev = src[p + 1:k - 1]
            if re.match(r"\s*(#\[|///|//)", prev):
                k = p + 1
            elif prev.strip().endswith(")]"):
                # tail of a multi-line attribute: walk up to its `#[`
                kk = p + 1
                found = False
                while kk > 0:
                    pp = src.rfind("\n", 0, kk - 1)
                    ln = src[pp + 1:kk - 1]
                    kk = pp + 1
                    if re.match(r"\s*#\[", ln):
                        found = True
                        break
                    if ln.strip() == "" or ln.strip().endswith(";") or ln.strip().endswith("}"):
                        break
                if not found:
                    break
                k = kk
            else:
                break
        attr_start = k
    return dict(start=attr_start, end=e, text=src[attr_start:e], kind=kind, name=name, path=path,
                kw=s - attr_start, open=(o - attr_start) if masked[o] == "{" else None)


# --------------------------------------------------------------------------------------
# automatic rules
# --------------------------------------------------------------------------------------

def split_args(masked_args, text_args):
    """split on depth-0 commas; returns list of text pieces"""
    parts = []
    depth = 0
    last = 0
    for k, ch in enumerate(masked_args):
        if ch in "([{":
            depth += 1
        elif ch in ")]}":
            depth -= 1
        elif ch == "," and depth == 0:
            parts.append(text_args[last:k])
            last = k + 1
    parts.append(text_args[last:])
    return [p for p in parts]


def rule_R1(text, counts):
    """remove logging statements: print(..); println!(..); ic_cdk::println!(..); ic_cdk::print(..);"""
    while True:
        m_ = mask(text)
        m = re.search(r"(?m)^([ \t]*)(?:ic_cdk::(?:api::)?|runtime::|crate::runtime::)?(?:print|println!|eprintln!|print!)\s*\(", m_)
        if not m:
            # expression position (e.g. a match arm): the macro call has type (), replace it by ()
            m2 = re.search(r"\b(?:ic_cdk::(?:api::)?)?(?:println!|eprintln!|print!)\s*\(", m_)
            if not m2:
                # the logging FUNCTION in expression position (`None => print(&format!(..)),`)
                m2 = re.search(r"(?<![\w:.!])(?<!fn )(?:ic_cdk::(?:api::)?|runtime::|crate::runtime::)?print\s*\(", m_)
            if not m2:
                return text
            c2 = match_close(m_, m2.end() - 1)
            text = text[:m2.start()] + "()" + text[c2 + 1:]
            counts["R1"] = counts.get("R1", 0) + 1
            continue
        o = m.end() - 1
        c = match_close(m_, o)
        k = c + 1
        while k < len(m_) and m_[k] in " \t":
            k += 1
        if k < len(m_) and m_[k] == ";":
            k += 1
            text = text[:m.start()] + m.group(1) + "/* R1: logging removed */" + text[k:]
            counts["R1"] = counts.get("R1", 0) + 1
        else:
            # expression position (e.g. match arm) – replace by unit
            text = text[:m.start()] + m.group(1) + "()" + text[c + 1:]
            counts["R1"] = counts.get("R1", 0) + 1


def rule_R2(text, counts):
    m_ = mask(text)
    out = []
    last = 0
    for m in re.finditer(r"\bpub(\s*\([^)]*\))?\s+", m_):
        out.append(text[last:m.start()])
        last = m.end()
        counts["R2"] = counts.get("R2", 0) + 1
    out.append(text[last:])
    text = "".join(out)

    # derives: keep only those Verus parses; drop other attributes known to be codegen-only
    def fix_derive(m):
        names = [x.strip() for x in m.group(1).split(",") if x.strip()]
        keep = [x for x in names if x.split("::")[-1] in ALLOWED_DERIVES]
        if len(keep) != len(names):
            counts["R2"] = counts.get("R2", 0) + 1
        return "#[derive(%s)]" % ", ".join(keep) if keep else ""

    text = re.sub(r"#\[derive\(([^\]]*)\)\]", fix_derive, text)
    for pat in (r"#\[serde\([^\]]*\)\]\s*", r"#\[must_use[^\]]*\]\s*", r"#\[inline[^\]]*\]\s*",
                r"#\[allow\([^\]]*\)\]\s*", r"#\[cfg_attr\([^\]]*\)\]\s*", r"#\[data_size\([^\]]*\)\]\s*"):
        text, n = re.subn(pat, "", text)
        if n:
            counts["R2"] = counts.get("R2", 0) + n
    return text


def rule_R5(text, counts):
    """assert!(c, ..) / debug_assert!(c, ..) => vp_assert(c); assert_eq!(a,b,..) => vp_assert(a == b)"""
    while True:
        m_ = mask(text)
        m = re.search(r"\b(debug_assert|assert|debug_assert_eq|assert_eq|debug_assert_ne|assert_ne)!\s*\(", m_)
        if not m:
            return text
        o = m.end() - 1
        c = match_close(m_, o)
        args = split_args(m_[o + 1:c], text[o + 1:c])
        name = m.group(1)
        if name.endswith("_eq"):
            cond = "(%s) == (%s)" % (args[0].strip(), args[1].strip())
        elif name.endswith("_ne"):
            cond = "(%s) != (%s)" % (args[0].strip(), args[1].strip())
        else:
            cond = args[0].strip()
        text = text[:m.start()] + "vp_assert(" + cond + ")" + text[c + 1:]
        counts["R5"] = counts.get("R5", 0) + 1


def rule_R6(text, counts, target="vp_refuse()", names=("panic",)):
    while True:
        m_ = mask(text)
        m = re.search(r"\b(%s)!\s*\(" % "|".join(names), m_)
        if not m:
            return text
        c = match_close(m_, m.end() - 1)
        text = text[:m.start()] + target + text[c + 1:]
        counts["R6"] = counts.get("R6", 0) + 1


# --------------------------------------------------------------------------------------
# weaving
# --------------------------------------------------------------------------------------

def find_loops(masked_body):
    """offsets of loop keywords (for / while / loop) in order of appearance"""
    res = []
    for m in re.finditer(r"\b(for|while|loop)\b", masked_body):
        k = m.start()
        kw = m.group(1)
        rest = masked_body[m.end():]
        if kw == "for" and re.match(r"\s*<", rest):
            continue  # for<'a>
        if kw == "loop" and not re.match(r"\s*\{", rest):
            continue
        # `impl X for Y` cannot occur inside a fn body at statement level except nested items; ignore
        prev = masked_body[:k].rstrip()
        if kw == "for" and re.search(r"\bimpl\b[^;{}]*$", prev):
            continue
        res.append((k, kw))
    return res


def apply_anchor_inserts(text, inserts):
    """inserts: list of (where, anchor, nth, payload). Applied one at a time on fresh masks."""
    for where, anchor, nth, payload in inserts:
        if where == "start":
            o = text.find("{")
            text = text[:o + 1] + "\n" + "".join("    " + l + "\n" for l in payload) + text[o + 1:]
            continue
        if where == "finish":
            o = text.find("{")
            c = text.rfind("}")
            pl = "".join("    " + l + "\n" for l in payload)
            if anchor == "ret":
                text = text[:o + 1] + "\n    let vp_ret = {" + text[o + 1:c] + "};\n" + pl + "    vp_ret\n" + text[c:]
            else:
                text = text[:c] + pl + text[c:]
            continue
        idx = -1
        start = 0
        for _ in range(nth):
            idx = text.find(anchor, start)
            if idx < 0:
                break
            start = idx + 1
        if idx < 0:
            raise AnchorLost("anchor %r (nth=%d) not found" % (anchor, nth))
        if where == "before":
            ls = line_start(text, idx)
            indent = re.match(r"[ \t]*", text[ls:]).group(0)
            text = text[:ls] + "".join(indent + l + "\n" for l in payload) + text[ls:]
        else:
            m_ = mask(text)
            semi = find_at_depth0(m_, idx, len(m_), [";"])
            if semi < 0:
                raise AnchorLost("no statement end after anchor %r" % anchor)
            nl = text.find("\n", semi)
            nl = len(text) if nl < 0 else nl + 1
            ls = line_start(text, idx)
            indent = re.match(r"[ \t]*", text[ls:]).group(0)
            text = text[:nl] + "".join(indent + l + "\n" for l in payload) + text[nl:]
    return text


def apply_loops(body, loops):
    """loops: dict K -> (binder, payload lines). Insert from the last loop to the first so
    that offsets stay valid."""
    if not loops:
        return body
    m_ = mask(body)
    found = find_loops(m_)
    for k in sorted(loops, reverse=True):
        if k > len(found):
            raise AnchorLost("loop #%d not found (function has %d loops)" % (k, len(found)))
        pos, kw = found[k - 1]
        binder, payload = loops[k][0], loops[k][1]
        bodystart = loops[k][2] if len(loops[k]) > 2 else []
        loopend = loops[k][3] if len(loops[k]) > 3 else []
        bodyend = loops[k][4] if len(loops[k]) > 4 else []
        before = loops[k][5] if len(loops[k]) > 5 else []
        o = find_at_depth0(m_, pos, len(m_), ["{"])
        if o < 0:
            raise AnchorLost("loop #%d has no body" % k)
        ls = line_start(body, pos)
        indent = re.match(r"[ \t]*", body[ls:]).group(0) + "    "
        clause = "\n" + "".join(indent + l + "\n" for l in payload) + indent[:-4]
        if loopend:
            # position-only insert right after the closing brace of the loop
            c = match_close(m_, o)
            body = body[:c + 1] + "\n" + "".join(indent[:-4] + l + "\n" for l in loopend) + body[c + 1:]
        if bodyend:
            # position-only insert at the end of the loop body
            c = match_close(m_, o)
            body = body[:c] + "".join(indent + l + "\n" for l in bodyend) + indent[:-4] + body[c:]
        if bodystart:
            # position-only insert at the start of the loop body (no anchor in the body text)
            body = body[:o + 1] + "\n" + "".join(indent + l + "\n" for l in bodystart) + body[o + 1:]
        body = body[:o].rstrip() + clause + body[o:]
        if binder:
            if kw != "for":
                raise TemplateError("binder on a non-for loop")
            inpos = re.search(r"\bin\b", m_[pos:o])
            if not inpos:
                raise AnchorLost("for loop #%d without `in`" % k)
            p = pos + inpos.end()
            body = body[:p] + " " + binder + ":" + body[p:]
        if before:
            # position-only insert right before the loop statement (ghost snapshots of the state the loop starts from)
            body = body[:ls] + "".join(indent[:-4] + l + "\n" for l in before) + body[ls:]
        m_ = mask(body)
        # offsets of earlier loops are unchanged because we go backwards
    return body


def apply_rewrites(text, rewrites, counts, log):
    for rule, rx, repl in rewrites:
        new, n = re.subn(rx, repl, text, flags=re.S)
        if n == 0:
            if rule.endswith("?"):
                continue
            raise AnchorLost("rewrite %s /%s/ did not apply" % (rule, rx))
        rule = rule.rstrip("?")
        counts[rule] = counts.get(rule, 0) + n
        log.append(dict(rule=rule, regex=rx, replacement=repl, applications=n,
                        before_sha=hashlib.sha256(text.encode()).hexdigest()[:16],
                        after_sha=hashlib.sha256(new.encode()).hexdigest()[:16]))
        text = new
    return text


def rule_R1f(text, counts):
    """format!(..) that survives R1 (i.e. a message that is returned, not logged) => vp_format(): an opaque String"""
    while True:
        m_ = mask(text)
        m = re.search(r"\bformat!\s*\(", m_)
        if not m:
            return text
        c = match_close(m_, m.end() - 1)
        text = text[:m.start()] + "vp_format()" + text[c + 1:]
        counts["R1"] = counts.get("R1", 0) + 1


def rule_R7(text, cfg, counts):
    """with_state(|s| E) => { let s: &T = RO; E }   with_state_mut(|s| E) => { let s: &mut T = RW; E }
       with_state(path) => path(RO)                  with_state_mut(path) => path(RW)"""
    ro, rw, ty = cfg.get("ro"), cfg.get("rw"), cfg.get("type", "State")
    while True:
        m_ = mask(text)
        m = re.search(r"\bwith_state(_mut)?\s*\(", m_)
        if not m:
            return text
        is_mut = bool(m.group(1))
        src = rw if is_mut else ro
        if not src:
            raise AnchorLost("R7: %s used but no %s binding configured" % ("with_state_mut" if is_mut else "with_state", "rw" if is_mut else "ro"))
        o = m.end() - 1
        c = match_close(m_, o)
        inner = text[o + 1:c]
        mc = re.match(r"\s*\|\s*(\w+)\s*\|\s*(.*)$", inner, re.S)
        if mc:
            name, body = mc.group(1), mc.group(2).rstrip()
            if body.endswith(","):
                body = body[:-1].rstrip()
            rep = "{ let %s: &%s%s = %s; %s }" % (name, "mut " if is_mut else "", ty, src, body)
        else:
            rep = "%s(%s)" % (inner.strip().rstrip(","), src)
        text = text[:m.start()] + rep + text[c + 1:]
        counts["R7"] = counts.get("R7", 0) + 1


def rule_R14(text, cfg, counts):
    """drop elaboration for a Drop type (opt-in per block: //@ r14 fn=F args=A):
         let _ = E;          => let vp_dropped_k = E; F(vp_dropped_k, A);     (a wildcard pattern does not bind: the value is
                                                                              dropped at the end of the statement)
         drop(x) / std::mem::drop(x) / core::mem::drop(x) => F(x, A)
       a named binding (`let _guard = E;`) lives to the end of its scope and is left alone."""
    fn, args = cfg["fn"], cfg.get("args", "")
    # named bindings of the tracked type (`track` = regex of its constructor calls): the value lives to the end of its scope, so
    # it is dropped at every later `return e;` whose expression does not hand it on
    if cfg.get("track"):
        m_ = mask(text)
        for mb in list(re.finditer(r"\blet\s+(?:mut\s+)?(\w+)\s*=", m_)):
            name = mb.group(1)
            if name == "_":
                continue
            semi = find_at_depth0(m_, mb.end(), len(m_), [";"])
            if semi < 0 or not re.search(cfg["track"], text[mb.end():semi]):
                continue
            out, pos = [], semi + 1
            head = text[:pos]
            rest_t = text[pos:]
            rest_m = mask(rest_t)
            cur = 0
            for mr in re.finditer(r"\breturn\b", rest_m):
                e = find_at_depth0(rest_m, mr.end(), len(rest_m), [";"])
                if e < 0:
                    continue
                if re.search(r"\b%s\b" % re.escape(name), rest_t[mr.end():e]):
                    continue
                out.append(rest_t[cur:mr.start()])
                out.append("{ %s(%s%s); %s; }" % (fn, name, (", " + args) if args else "", rest_t[mr.start():e]))
                cur = e + 1
                counts["R14"] = counts.get("R14", 0) + 1
            out.append(rest_t[cur:])
            text = head + "".join(out)
            break   # one tracked binding per block
    k = 0
    while True:
        m_ = mask(text)
        m = re.search(r"\blet\s+_\s*=", m_)
        if not m:
            break
        semi = find_at_depth0(m_, m.end(), len(m_), [";"])
        if semi < 0:
            raise AnchorLost("R14: no statement end after `let _ =`")
        k += 1
        expr = text[m.end():semi]
        rep = "let vp_dropped_%d =%s; %s(vp_dropped_%d%s);" % (k, expr, fn, k, (", " + args) if args else "")
        text = text[:m.start()] + rep + text[semi + 1:]
        counts["R14"] = counts.get("R14", 0) + 1
    while True:
        m_ = mask(text)
        m = re.search(r"(?<![\w.])(?:(?:std|core)::mem::)?drop\s*\(", m_)
        if not m:
            break
        c = match_close(m_, m.end() - 1)
        inner = text[m.end():c]
        text = text[:m.start()] + "%s(%s%s)" % (fn, inner.strip(), (", " + args) if args else "") + text[c + 1:]
        counts["R14"] = counts.get("R14", 0) + 1
    return text



def rule_R24(text, counts):
    """continue elimination: inside a loop body, `if COND { continue; } REST` => `if !(COND) { REST }` (REST = the remaining statements
    of the enclosing block, which must be the loop body itself). Definition of `continue`: skip the rest of this iteration."""
    while True:
        m_ = mask(text)
        m = re.search(r"\bif\b([^{};]*)\{\s*continue\s*;\s*\}", m_)
        if not m:
            return text
        cond = text[m.start(1):m.end(1)].strip()
        # the enclosing block: walk outwards to the nearest unmatched `{`
        depth = 0
        k = m.start() - 1
        while k >= 0:
            if m_[k] == "}":
                depth += 1
            elif m_[k] == "{":
                if depth == 0:
                    break
                depth -= 1
            k -= 1
        if k < 0:
            raise AnchorLost("R24: `continue` outside a block")
        c = match_close(m_, k)
        rest = text[m.end():c]
        text = text[:m.start()] + "if !(" + cond + ") {" + rest.rstrip() + "\n" + line_indent(text, m.start()) + "}\n" + line_indent(text, k) + text[c:]
        counts["R24"] = counts.get("R24", 0) + 1


def line_indent(text, pos):
    ls = line_start(text, pos)
    return re.match(r"[ \t]*", text[ls:]).group(0)


def auto_rules(text, mode, counts):
    text = rule_R1(text, counts)
    text = rule_R1f(text, counts)
    text = rule_R2(text, counts)
    text = rule_R5(text, counts)
    if mode == "refuse":
        text = rule_R6(text, counts)
        text = rule_R6(text, counts, target="vp_trap()", names=("unreachable",))
    else:
        # no-trap mode (default): panic!/unreachable! with a formatted message => vp_trap() (`requires false`),
        # i.e. exactly Verus' native reading of panic!, minus the message formatting
        text = rule_R6(text, counts, target="vp_trap()", names=("panic", "unreachable"))
    return text


def dedent_to(text, indent):
    lines = text.split("\n")
    ind = [len(re.match(r"[ \t]*", l).group(0)) for l in lines if l.strip()]
    cur = min(ind) if ind else 0
    out = []
    for l in lines:
        out.append((indent + l[cur:]) if l.strip() else "")
    return "\n".join(out)


class Block:
    def __init__(self, kind, attrs, lineno):
        self.kind = kind
        self.attrs = attrs
        self.lineno = lineno
        self.ret = None
        self.spec = []
        self.loops = {}
        self.r24 = False
        self.inserts = []
        self.rewrites = []
        self.sigrewrites = []
        self.specrewrites = []
        self.r7 = None
        self.r14 = None
        self.head = []
        self.tail = []


def parse_attrs(s):
    out = {}
    for tok in shlex.split(s):
        if "=" in tok:
            k, v = tok.split("=", 1)
            out[k] = v
        else:
            out[tok] = True
    return out


def parse_template(tpl_text, base_dir=None, hashes=None):
    """returns list of ('text', str) | ('block', Block)"""
    parts = []
    cur = None
    target = None
    buf = []
    for ln, line in enumerate(tpl_text.split("\n"), 1):
        s = line.strip()
        if not s.startswith("//@"):
            if cur is not None:
                if s == "":
                    continue
                raise TemplateError("line %d: plain text inside //@ block" % ln)
            buf.append(line)
            continue
        d = s[3:]
        if d.startswith("|"):
            if target is None:
                raise TemplateError("line %d: payload without sub-directive" % ln)
            target.append(d[1:].rstrip() if not d[1:].startswith(" ") else d[2:].rstrip())
            continue
        d = d.strip()
        if d.startswith("#") or d == "":
            continue
        word, _, rest = d.partition(" ")
        if word in ("extract", "slice"):
            if cur is not None:
                raise TemplateError("line %d: nested block" % ln)
            parts.append(("text", "\n".join(buf)))
            buf = []
            cur = Block(word, parse_attrs(rest), ln)
            target = None
        elif word == "end":
            if cur is None:
                raise TemplateError("line %d: //@end without block" % ln)
            parts.append(("block", cur))
            cur = None
            target = None
        elif cur is None:
            if word == "include":
                parts.append(("text", "\n".join(buf)))
                buf = []
                inc = os.path.normpath(os.path.join(base_dir or ".", rest.strip()))
                with open(inc, encoding="utf-8") as fh:
                    inc_text = fh.read()
                if hashes is not None:
                    hashes.append((os.path.basename(inc), hashlib.sha256(inc_text.encode()).hexdigest()[:16]))
                parts.extend(parse_template(inc_text, os.path.dirname(inc), hashes))
            elif word == "rest":
                parts.append(("text", "\n".join(buf)))
                buf = []
                parts.append(("rest", parse_attrs(rest)))
            elif word == "unit":
                parts.append(("unit", parse_attrs(rest)))
            elif word == "lemma":
                parts.append(("lemma", parse_attrs(rest)))
            else:
                raise TemplateError("line %d: directive %r outside block" % (ln, word))
        elif word == "ret":
            cur.ret = rest.strip()
        elif word == "spec":
            target = cur.spec
        elif word == "head":
            target = cur.head
        elif word == "tail":
            target = cur.tail
        elif word == "loop":
            toks = rest.split()
            k = int(toks[0])
            a = parse_attrs(" ".join(toks[1:]))
            payload = []
            prev = cur.loops.get(k)
            cur.loops[k] = (a.get("binder"), payload, prev[2] if prev else [], prev[3] if prev else [], prev[4] if prev else [], prev[5] if prev and len(prev) > 5 else [])
            target = payload
        elif word in ("loopstart", "loopend", "loopbodyend", "loopbefore"):
            k = int(rest.split()[0])
            payload = []
            prev = list(cur.loops.get(k) or (None, [], [], [], [], []))
            while len(prev) < 6:
                prev.append([])
            prev[{"loopstart": 2, "loopend": 3, "loopbodyend": 4, "loopbefore": 5}[word]] = payload
            cur.loops[k] = tuple(prev)
            target = payload
        elif word == "start":
            # position-only insert: right after the opening brace of the function body (no anchor in the body text)
            payload = []
            cur.inserts.append(("start", "", 1, payload))
            target = payload
        elif word == "finish":
            # position-only insert: right before the closing brace of the function body; with `ret=1` the body is first bound
            # (`let vp_ret = { body };`) so that the payload can name the value the function is about to return
            payload = []
            cur.inserts.append(("finish", "ret" if "ret=1" in rest else "", 1, payload))
            target = payload
        elif word in ("before", "after"):
            toks = shlex.split(rest)
            anchor = toks[0]
            a = parse_attrs(" ".join(shlex.quote(t) for t in toks[1:]))
            payload = []
            cur.inserts.append((word, anchor, int(a.get("nth", 1)), payload))
            target = payload
        elif word == "r7":
            cur.r7 = parse_attrs(rest)
            target = None
        elif word == "r14":
            cur.r14 = parse_attrs(rest)
            target = None
        elif word == "r24":
            cur.r24 = True
            target = None
        elif word in ("rewrite", "sigrewrite", "specrewrite"):
            m = re.match(r'(\S+)\s+"((?:[^"\\]|\\.)*)"\s*=>\s*"((?:[^"\\]|\\.)*)"\s*$', rest)
            if not m:
                raise TemplateError("line %d: bad rewrite" % ln)
            unq = lambda x: x.replace('\\"', '"')
            {"rewrite": cur.rewrites, "sigrewrite": cur.sigrewrites, "specrewrite": cur.specrewrites}[word].append((m.group(1), unq(m.group(2)), unq(m.group(3))))
            target = None
        else:
            raise TemplateError("line %d: unknown directive %r" % (ln, word))
    if cur is not None:
        raise TemplateError("unterminated block starting line %d" % cur.lineno)
    parts.append(("text", "\n".join(buf)))
    return parts


def weave_fn(it, blk, counts, rewrite_log):
    """it: item dict of a fn. returns (text, canary_text or None)"""
    text = it["text"]
    m_ = mask(text)
    o = it["open"]
    if o is None:
        raise TemplateError("fn %s has no body" % it["name"])
    sig = text[:o].rstrip()
    body = text[o:]
    mode = blk.attrs.get("mode")
    sig = auto_rules(sig, mode, counts)
    body = auto_rules(body, mode, counts)
    sig = apply_rewrites(sig, blk.sigrewrites, counts, rewrite_log)
    body = apply_rewrites(body, blk.rewrites, counts, rewrite_log)
    if blk.r7:
        body = rule_R7(body, blk.r7, counts)
    if blk.r14:
        body = rule_R14(body, blk.r14, counts)
    # R24 (continue elimination) is applied to every extracted function: it only fires on `if c { continue; }`, which Verus rejects in `for`
    body = rule_R24(body, counts)
    if blk.attrs.get("rename"):
        sig = re.sub(r"\bfn\s+%s\b" % re.escape(it["name"]), "fn " + blk.attrs["rename"], sig, count=1)
    # name the return value
    if blk.ret:
        ms = mask(sig)
        p = find_at_depth0(ms, ms.find("("), len(ms), ["->"])
        # the params paren itself is depth>0; search after its close
        po = ms.find("(")
        pc = match_close(ms, po)
        p = ms.find("->", pc)
        if p < 0:
            raise AnchorLost("fn %s: no return type to name" % it["name"])
        w = re.search(r"\bwhere\b", ms[p:])
        end = p + w.start() if w else len(sig)
        rty = sig[p + 2:end].strip()
        sig = sig[:p] + "-> (%s: %s)" % (blk.ret, rty) + ((" " + sig[end:]) if w else "")
    spec_copy = None
    if blk.attrs.get("also_spec"):
        # the same body text, emitted a second time as a spec function (so that callers can see through the exec fn)
        ms0 = mask(sig)
        po0 = ms0.find("(")
        pc0 = match_close(ms0, po0)
        ar = ms0.find("->", pc0)
        rty0 = sig[ar + 2:].strip() if ar >= 0 else "()"
        mret = re.match(r"^\(\s*\w+\s*:\s*(.*)\)$", rty0, re.S)
        if mret:
            rty0 = mret.group(1).strip()
        params0 = re.sub(r"\bmut\s+(?=\w+\s*:)", "", sig[po0:pc0 + 1])
        sbody = apply_rewrites(body, blk.specrewrites, counts, rewrite_log)
        spec_copy = "spec fn %s%s -> %s\n%s\n" % (blk.attrs["also_spec"], params0, rty0, sbody)
    body = apply_loops(body, blk.loops)
    body = apply_anchor_inserts(body, blk.inserts)
    spec = "".join("    " + l + "\n" for l in blk.spec)
    woven = sig + "\n" + spec + body if blk.spec else sig + " " + body
    if spec_copy:
        woven = spec_copy + woven
    canary = None
    reqs = _requires_only(blk.spec)
    if reqs and blk.attrs.get("canary") != "skip" and "&mut" not in sig and "async" not in sig:
        ms = mask(sig)
        po = ms.find("(")
        pc = match_close(ms, po)
        nm = blk.attrs.get("rename") or it["name"]
        pre = re.sub(r"\b(const\s+|async\s+|unsafe\s+)*fn\s+%s\b" % re.escape(nm), "proof fn vp_canary_" + nm, sig[:po])
        w = re.search(r"\bwhere\b", ms[pc:])
        wh = (" " + sig[pc + w.start():]) if w else ""
        params = re.sub(r"\bmut\s+(?=\w+\s*:)", "", sig[po:pc + 1])
        canary = pre + params + wh + "\n" + "".join("    " + l + "\n" for l in reqs) + "    ensures false,\n{}\n"
    return woven, canary


def _requires_only(spec_lines):
    """the `requires` section of a spec payload (up to ensures/decreases/returns)"""
    out = []
    on = False
    for l in spec_lines:
        s = l.strip()
        if re.match(r"requires\b", s):
            on = True
        elif re.match(r"(ensures|decreases|returns|opens_invariants|no_unwind)\b", s):
            on = False
        if on:
            out.append(l)
    return out


def process_block(blk, emitted_items):
    a = blk.attrs
    path = a.get("file")
    item = a.get("item")
    if not path or not item:
        raise TemplateError("line %d: extract needs file= and item=" % blk.lineno)
    it = find_item(path, a.get("in"), item)
    counts = {}
    rewrite_log = []
    src, _ = read_repo(path)
    rec = dict(file=path, item=item, container=a.get("in"), kind=blk.kind,
               props=[p for p in a.get("props", "").split(",") if p],
               lines=[line_of(src, it["start"]), line_of(src, it["end"] - 1)],
               sha256=hashlib.sha256(it["text"].encode()).hexdigest(),
               mode=a.get("mode"), contracted=bool(blk.spec or blk.head or blk.loops))
    canary = None
    if blk.kind == "extract":
        if it["kind"] == "fn":
            text, canary = weave_fn(it, blk, counts, rewrite_log)
            rec["fn_name"] = a.get("rename") or it["name"]
        else:
            text = auto_rules(it["text"], a.get("mode"), counts)
            text = apply_rewrites(text, blk.rewrites, counts, rewrite_log)
            rec["fn_name"] = None
            if it["kind"] == "impl":
                rec["fn_names"] = re.findall(r"\bfn\s+(\w+)", mask(it["text"]))
        text = dedent_to(text, "")
    else:
        # R8 statement slice
        if it["kind"] != "fn":
            raise TemplateError("slice of a non-fn")
        body = it["text"][it["open"]:]
        if a.get("body"):
            # the whole body of the function (used to lift a trait-impl method with `self.x` turned into parameters)
            mb0 = mask(body)
            a = dict(a)
            a["_range"] = (1, match_close(mb0, 0))
        if a.get("block_after"):
            # the slice is the inside of the first brace group that follows the anchor (e.g. a closure body)
            anc = a["block_after"]
            pos = -1
            for _ in range(int(a.get("nth", 1))):
                pos = body.find(anc, pos + 1)
                if pos < 0:
                    raise AnchorLost("slice block_after anchor %r (nth=%s) not found in %s" % (anc, a.get("nth", 1), item))
            mb0 = mask(body)
            o0 = mb0.find("{", pos + len(anc) - 1) if anc.rstrip().endswith("{") else find_at_depth0(mb0, pos + len(anc), len(mb0), ["{"])
            c0 = match_close(mb0, o0)
            a = dict(a)
            a["_range"] = (o0 + 1, c0)
        if a.get("from_after") or a.get("to_before"):
            # the slice is everything between two NEIGHBOURING statements (anchors outside the slice, so that an edit of
            # the sliced statements themselves cannot lose the anchor)
            mb0 = mask(body)
            depth_at = []
            d0 = 0
            for ch in mb0:
                if ch in "([{":
                    d0 += 1
                depth_at.append(d0)
                if ch in ")]}":
                    d0 -= 1
            fa, tb = a.get("from_after"), a.get("to_before")
            if fa:
                pa = body.find(fa)
                if pa < 0:
                    raise AnchorLost("slice from_after anchor %r not found in %s" % (fa, item))
                k = pa
                d_anchor = depth_at[pa]
                while k < len(mb0) and not (mb0[k] == ";" and depth_at[k] == d_anchor):
                    k += 1
                if k >= len(mb0):
                    raise AnchorLost("slice from_after: statement end not found after %r" % fa)
                nl = body.find("\n", k)
                s_from = nl + 1
            else:
                s_from = body.find("{") + 1
            if tb:
                pb = body.find(tb, s_from)
                if pb < 0:
                    raise AnchorLost("slice to_before anchor %r not found in %s" % (tb, item))
                s_to = line_start(body, pb)
            else:
                s_to = body.rfind("}")
            a = dict(a)
            a["_range"] = (s_from, s_to)
        f, t = a.get("from"), a.get("to") or a.get("from")
        if a.get("_range"):
            s0, e = a["_range"]
            # trim to whole lines
            while s0 < e and body[s0] in " \t":
                s0 += 1
            if body[s0] == "\n":
                s0 += 1
            sl = body[s0:e].rstrip()
            e = s0 + len(sl)
            i0 = s0
        if not a.get("_range"):
            i0 = -1
            for _ in range(int(a.get("nth", 1))):
                i0 = body.find(f, i0 + 1)
                if i0 < 0:
                    break
        if not a.get("_range"):
            if i0 < 0:
                raise AnchorLost("slice from-anchor %r not found in %s" % (f, item))
            s0 = line_start(body, i0)
            i1 = body.find(t, i0 if f != t else i0)
            if a.get("to_nth"):
                i1 = i0 - 1
                for _ in range(int(a["to_nth"])):
                    i1 = body.find(t, i1 + 1)
            if i1 < 0:
                raise AnchorLost("slice to-anchor %r not found in %s" % (t, item))
            mb = mask(body)
            if a.get("to_block"):
                o = find_at_depth0(mb, i1, len(mb), ["{"])
                e = match_close(mb, o) + 1
            else:
                e = find_at_depth0(mb, i1, len(mb), [";"])
                if e < 0:
                    raise AnchorLost("slice end: no `;` after %r" % t)
                e += 1
            sl = body[s0:e]
        msl = mask(sl)
        if msl.count("{") != msl.count("}") or msl.count("(") != msl.count(")"):
            raise AnchorLost("slice %s: unbalanced (anchors moved?)" % item)
        rec["slice_lines"] = [line_of(src, it["start"] + it["open"] + s0), line_of(src, it["start"] + it["open"] + e - 1)]
        rec["slice_sha256"] = hashlib.sha256(sl.encode()).hexdigest()
        counts["R8"] = 1
        sl = auto_rules(sl, a.get("mode"), counts)
        sl = apply_rewrites(sl, blk.rewrites, counts, rewrite_log)
        if blk.r7:
            sl = rule_R7(sl, blk.r7, counts)
        if blk.r14:
            sl = rule_R14(sl, blk.r14, counts)
        sl = apply_loops(sl, blk.loops)
        sl = apply_anchor_inserts(sl, blk.inserts)
        head = "\n".join(blk.head)
        mh = re.search(r"\bfn\s+(\w+)", head)
        rec["fn_name"] = mh.group(1) if mh else None
        text = head + "\n{\n" + dedent_to(sl, "    ") + "\n" + "".join("    " + l + "\n" for l in blk.tail) + "}"
    rec["rules"] = counts
    rec["rewrites"] = rewrite_log
    return text, canary, rec


def render(tpl_path, with_canaries=True):
    """returns (verus_source, records, meta). records carry the generated-file line spans."""
    with open(tpl_path, encoding="utf-8") as f:
        tpl = f.read()
    inc_hashes = []
    parts = parse_template(tpl, os.path.dirname(os.path.abspath(tpl_path)), inc_hashes)
    out_lines = []
    records = []
    meta = {}
    canaries = []

    def emit(text):
        start = len(out_lines) + 1
        out_lines.extend(text.split("\n"))
        return start, len(out_lines)

    for kind, val in parts:
        if kind == "text":
            emit(val)
        elif kind == "unit":
            meta.update(val)
        elif kind == "lemma":
            meta.setdefault("lemmas", []).append(dict(fn=val["fn"], props=[p for p in val.get("props", "").split(",") if p]))
        elif kind == "rest":
            # every OTHER fn of the container, verbatim and without a contract: a helper method that a change introduces is
            # then present (callers learn nothing about it, so their proofs fail instead of the unit failing to compile)
            for nm in list_fns(val["file"], val.get("in")):
                if nm in [x for x in val.get("except", "").split(",") if x]:
                    continue
                blk = Block("extract", dict(file=val["file"], item="fn " + nm, props=val.get("props", ""), **({"in": val["in"]} if val.get("in") else {})), 0)
                text, canary, rec = process_block(blk, records)
                rec["rest"] = True
                s, e = emit(text)
                rec["gen_lines"] = [s, e]
                records.append(rec)
        else:
            if val.attrs.get("optional"):
                try:
                    find_item(val.attrs.get("file"), val.attrs.get("in"), val.attrs.get("item"))
                except AnchorLost:
                    continue
            try:
                text, canary, rec = process_block(val, records)
            except AnchorLost as ex:
                # an optional SLICE whose anchors are gone is skipped (reported in meta): another unit owns the whole function
                if val.attrs.get("optional") and val.kind == "slice":
                    meta.setdefault("skipped_optional", []).append("%s %s: %s" % (val.attrs.get("file"), val.attrs.get("item"), ex))
                    continue
                raise
            # indentation of the directive is not tracked; Verus does not care
            s, e = emit(text)
            rec["gen_lines"] = [s, e]
            records.append(rec)
            if canary and with_canaries:
                s, e = emit(canary)
                canaries.append(dict(fn="vp_canary_" + rec["fn_name"], gen_lines=[s, e], of=rec["fn_name"]))
    src = "\n".join(out_lines)
    meta["canaries"] = canaries
    meta["template_sha256"] = hashlib.sha256(tpl.encode()).hexdigest()
    meta["includes"] = inc_hashes
    return src, records, meta


if __name__ == "__main__":
    src, recs, meta = render(sys.argv[1])
    if len(sys.argv) > 2:
        with open(sys.argv[2], "w") as f:
            f.write(src)
    else:
        sys.stdout.write(src)
    sys.stderr.write(json.dumps(dict(records=recs, meta=meta), indent=1) + "\n")
