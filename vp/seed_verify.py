#!/usr/bin/env python3
"""dev helper: confirm a seeded change in a scratch worktree of /repo (HEAD): the demo passes without the change, fails with
it, and the crate's test suite still passes with it. usage: seed_verify.py <dir with patch.diff demo.diff meta.json> <crate> <demo filter>"""
import json
import os
import re
import subprocess
import sys

d, crate, filt = sys.argv[1], sys.argv[2], sys.argv[3]
WT = "/tmp/wt/verify"
if not os.path.isdir(WT):
    subprocess.run(["git", "-C", "/repo", "worktree", "add", "-q", "--detach", WT, "HEAD"], check=True)
def git(*a):
    return subprocess.run(["git", "-C", WT] + list(a), capture_output=True, text=True)
git("checkout", "-q", "--detach", subprocess.run(["git", "-C", "/repo", "rev-parse", "HEAD"], capture_output=True, text=True).stdout.strip())
git("checkout", "--", "."); git("clean", "-fdq", "--exclude=target")
env = dict(os.environ, CARGO_TARGET_DIR="/tmp/wt/verify_target")
def test(args):
    p = subprocess.run(["cargo", "test", "-p", crate, "--offline", "--lib"] + args, cwd=WT, env=env, capture_output=True, text=True)
    out = p.stdout + p.stderr
    m = re.findall(r"test result: (\w+)\. (\d+) passed; (\d+) failed", out)
    return p.returncode, m, out
res = {}
r = git("apply", os.path.join(d, "demo.diff"))
if r.returncode: print("demo.diff does not apply:", r.stderr[:300]); sys.exit(3)
rc, m, out = test([filt]); res["demo_without_change"] = (rc, m)
r = git("apply", os.path.join(d, "patch.diff"))
if r.returncode: print("patch.diff does not apply:", r.stderr[:300]); git("checkout", "--", "."); sys.exit(3)
rc, m, out = test([filt]); res["demo_with_change"] = (rc, m)
rc, m, out = test(["--no-fail-fast"]); res["suite_with_change"] = (rc, m)
failed = sorted(set(re.findall(r"^test (\S+) \.\.\. FAILED", out, re.M)))
res["suite_failed"] = failed
git("checkout", "--", "."); git("clean", "-fdq", "--exclude=target")
print(json.dumps(res, indent=1))
