#!/usr/bin/env python3
"""dev helper: run every kept seed (seeded/<ID>/patch.diff) against the property's check in a scratch worktree of /repo
(VP_REPO), never touching /repo itself. Prints one line per seed: exit code and the VIOLATION / UNDECIDED lines.
usage: seed_sweep.py [ID ...]    (env SWEEP_KANI=1: also run the Kani side for the seeds that need it)"""
import json
import os
import subprocess
import sys
import tempfile

HERE = os.path.dirname(os.path.abspath(__file__))
ROOT = os.path.dirname(HERE)
SEEDS = "/verif/seeded"
KANI_NEEDED = {"C01b", "C03d", "C05a"}
ids = sys.argv[1:] or sorted(os.listdir(SEEDS))
wt = tempfile.mkdtemp(prefix="vp_sweep_")
subprocess.run(["git", "-C", "/repo", "worktree", "add", "-q", "--detach", wt + "/repo", "HEAD"], check=True)
repo = wt + "/repo"
res = []
try:
    for sid in ids:
        d = os.path.join(SEEDS, sid)
        meta = json.load(open(os.path.join(d, "meta.json")))
        prop = meta["property"]
        r = subprocess.run(["git", "-C", repo, "apply", os.path.join(d, "patch.diff")], capture_output=True, text=True)
        if r.returncode:
            res.append((sid, prop, "patch does not apply", []))
            print(sid, prop, "patch does not apply", flush=True)
            continue
        env = dict(os.environ, VP_REPO=repo, VP_DEV_SKIP_REPLAYS="1")
        if not (os.environ.get("SWEEP_KANI") and sid in KANI_NEEDED):
            env["VP_DEV_SKIP_KANI"] = "1"
        q = subprocess.run(["python3", os.path.join(HERE, "check.py"), prop], capture_output=True, text=True, cwd=ROOT, env=env)
        lines = [l[:200] for l in q.stdout.splitlines() if l.startswith(("VIOLATION", "UNDECIDED"))]
        res.append((sid, prop, q.returncode, lines))
        print(sid, prop, "exit", q.returncode, "|", " ;; ".join(l.split("replay=")[-1] if l.startswith("VIOLATION") else l for l in lines[:3]), flush=True)
        subprocess.run(["git", "-C", repo, "checkout", "--", "."])
        subprocess.run(["git", "-C", repo, "clean", "-fdq"])
finally:
    subprocess.run(["git", "-C", "/repo", "worktree", "remove", "--force", repo])
    subprocess.run(["rm", "-rf", wt])
print("summary:", {k: sum(1 for x in res if x[2] == k) for k in (0, 1, 2)})
