"""Properties that contract-based deductive verification cannot decide here (DESIGN.md section 6)."""
NOT_APPLICABLE = {
    "C08": "quantifies over schedules of a budget predicate; the code realising it (remove_inputs/insert_outputs/ingest_block_continue, UtxosDelta, "
           "reverting readers) calls a Box<dyn FnMut()->bool>, iterates with enumerate().skip() and keeps state in StableBTreeMaps + entry-API maps: "
           "Verus rejects these constructs, Kani ICEs on any reachable ic-stable-structures type, the heartbeat is an async fn. No contract within reach can express it.",
    "C09": "crash-point quantifier over pre_upgrade/post_upgrade, i.e. ciborium + derived/hand-written serde visitors and re-attached stable memory; "
           "neither tool reads serde-generic code and assuming the round trip would assume the property.",
}
