"""Properties that contract-based deductive verification cannot decide here (DESIGN.md section 6)."""
NOT_APPLICABLE = {
    "C09": "crash-point quantifier over pre_upgrade/post_upgrade, i.e. ciborium + derived/hand-written serde visitors and re-attached stable memory; "
           "neither tool reads serde-generic code and assuming the round trip would assume the property.",
}
