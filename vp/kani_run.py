"""Kani side: copy /repo's working tree to a scratch directory outside /repo and /verif, append
#[cfg(kani)] harness modules to the named source files (child modules see private items), insert
#[cfg_attr(kani, kani::requires/ensures(..))] lines above named fns, run `cargo kani`, parse the
per-harness verdicts, and remove the copy together with its target/.

A group is units/kani/<group>/group.json:
  { "crate": "ic-btc-canister",
    "append": [ {"file": "canister/src/types.rs", "from": "types_harness.rs"} ],
    "attrs":  [ {"file": "..", "in": "impl X" | null, "item": "fn name", "lines": ["#[cfg_attr(kani, ...)]"]} ],
    "harnesses": [ {"name": "..", "props": ["C01"], "kind": "complete"|"bounded", "tier": "quick"|"thorough",
                    "target": "file::fn", "what": "...", "complete_because": "...", "bound": "..."} ] }
"""
import json
import os
import re
import shutil
import subprocess
import tempfile
import time

import extract
from rustlex import line_start

HERE = os.path.dirname(os.path.abspath(__file__))
ROOT = os.path.dirname(HERE)
REPO = os.environ.get("VP_REPO", "/repo")


def load_group(name):
    d = os.path.join(ROOT, "units", "kani", name)
    with open(os.path.join(d, "group.json")) as f:
        g = json.load(f)
    g["dir"] = d
    g["name"] = name
    return g


def make_scratch():
    d = tempfile.mkdtemp(prefix="vp_kani_")
    dst = os.path.join(d, "repo")
    subprocess.run(["rsync", "-a", "--exclude", "target", "--exclude", ".git", REPO + "/", dst + "/"], check=True)
    cfgdir = os.path.join(dst, ".cargo")
    os.makedirs(cfgdir, exist_ok=True)
    with open(os.path.join(cfgdir, "config.toml"), "a") as f:
        f.write("\n[net]\noffline = true\n")
    return d, dst


def inject(dst, g):
    notes = []
    for a in g.get("attrs", []):
        # locate with the same extractor as the Verus side, on the scratch copy
        old = extract.REPO
        extract.REPO = dst
        extract._src_cache.clear()
        try:
            it = extract.find_item(a["file"], a.get("in"), a["item"])
        finally:
            extract.REPO = old
            extract._src_cache.clear()
        p = os.path.join(dst, a["file"])
        s = open(p).read()
        # the fn keyword line
        pos = it["start"] + it.get("kw", 0)
        ls = line_start(s, pos)
        indent = re.match(r"[ \t]*", s[ls:]).group(0)
        ins = "".join(indent + l + "\n" for l in a["lines"])
        s = s[:ls] + ins + s[ls:]
        open(p, "w").write(s)
        notes.append("contract attributes on %s %s" % (a["file"], a["item"]))
    for a in g.get("append", []):
        p = os.path.join(dst, a["file"])
        with open(os.path.join(g["dir"], a["from"])) as f:
            h = f.read()
        with open(p, "a") as f:
            f.write("\n\n// ---- injected by /verif (cfg(kani) only) ----\n" + h)
    for a in g.get("prepend", []):
        p = os.path.join(dst, a["file"])
        s = open(p).read()
        open(p, "w").write("".join(l + "\n" for l in a["lines"]) + s)
    return notes


RESULT_RX = re.compile(r"VERIFICATION:- (SUCCESSFUL|FAILED)")


def parse_output(out, names):
    """per-harness verdicts from cargo kani's output (default or terse format)"""
    res = {}
    # split on "Checking harness <name>..."
    chunks = re.split(r"Checking harness ([\w:]+)\.\.\.", out)
    # chunks: [pre, name1, body1, name2, body2, ...]
    for i in range(1, len(chunks) - 1, 2):
        nm = chunks[i].split("::")[-1]
        body = chunks[i + 1]
        m = RESULT_RX.search(body)
        cover = re.search(r"\*\* (\d+) of (\d+) cover properties satisfied", body)
        failed = re.findall(r"Failed Checks: (.*)", body)
        tm = re.search(r"Verification Time: ([\d.]+)s", body)
        res[nm] = dict(verdict=m.group(1) if m else None, cover=(int(cover.group(1)), int(cover.group(2))) if cover else None,
                       failed_checks=failed[:10], time_s=float(tm.group(1)) if tm else None, body=body[-3000:])
    # summary lines (with -j the bodies can interleave; the summary is authoritative for failures)
    for m in re.finditer(r"Verification failed for - ([\w:]+)", out):
        nm = m.group(1).split("::")[-1]
        res.setdefault(nm, dict(verdict=None, cover=None, failed_checks=[], time_s=None, body=""))
        res[nm]["verdict"] = "FAILED"
    return res


def run_groups(groups, pid, tier, jobs=8):
    out = dict(harnesses=[], cmds=[], trusted=[], solver_s=0.0)
    # groups of the same crate share one scratch copy and one build
    by_crate = {}
    for gname in groups:
        g0 = load_group(gname)
        hs0 = [dict(h, group=gname) for h in g0["harnesses"] if pid in h["props"] and (tier == "thorough" or h.get("tier", "quick") == "quick")]
        if not hs0:
            continue
        e = by_crate.setdefault(g0["crate"], dict(groups=[], hs=[]))
        e["groups"].append(g0)
        e["hs"] += hs0
    for crate, e in by_crate.items():
        gs = e["groups"]
        hs = e["hs"]
        g = dict(crate=crate, flags=sum([x.get("flags", []) for x in gs], []), trusted=sum([x.get("trusted", []) for x in gs], []),
                 harness_timeout_s=max([x.get("harness_timeout_s", 0) for x in gs]) or None)
        if g["harness_timeout_s"] is None:
            del g["harness_timeout_s"]
        gname = "+".join(x["name"] for x in gs)
        scratch = None
        try:
            scratch, dst = make_scratch()
            try:
                for x in gs:
                    inject(dst, x)
            except (extract.AnchorLost, OSError) as e2:
                for h in hs:
                    out["harnesses"].append(dict(h, status="undecided", detail="injection failed: %s" % e2))
                continue
            base = ["cargo", "kani", "-p", g["crate"], "-Z", "function-contracts", "-Z", "stubbing"] + g.get("flags", [])
            env = dict(os.environ, CARGO_NET_OFFLINE="true", CARGO_TARGET_DIR=os.path.join(scratch, "target"))
            hto = g.get("harness_timeout_s", 900 if tier == "quick" else 3000)
            out["cmds"].append("CARGO_NET_OFFLINE=true " + " ".join(base) + " --harness <each of: %s>   (one process per harness, timeout %ds, in a scratch copy of /repo with units/kani/%s injected)"
                               % (", ".join(h["name"] for h in hs), hto, gname))
            t0 = time.time()
            # 1. build once (all harnesses are compiled in one pass and cached)
            bp = subprocess.run(["timeout", "1800"] + base + ["--only-codegen"], cwd=dst, env=env, capture_output=True, text=True)
            build_txt = bp.stdout + "\n" + bp.stderr
            results = {}
            if bp.returncode != 0:
                for h in hs:
                    results[h["name"]] = (None, "build failed (rc=%s): %s" % (bp.returncode, build_txt[-1500:]), 0.0)
            else:
                # 2. one cargo-kani process per harness, in parallel
                import concurrent.futures

                def run_one(h):
                    t1 = time.time()
                    c = base + ["--harness", h["name"]]
                    try:
                        q = subprocess.run(["timeout", str(hto)] + c, cwd=dst, env=env, capture_output=True, text=True)
                        return h["name"], q.returncode, q.stdout + "\n" + q.stderr, time.time() - t1
                    except Exception as e:  # noqa
                        return h["name"], 99, "runner error: %s" % e, time.time() - t1

                with concurrent.futures.ThreadPoolExecutor(max_workers=jobs) as ex:
                    for nm, rc_, txt_, dt in ex.map(run_one, hs):
                        results[nm] = (rc_, txt_, dt)
            wall = time.time() - t0
            try:
                os.makedirs(os.path.join(ROOT, "out"), exist_ok=True)
                with open(os.path.join(ROOT, "out", "kani_%s_%s.log" % (gname, pid)), "w") as lf:
                    lf.write(build_txt[-5000:])
                    for nm, (rc_, txt_, dt) in results.items():
                        lf.write("\n===== %s rc=%s %.0fs\n%s" % (nm, rc_, dt, txt_[-20000:]))
            except OSError:
                pass
            for h in hs:
                rc_, txt_, dt = results[h["name"]]
                hh = dict(h)
                hh["file"] = h.get("target", "").split("::")[0]
                parsed = parse_output(txt_, [h["name"]]) if rc_ is not None else {}
                r = parsed.get(h["name"])
                timed_out = (rc_ == 124) or ("timed out" in (txt_ or ""))
                if rc_ is None:
                    hh["status"] = "undecided"
                    hh["detail"] = txt_
                elif timed_out:
                    hh["status"] = "undecided"
                    hh["detail"] = "timeout after %.0fs" % dt
                elif r is None or r["verdict"] is None:
                    hh["status"] = "undecided"
                    hh["detail"] = "no verdict (rc=%s, %.0fs): %s" % (rc_, dt, (txt_ or "")[-800:])
                elif r["verdict"] == "SUCCESSFUL":
                    want_unsat = h.get("expect_cover_unsat", False)
                    if r["cover"] is not None and r["cover"][0] < r["cover"][1] and not want_unsat:
                        hh["status"] = "undecided"
                        hh["detail"] = "vacuous: only %d of %d cover properties satisfied" % r["cover"]
                    elif want_unsat and r["cover"] is not None and r["cover"][0] > 0:
                        hh["status"] = "failed"
                        hh["output"] = "Kani harness %s: a cover property expected to be unreachable was reached\n%s" % (h["name"], r["body"][-2000:])
                    else:
                        hh["status"] = "ok"
                    hh["time_s"] = r["time_s"]
                    hh["cover"] = r["cover"]
                else:
                    fc = " ".join(r["failed_checks"])
                    only_unwind = r["failed_checks"] and all("unwinding assertion" in x for x in r["failed_checks"])
                    if only_unwind:
                        hh["status"] = "undecided"
                        hh["detail"] = "unwinding bound too small: %s" % fc[:300]
                    else:
                        hh["status"] = "failed"
                        hh["output"] = "Kani harness %s FAILED\n%s" % (h["name"], r["body"][-2500:])
                        hh["time_s"] = r["time_s"]
                out["solver_s"] += (r["time_s"] or 0) if r else 0
                out["harnesses"].append(hh)
            # concrete playback for failures (in parallel, bounded time)
            failed_now = [hh for hh in out["harnesses"] if hh.get("status") == "failed" and "playback" not in hh and hh["name"] in [h["name"] for h in hs]]
            if failed_now:
                import concurrent.futures

                def playback(hh):
                    pc = base + ["-Z", "concrete-playback", "--concrete-playback=print", "--harness", hh["name"]]
                    try:
                        pp = subprocess.run(["timeout", "400"] + pc, cwd=dst, env=env, capture_output=True, text=True)
                        m = re.search(r"Concrete playback unit test for `[^`]*`:\s*```(.*?)```", pp.stdout, re.S)
                        return hh["name"], (m.group(1).strip()[:6000] if m else None)
                    except Exception:  # noqa
                        return hh["name"], None

                with concurrent.futures.ThreadPoolExecutor(max_workers=jobs) as ex:
                    pb = dict(ex.map(playback, failed_now))
                for hh in failed_now:
                    if pb.get(hh["name"]):
                        hh["playback"] = pb[hh["name"]]
            out["trusted"].append("kani group %s: harnesses run on the real functions of crate %s compiled by kani-compiler; "
                                  "format!/fmt stubs as listed in the harness files" % (gname, g["crate"]))
            for tline in g.get("trusted", []):
                out["trusted"].append("kani group %s: %s" % (gname, tline))
        finally:
            if scratch:
                shutil.rmtree(scratch, ignore_errors=True)
    return out


if __name__ == "__main__":
    import sys
    r = run_groups([sys.argv[1]], sys.argv[2], sys.argv[3] if len(sys.argv) > 3 else "quick")
    for h in r["harnesses"]:
        print(h["name"], h["status"], h.get("time_s"), h.get("detail", "")[:1500], h.get("output", "")[-1500:] if h["status"] == "failed" else "")
        if h.get("playback"):
            print("PLAYBACK:\n", h["playback"][:1500])
    print(r["cmds"])
