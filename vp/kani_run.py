"""Kani side (filled in below)."""


def run_groups(groups, pid, tier):
    return dict(harnesses=[], cmds=[], trusted=[], solver_s=0)
