#!/usr/bin/env python3
"""dev helper: persistent scratch copy at /tmp/kdev for fast iteration on Kani harnesses.
usage: kani_dev.py <group> <harness> [<harness>...]   (re-syncs sources, re-injects, runs cargo kani)"""
import os
import subprocess
import sys
sys.path.insert(0, os.path.dirname(os.path.abspath(__file__)))
import kani_run

g = kani_run.load_group(sys.argv[1])
dst = "/tmp/kdev/repo"
os.makedirs(dst, exist_ok=True)
subprocess.run(["rsync", "-a", "--delete", "--exclude", "target", "--exclude", ".git", "/repo/", dst + "/"], check=True)
os.makedirs(dst + "/.cargo", exist_ok=True)
open(dst + "/.cargo/config.toml", "a").write("\n[net]\noffline = true\n")
kani_run.inject(dst, g)
cmd = ["cargo", "kani", "-p", g["crate"], "-Z", "function-contracts", "-Z", "stubbing", "-Z", "unstable-options", "--harness-timeout", os.environ.get("KTO", "600") + "s", "-j", "8", "--output-format=terse"] + g.get("flags", [])
for h in sys.argv[2:]:
    cmd += ["--harness", h]
env = dict(os.environ, CARGO_NET_OFFLINE="true", CARGO_TARGET_DIR="/tmp/kdev/target")
p = subprocess.run(cmd, cwd=dst, env=env, capture_output=True, text=True)
out = p.stdout + p.stderr
open("/tmp/kdev/last.log", "w").write(out)
import re
for m in re.finditer(r"Checking harness ([\w:]+)|VERIFICATION:- (\w+)|Verification Time: ([\d.]+)s|Failed Checks: (.*)|\*\* \d+ of \d+ cover.*|error(\[E\d+\])?: .*|timed out.*|TIMEOUT.*", out):
    print(m.group(0)[:300])
print("rc", p.returncode)
