#!/usr/bin/env python3
"""dev helper: seed_intake.py ID [ID...] — confirm /tmp/seedout/<ID> with seed_verify.py (demo passes without the change, fails with it,
suite otherwise unchanged), save it to /verif/seeded/<ID> and run the property's check against it in a scratch worktree (seed_sweep)."""
import json, os, subprocess, sys
HERE = os.path.dirname(os.path.abspath(__file__))
for sid in sys.argv[1:]:
    src = "/tmp/seedout/" + sid
    m = json.load(open(src + "/meta.json"))
    r = subprocess.run(["python3", HERE + "/seed_verify.py", src, m["demo_crate"], m["demo_filter"]], capture_output=True, text=True)
    print(sid, "verify:", r.stdout.strip().replace("\n", " ")[:600], r.stderr[-300:])
    try:
        res = json.loads(r.stdout)
    except Exception:
        print(sid, "NOT CONFIRMED (no result)"); continue
    ok = (res["demo_without_change"][0] == 0 and res["demo_with_change"][0] != 0
          and all(("mainnet_100k" in f or "testnet_10k" in f or "mainnet_next_targets" in f or "testnet_next_targets" in f or m["demo_filter"] in f) for f in res["suite_failed"]))
    if not ok:
        print(sid, "NOT CONFIRMED"); continue
    subprocess.run(["python3", HERE + "/seed_save.py", src, sid, "round 3"], check=True)
