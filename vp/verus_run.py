"""Run Verus on a rendered unit, classify every diagnostic, attribute it to a function."""
import json
import os
import re
import shutil
import subprocess
import tempfile
import time

import extract
from rustlex import mask, match_close

SEMANTIC = [
    (re.compile(r"^postcondition not satisfied"), "post"),
    (re.compile(r"^precondition not satisfied"), "pre@callee"),
    (re.compile(r"^invariant not satisfied at end of loop body"), "inv-preserved"),
    (re.compile(r"^invariant not satisfied before loop"), "inv-established"),
    (re.compile(r"^loop invariant not satisfied"), "inv"),
    (re.compile(r"^assertion failed"), "assert"),
    (re.compile(r"^requires not satisfied"), "assert"),
    (re.compile(r"^assertion failed in body|^assert forall"), "assert"),
    (re.compile(r"^possible arithmetic underflow/overflow"), "overflow"),
    (re.compile(r"^possible division by zero"), "div0"),
    (re.compile(r"^possible bit shift underflow/overflow"), "overflow"),
    (re.compile(r"^decreases not satisfied"), "decreases"),
    (re.compile(r"^could not prove termination"), "decreases"),
    (re.compile(r"^unreachable code|^reached unreachable|^cannot prove that .* unreachable"), "unreachable"),
    (re.compile(r"^constructed value may fail to meet its declared type invariant"), "type-inv"),
    (re.compile(r"^loop ensures not satisfied|^failed this postcondition"), "post"),
    (re.compile(r"^possible (index|slice) out of (bounds|range)"), "bounds"),
    (re.compile(r"^precondition not met"), "bounds"),
    (re.compile(r"^unable to prove post-?condition of closure"), "post"),
    (re.compile(r"^unable to prove pre-?condition of closure|^closure precondition"), "pre@callee"),   # e.g. "precondition not met: index in bounds for this access"
    (re.compile(r"^unwrap|^called .* on a `?None`? value"), "pre@callee"),
]
RESOURCE = re.compile(r"rlimit|resource limit|timed out|timeout|out of memory", re.I)


def fn_intervals(gen_src):
    """[(start_line, end_line, name)] for every fn with a body in the generated file"""
    m_ = mask(gen_src)
    res = []
    for m in re.finditer(r"\bfn\s+(\w+)", m_):
        # find body or `;`
        k = m.end()
        depth = 0
        o = -1
        while k < len(m_):
            ch = m_[k]
            if ch in "([":
                depth += 1
            elif ch in ")]":
                depth -= 1
            elif ch == "{" and depth == 0:
                o = k
                break
            elif ch == ";" and depth == 0:
                break
            k += 1
        if o < 0:
            s = gen_src.count("\n", 0, m.start()) + 1
            e = gen_src.count("\n", 0, k) + 1
            res.append((s, e, m.group(1)))
            continue
        # `ensures ({ let … })` style blocks: the real body is the LAST depth-0 `{` group before
        # the function ends; walk groups until the text after the close is not a spec clause.
        c = match_close(m_, o)
        while True:
            rest = m_[c + 1:]
            mm = re.match(r"\s*(\)|,|==>|&&|\|\||==|=~=|<==>|else\b)", rest)
            if not mm:
                break
            # this brace group was inside a spec expression; find the next depth-0 `{`
            k = c + 1
            depth = 0
            o2 = -1
            while k < len(m_):
                ch = m_[k]
                if ch in "([":
                    depth += 1
                elif ch in ")]":
                    depth -= 1
                elif ch == "{" and depth <= 0:
                    o2 = k
                    break
                k += 1
            if o2 < 0:
                break
            c = match_close(m_, o2)
        s = gen_src.count("\n", 0, m.start()) + 1
        e = gen_src.count("\n", 0, c) + 1
        res.append((s, e, m.group(1)))
    return res


def innermost(intervals, line):
    best = None
    for s, e, n in intervals:
        if s <= line <= e and (best is None or (e - s) < (best[1] - best[0])):
            best = (s, e, n)
    return best


def classify(msg):
    for rx, kind in SEMANTIC:
        if rx.search(msg):
            return kind
    return None


def run_unit(tpl_path, rlimit=None, keep_dir=None, extra_args=(), timeout=900):
    """Render + verify one unit. Returns a dict:
       status: ok | violations | undecided
       functions: {name: {mode, success, time_ms, rlimit}}
       failures: [{fn, kind, message, line, rendered, record}]   (semantic)
       tool_errors: [str]
       canary: {expected: [...], failed_as_expected: [...], passed_unexpectedly: [...]}
       records, meta, gen_src
    """
    t0 = time.time()
    res = dict(status="undecided", functions={}, failures=[], tool_errors=[], records=[], meta={},
               canary={}, verus_cmd="", wall_s=0.0, solver_ms=0)
    try:
        gen_src, records, meta = extract.render(tpl_path)
    except extract.AnchorLost as e:
        res["tool_errors"].append("anchor lost: %s" % e)
        return res
    except (extract.TemplateError, Exception) as e:  # noqa
        res["tool_errors"].append("extraction error: %s: %s" % (type(e).__name__, e))
        return res
    res["records"], res["meta"], res["gen_src"] = records, meta, gen_src
    d = keep_dir or tempfile.mkdtemp(prefix="vp_verus_")
    unit = meta.get("name", "unit")
    f = os.path.join(d, "%s.rs" % unit)
    with open(f, "w") as fh:
        fh.write(gen_src)
    cmd = ["verus", f, "--output-json", "--time-expanded", "--multiple-errors", "8", "--error-format=json"]
    # head-room: the heaviest function (set_config_no_verification: 8 independent `if let`s) uses about half of Verus' default budget of 10
    cmd += ["--rlimit", str(rlimit or 30)]
    cmd += list(extra_args)
    res["verus_cmd"] = " ".join(cmd[:1] + ["<rendered %s.rs>" % unit] + cmd[2:])
    try:
        p = subprocess.run(cmd, cwd=d, capture_output=True, text=True, timeout=timeout)
    except subprocess.TimeoutExpired:
        res["tool_errors"].append("verus timed out after %ds" % timeout)
        if not keep_dir:
            shutil.rmtree(d, ignore_errors=True)
        return res
    finally:
        pass
    res["raw_stderr"] = p.stderr
    # stdout JSON
    try:
        j = json.loads(p.stdout)
    except Exception:
        j = None
    if j:
        vr = j.get("verification-results", {})
        res["verified"] = vr.get("verified")
        res["errors"] = vr.get("errors")
        smt = j.get("times-ms", {}).get("smt", {})
        res["solver_ms"] = smt.get("total", 0)
        for mod in smt.get("smt-run-module-times", []):
            for fb in mod.get("function-breakdown", []):
                res["functions"][fb["function"]] = dict(mode=fb.get("mode:"), success=fb.get("success"),
                                                        time_ms=fb.get("time"), rlimit=fb.get("rlimit"))
    intervals = fn_intervals(gen_src)
    canary_names = set(c["fn"] for c in meta.get("canaries", [])) | {"vp_canary_axioms"}
    canary_failed = set()
    for line in p.stderr.splitlines():
        line = line.strip()
        if not line.startswith("{"):
            continue
        try:
            dgn = json.loads(line)
        except Exception:
            continue
        if dgn.get("level") != "error":
            continue
        msg = dgn.get("message", "")
        if msg.startswith("aborting due to"):
            continue
        prim = [s for s in dgn.get("spans", []) if s.get("is_primary")]
        ln = prim[0]["line_start"] if prim else None
        kind = classify(msg)
        fn = innermost(intervals, ln) if ln else None
        fname = fn[2] if fn else None
        for r_ in records:
            if ln and r_.get("fn_name") and r_["gen_lines"][0] <= ln <= r_["gen_lines"][1]:
                fname = r_["fn_name"]
        if kind is None or dgn.get("code"):
            if RESOURCE.search(msg):
                res["tool_errors"].append("resource: %s (in %s)" % (msg, fname))
            else:
                res["tool_errors"].append("front-end: %s (line %s, in %s)" % (msg.split("\n")[0][:300], ln, fname))
            continue
        if fname in canary_names:
            canary_failed.add(fname)
            continue
        rec = None
        for r in records:
            if ln and r["gen_lines"][0] <= ln <= r["gen_lines"][1]:
                rec = r
        clause = ""
        if prim:
            clause = " ".join(t["text"].strip() for t in prim[0].get("text", []))[:400]
        res["failures"].append(dict(fn=fname, kind=kind, message=msg, line=ln, clause=clause,
                                    rendered=dgn.get("rendered", ""), record=rec))
    res["canary"] = dict(expected=sorted(canary_names), failed_as_expected=sorted(canary_failed),
                         passed_unexpectedly=sorted(canary_names - canary_failed))
    if "panicked at" in p.stderr or "Internal Verus Error" in p.stderr:
        mm = re.search(r"(Internal Verus Error[^\n]*|panicked at[^\n]*)", p.stderr)
        res["tool_errors"].append("verus crashed: %s" % (mm.group(1)[:300] if mm else ""))
    if j is None and not res["failures"] and not res["tool_errors"]:
        res["tool_errors"].append("verus produced no JSON (exit %s): %s" % (p.returncode, p.stderr[-500:]))
    # resource-limit failures show up as function success=false without a semantic diagnostic
    failed_fns = set(k.split("::")[-1] for k, v in res["functions"].items() if v["success"] is False)
    explained = set(f_["fn"] for f_ in res["failures"] if f_["fn"]) | canary_failed
    # semantic diagnostics without a source location (e.g. the postcondition that a *SpecImpl trait attaches to a trait
    # method such as From::from) are attributed to the failing functions that have no located diagnostic
    unlocated = [f_ for f_ in res["failures"] if not f_["fn"]]
    # a nested fn (e.g. pop_block inside ingest_stable_blocks_into_utxoset) fails under its own name, while its diagnostics
    # are attributed to the extracted function that contains it
    for iv in intervals:
        if iv[2] in failed_fns and any(f_["line"] and iv[0] <= f_["line"] <= iv[1] for f_ in res["failures"]):
            explained.add(iv[2])
    for fnm in sorted(failed_fns - explained):
        if unlocated:
            u = unlocated.pop(0) if len(unlocated) > 1 else unlocated[0]
            recs = [r_ for r_ in records if fnm == r_.get("fn_name") or fnm in (r_.get("fn_names") or [])]
            res["failures"].append(dict(u, fn=fnm, record=recs[0] if len(recs) == 1 else None,
                                        clause="(contract attached through a *SpecImpl trait; no source location given by Verus)"))
            explained.add(fnm)
    res["failures"] = [f_ for f_ in res["failures"] if f_["fn"]]
    for fnm in failed_fns - explained:
        if not any(fnm in t for t in res["tool_errors"]):
            res["tool_errors"].append("function %s failed without a semantic diagnostic (rlimit?)" % fnm)
    if res["tool_errors"]:
        res["status"] = "undecided"
    elif res["failures"]:
        res["status"] = "violations"
    elif res["canary"]["passed_unexpectedly"]:
        res["status"] = "undecided"
        res["tool_errors"].append("vacuity canary passed (contradictory preconditions/axioms?): %s"
                                  % res["canary"]["passed_unexpectedly"])
    else:
        res["status"] = "ok"
    res["wall_s"] = round(time.time() - t0, 2)
    if not keep_dir:
        shutil.rmtree(d, ignore_errors=True)
    return res


if __name__ == "__main__":
    import sys
    r = run_unit(sys.argv[1], keep_dir=(sys.argv[2] if len(sys.argv) > 2 else None))
    print("status=%s verified=%s errors=%s solver_ms=%s wall=%s" % (r["status"], r.get("verified"), r.get("errors"), r.get("solver_ms"), r.get("wall_s")))
    for t in r["tool_errors"]:
        print("TOOL:", t)
    for f_ in r["failures"]:
        print("FAIL: %s [%s] line %s: %s" % (f_["fn"], f_["kind"], f_["line"], f_["clause"][:200]))
    print("canary passed unexpectedly:", r.get("canary", {}).get("passed_unexpectedly"))
    slow = sorted(((v["time_ms"] or 0, k) for k, v in r["functions"].items()), reverse=True)[:5]
    print("slowest:", slow)
    if "-v" in sys.argv:
        for line in r.get("raw_stderr", "").splitlines():
            if line.startswith("{"):
                try:
                    dd = json.loads(line)
                    if dd.get("level") == "error" and "vp_canary" not in dd.get("rendered", ""):
                        print(dd.get("rendered", "")[:1500])
                except Exception:
                    pass
